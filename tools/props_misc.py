"""props_misc — checks of C07 (fresh randomness), C08 (no identities / size formula), C11 (streaming),
C18 (scrypt = RFC 7914, library and C ABI) and C20 (key containers erase their bytes when dropped).

These properties need driver ops and model runners that tools/vlib.py's `Case` does not know (random-stream
histories in ONE driver process, real CLI processes, the FFI caller, allocator observations), so every class
here overrides `explore` and does its own bookkeeping in `ctx` in the same format `check` expects:
  ctx.violations     direct-oracle failures with the exact input (driver lines / argv / request)
  ctx.disagreements  model-vs-implementation differences (+ a `correspondence` entry in ctx.broken)
  ctx.distribution   per-generator counts, ctx.evaluations / agreed / oracle_checks / distinct_nontrivial
Model runners: coq/Run/RunMisc.v; runners that depend on files which may be absent (Model/Monitors.v,
Spec/Scrypt.v + Model/ScryptImpl.v) are emitted into the generated case files only when those files exist.
"""
import base64, collections, errno, fcntl, hashlib, itertools, json, os, re, shutil, subprocess, sys, tempfile, threading, time
from concurrent.futures import ThreadPoolExecutor

import vlib
import props
from vlib import Case, hexs, unhex, g_bytes, g_opt, g_rscript, g_obs
from props import Prop, keypairs, all_partitions, script_of, records

BIG = 65536
PROLOGUE = bytes([0x65, 0x67, 0x6b, 0x10])
PASS_MAGIC = bytes([0x65, 0x67, 0x6b, 0x20])
KEY_VERSION = bytes([0x65, 0x67, 0x6b, 0x30])
MAX_VIOLATIONS = 25      # replay files written per run; further failing inputs are only counted


# =========================================================================== plumbing
def parse_kv(line):
    parts = line.split()
    kv = {"raw": line}
    for p in parts[1:]:
        k, _, v = p.partition("=")
        kv[k] = v
    kv.setdefault("outcome", "badline")
    return kv


def drv(binp, bodies, timeout=1800):
    """runs `bodies` (driver lines without ids) IN ORDER in one driver process; returns the replies as dicts.
    (vlib.run_driver restarts the driver after a crash: process state such as the random stream is lost then;
    the crashed line is reported as outcome=abort.)"""
    lines = ["%d %s" % (i + 1, b) for i, b in enumerate(bodies)]
    res, _ = vlib.run_driver(binp, lines, timeout=timeout)
    return [parse_kv(res.get(str(i + 1), "%d outcome=missing" % (i + 1))) for i in range(len(lines))]


COQ_HEADER = """From Kestrel Require Import Bytes Outcome IO Prims.
From Kestrel.Run Require Import RunLib RunMisc.
From Coq Require Import String.
Local Open Scope string_scope.
Local Open Scope N_scope.
Set Printing Width 1000000.
Set Printing Depth 1000000.
"""


def coq_eval(tag, items, preamble="", timeout=1500, show=False):
    """items: list of (id, Gallina term[, weight]).  show=False: the term is a bool, result dict id -> True/False/None
    (None = evaluation failed).  show=True: result dict id -> printed value.  Returns (dict, log)."""
    os.makedirs(vlib.CASEDIR, exist_ok=True)
    for f in os.listdir(vlib.CASEDIR):
        if f.startswith(tag + "_") or f.startswith("." + tag + "_"):
            os.remove(os.path.join(vlib.CASEDIR, f))
    if not items:
        return {}, ""
    items = [(str(it[0]), it[1], (it[2] if len(it) > 2 else len(it[1]))) for it in items]
    nsh = min(vlib.NPROC, len(items))
    shards = [[] for _ in range(nsh)]
    load = [0] * nsh
    for it in sorted(items, key=lambda x: -x[2]):
        k = load.index(min(load))
        shards[k].append(it)
        load[k] += it[2]
    files = []
    for si, sh_items in enumerate(shards):
        if not sh_items:
            continue
        name = "%s_%d" % (tag, si)
        with open(os.path.join(vlib.CASEDIR, name + ".v"), "w") as f:
            f.write(COQ_HEADER)
            f.write(preamble)
            for iid, term, _ in sh_items:
                f.write("Definition c%s := (%s, %s).\n" % (iid, iid, term))
            for iid, term, _ in sh_items:
                f.write("Eval vm_compute in c%s.\n" % iid)
        files.append(name)

    def one(name):
        rc, out = vlib.sh("ulimit -s unlimited 2>/dev/null; coqc -q -noglob -Q . Kestrel Run/cases/%s.v" % name,
                          cwd=vlib.COQ, timeout=timeout)
        return name, rc, out

    found, logs = {}, []
    with ThreadPoolExecutor(max_workers=vlib.NPROC) as ex:
        for name, rc, out in ex.map(one, files):
            if show:
                for m in re.finditer(r"=\s*\((\d+),\s*(.*?)\)\s*\n\s*:", out, re.S):
                    found[m.group(1)] = re.sub(r"\s+", " ", m.group(2))[:1500]
            else:
                for m in re.finditer(r"=\s*\((\d+),\s*(true|false)\)", out):
                    found[m.group(1)] = m.group(2) == "true"
            if rc != 0:
                logs.append("%s: rc=%d %s" % (name, rc, out[-600:]))
    for f in os.listdir(vlib.CASEDIR):
        if f.startswith(tag + "_") or f.startswith("." + tag + "_"):
            try:
                os.remove(os.path.join(vlib.CASEDIR, f))
            except OSError:
                pass
    return dict((it[0], found.get(it[0])) for it in items), "\n".join(logs)


def coq_has(*rel):
    return all(os.path.exists(os.path.join(vlib.COQ, r)) for r in rel)


def release_libdrv():
    """builds harness/libdrv in the release profile (same target dir); returns (ok, path, log)"""
    env = {"CARGO_TARGET_DIR": vlib.TARGET, "CARGO_NET_OFFLINE": "true", "RUSTFLAGS": "--cfg kestrel_verif"}
    rc, out = vlib.sh(["cargo", "build", "--offline", "--release"], cwd=os.path.join(vlib.VERIF, "harness", "libdrv"),
                      env=env, timeout=1800)
    p = os.path.join(vlib.TARGET, "release", "libdrv")
    return rc == 0 and os.path.exists(p), p, out


def cli_env(extra=None):
    e = dict(os.environ)
    for k in ("KESTREL_VERIF_RANDOM", "KESTREL_VERIF_DRIVER", "KESTREL_KEYRING", "KESTREL_PASSWORD", "KESTREL_NEW_PASSWORD"):
        e.pop(k, None)
    e["RUST_BACKTRACE"] = "0"
    if extra:
        e.update(extra)
    return e


def cli(args, env=None, stdin=None, timeout=120):
    """one real CLI process: no controlling terminal, stdin redirected.  Returns (rc, stdout bytes, stderr text)"""
    try:
        p = subprocess.run([vlib.CLIDRV] + list(args), env=cli_env(env), input=(stdin if stdin is not None else b""),
                           stdout=subprocess.PIPE, stderr=subprocess.PIPE, start_new_session=True, timeout=timeout)
        return p.returncode, p.stdout, p.stderr.decode("utf-8", "replace")
    except subprocess.TimeoutExpired:
        return 124, b"", "timeout"


def cli_many(jobs):
    """jobs: list of dict(args, env, stdin); runs them on NPROC threads; returns results in order"""
    with ThreadPoolExecutor(max_workers=vlib.NPROC) as ex:
        return list(ex.map(lambda j: cli(j["args"], j.get("env"), j.get("stdin")), jobs))


def clidrv_ops(bodies):
    """line-protocol driver inside clidrv (keyring helpers)"""
    lines = ["%d %s" % (i + 1, b) for i, b in enumerate(bodies)]
    rc, out = vlib.sh([vlib.CLIDRV], inp="\n".join(lines) + "\n", env={"KESTREL_VERIF_DRIVER": "1"}, timeout=600)
    res = {}
    for l in out.splitlines():
        if " " in l:
            res[l.split()[0]] = l
    return [parse_kv(res.get(str(i + 1), "%d outcome=missing" % (i + 1))) for i in range(len(lines))]


def b64(b):
    return base64.b64encode(b).decode()


def encode_pk(pk):
    """keyring text form of a public key: base64(pk || sha256(pk)[:4]) — 48 characters"""
    return b64(pk + hashlib.sha256(pk).digest()[:4])


def make_keyring(entries):
    """entries: list of (name, sk, pk, password, salt).  Locks the keys with the CLI's own sk_lock and returns
    (keyring text, {name: locked private key string})"""
    outs = clidrv_ops(["sk_lock %s %s %s" % (hexs(sk), hexs(pw), hexs(salt)) for (_, sk, _, pw, salt) in entries])
    text, locked = "", {}
    for (name, sk, pk, pw, salt), o in zip(entries, outs):
        if o["outcome"] != "ok":
            raise RuntimeError("sk_lock failed: " + o["raw"][:200])
        lk = unhex(o["out"]).decode()
        locked[name] = lk
        text += "[Key]\nName = %s\nPublicKey = %s\nPrivateKey = %s\n\n" % (name, encode_pk(pk), lk)
    return text, locked


def sim_reads(n, caps, bufsize=BIG):
    """sizes of the successive non-empty reads of an n-byte source under a cap script (then uncapped)"""
    out, rem, i = [], n, 0
    while rem > 0:
        cap = caps[i] if i < len(caps) else bufsize
        i += 1
        k = min(cap, bufsize, rem)
        if k == 0:
            break
        out.append(k)
        rem -= k
    return out


class MiscProp(Prop):
    """base: bookkeeping helpers; subclasses implement run(ctx)"""
    run_modules = ("Run/RunLib.v", "Run/RunMisc.v")   # COQ_HEADER

    def explore(self, ctx):
        self.run(ctx)
        ctx.search_note = "direct oracle evaluated on every run case (%d oracle checks)" % ctx.oracle_checks

    def run(self, ctx):
        raise NotImplementedError

    def run_cases(self, ctx, cases, model=True):
        super().run_cases(ctx, cases, model=model)
        if len(ctx.violations) > MAX_VIOLATIONS:
            self.count(ctx, "further-violations-not-written-as-replays", len(ctx.violations) - MAX_VIOLATIONS)
            del ctx.violations[MAX_VIOLATIONS:]

    # ---- bookkeeping
    def count(self, ctx, key, n=1):
        ctx.distribution[key] = ctx.distribution.get(key, 0) + n

    def ran(self, ctx, gen, n=1, nontrivial=True):
        ctx.evaluations += n
        if nontrivial:
            ctx.distinct_nontrivial += n
        self.count(ctx, "gen:" + gen, n)

    def sample(self, ctx, d):
        if len(ctx.samples) < 8:
            ctx.samples.append(d)

    def check(self, ctx, ok, inp, expected, observed, key=None):
        """one direct-oracle evaluation"""
        ctx.oracle_checks += 1
        if not ok:
            if len(ctx.violations) < MAX_VIOLATIONS:
                ctx.violations.append({"input": inp, "expected": expected, "observed": str(observed)[:1500], "finding_key": key})
            else:
                self.count(ctx, "further-violations-not-written-as-replays")
        return ok

    def machinery(self, ctx, what):
        ctx.broken.append({"kind": "machinery", "what": what})

    def model_results(self, ctx, gen, items, res, log, inputs, impl_text, shows=None, preamble=""):
        """items: [(id, term)], res: id->bool/None; records agreement / disagreements"""
        bad = [it for it in items if res.get(str(it[0])) is not True]
        ctx.agreed += len(items) - len(bad)
        self.count(ctx, "model:" + gen, len(items))
        if bad:
            shown = {}
            if shows:
                sh_items = [(it[0], shows[it[0]]) for it in bad[:4] if it[0] in shows]
                shown, _ = coq_eval(ctx.pid + "s", sh_items, preamble=preamble, show=True)
            for it in bad[:20]:
                ctx.disagreements.append({"input": inputs.get(it[0]), "implementation": str(impl_text.get(it[0]))[:800],
                                          "model": shown.get(str(it[0]), "model evaluation failed" if res.get(str(it[0])) is None else "differs")})
            ctx.broken.append({"kind": "correspondence",
                               "what": "correspondence %s/%s: model and implementation differ on %d of %d cases%s"
                                       % (ctx.pid, gen, len(bad), len(items), (" [" + log[-300:] + "]") if log else "")})

    # ---- replay: re-run the recorded driver lines / CLI argv and show what comes back
    def replay(self, ctx, payload):
        inp = payload.get("input", {})
        out = {"holds": None, "expected": payload.get("expected")}
        if isinstance(inp, dict) and inp.get("lines"):
            binp = ctx.bin
            if inp.get("profile") == "release":
                ok, binp, _ = release_libdrv()
            rs = drv(binp, inp["lines"])
            out["implementation"] = [r["raw"][:600] for r in rs]
            fn = getattr(self, "recheck_" + str(inp.get("oracle")), None)
            if fn:
                out["holds"] = bool(fn(inp, rs))
        elif isinstance(inp, dict) and inp.get("ffi"):
            q = dict(inp["ffi"])
            rep = ffi_call([q])
            out["implementation"] = rep
            want = ref_scrypt(bytes.fromhex(q["pw"]), bytes.fromhex(q["salt"]), q["n"], q["r"], q["p"], q["dklen"]).hex()
            out["holds"] = rep[0].get("out") == want and rep[0].get("guard_ok") is True and rep[0].get("rest_ok", True) is True
        elif isinstance(inp, dict) and inp.get("op"):
            return super().replay(ctx, payload)
        else:
            out["note"] = "input is not a plain driver script; see 'input' for the argv / environment to re-run"
        return out


def ffi_call(reqs, timeout=1800):
    """harness/ffidrv/call.py over the cdylib; returns list of reply dicts in request order"""
    for i, r in enumerate(reqs):
        r["id"] = i
    inp = "\n".join(json.dumps(r) for r in reqs) + "\n"
    rc, out = vlib.sh([sys.executable, os.path.join(vlib.VERIF, "harness", "ffidrv", "call.py"), vlib.FFI_SO],
                      inp=inp, timeout=timeout)
    got = {}
    for l in out.splitlines():
        l = l.strip()
        if l.startswith("{"):
            try:
                d = json.loads(l)
                got[d.get("id")] = d
            except ValueError:
                pass
    return [got.get(i, {"id": i, "error": "no reply (rc=%d) %s" % (rc, out[-200:])}) for i in range(len(reqs))]


def register(reg):
    """called by tools/props.py: adds the classes of this module to props.REGISTRY"""
    for name in ("C07", "C08", "C11", "C18", "C20"):
        cls = globals().get(name)
        if cls is not None:
            reg[cls.id] = cls()


# =========================================================================== C07
def obs_of(op, kv):
    return vlib.parse_result(op, kv["raw"])


class C07(MiscProp):
    id = "C07"
    rule = ("(a) stream histories: 1..6 operations (key_enc with none/partly injected ephemeral and payload key, noise_enc "
            "without ephemeral) on ONE installed random stream in one driver process; the implementation's bytes and the "
            "bytes left in the stream after every operation are compared with RunMisc.run_hist given the same stream "
            "(order and number of draws), and directly: ephemeral public key = X25519 base point times the stream block, "
            "payload key recovered by the recipient = the stream block, 64/32/0 bytes consumed; the real CLI with "
            "KESTREL_VERIF_RANDOM must produce exactly what the library produces with the stream blocks injected; "
            "half-injected ephemeral pair (one of e / epk given): refused with the exact need on a short stream, and with "
            "exactly enough stream the given half is ignored and the stream block used (model: run_hist). "
            "(b) production randomness (statistical observation): every operation repeated with IDENTICAL inputs "
            "(library: 260, thorough 2000 times per operation, all in ONE driver process, i.e. > 1500 consecutive draws from one "
            "generator state; real CLI: 20, thorough 200 processes per command): ephemeral keys, payload keys, salts, generated "
            "public keys pairwise distinct, library and real CLI (encrypt, password encrypt, key generate, key change-pass). (c) nonce sequence: every "
            "record i of files with m chunks (chunk hooks, key files, password files) opens under counter i and under no "
            "other counter in 0..m+1 (also i+256, i+2^32). non-trivial = every case; distinct = distinct driver lines / runs")
    assumptions = ["hook-idle runs are a statistical observation of getrandom-backed output (distinctness of 32-byte values), not a proof of entropy",
                   "the random-stream hook replaces only the body of secure_random(); with the hook idle the code path is the production one",
                   "payload keys of library/CLI outputs are recovered with the implementation's own noise_decrypt"]
    trusted_extra = ["harness/clidrv (CLI compiled from the working tree) and its KESTREL_VERIF_RANDOM stream"]

    def run(self, ctx):
        self.parties = keypairs(ctx, 4)
        self.stream_histories(ctx)
        self.t2_half_injected_short_stream(ctx)
        self.nonce_sequence(ctx)
        self.idle_library(ctx)
        self.cli_checks(ctx)
        self.cli_histories(ctx)
        self.env_independence(ctx)
        self.r6_io_faults(ctx)
        self.r6_argument_combinations(ctx)

    # ---------------------------------------------------------------- (e) I/O faults at every call, whatever the operation then does
    R6_RULE = ("(e) I/O faults with the operation going on: files of >= 3 chunks (chunk hooks at chunk size 1..3, key files and password files "
               "over sources that hand out short pieces) where ONE read / write / flush call — every call index in turn — fails with every "
               "error kind the scripts know (Interrupted, Other, WouldBlock, UnexpectedEof, WriteZero; thorough: also two faults): whatever the "
               "operation returns, every complete record i that reached the sink opens under nonce i and under no other nonce in 0..m+1 (also "
               "i+256) with the file's key (key files: recovered by the recipient; password files: hashlib scrypt), i.e. no (key, nonce) seals two "
               "records and no nonce is skipped; every faulted run is also compared with the model (which returns the error). (f) argument "
               "combinations of key_encrypt: all 8 Some/None combinations of (ephemeral, ephemeral public, payload key), each with the byte-string "
               "arguments made EQUAL pairwise (ephemeral pair = sender pair, = recipient pair, payload key = ephemeral private key, = sender "
               "private key, = recipient public key, sender = recipient), every call made three times with identical inputs on the production "
               "random source: recovered payload keys pairwise distinct unless injected, ephemeral keys pairwise distinct unless BOTH halves "
               "injected, file keys (HKDF of payload key and handshake hash) pairwise distinct unless all three are injected, an uninjected payload "
               "key is never a function of the other arguments (differs from every value seen in another call), and chunk 0 of two files is never "
               "sealed under one (key, nonce) (ct XOR ct' != pt XOR pt') unless all three are injected")
    rule = rule + " " + R6_RULE

    @staticmethod
    def r6_complete_records(F, off):
        out, i = [], off
        while i + 32 <= len(F):
            ln = int.from_bytes(F[i + 12:i + 16], "big")
            if ln > BIG or i + 32 + ln > len(F):
                break
            out.append(F[i:i + 32 + ln])
            i += 32 + ln
        return out

    def r6_io_faults(self, ctx):
        rng = ctx.rng
        full = ctx.thorough()
        KINDS = ["i", "o", "b", "u", "y"]
        (s, spk), (r, rpk), (e, epk) = self.parties[0], self.parties[1], self.parties[2]
        bases = []          # dict(kind, mk(rs, ws, fs) -> Case, caps, nflush, nwrite, key (later), aad, off)
        for cs in ([1, 2, 3] if full else [rng.choice([2, 3])]):
            key, aad = ctx.rbytes(32), rng.choice([b"", PASS_MAGIC])
            for n in ([3 * cs, 3 * cs + 1, 4 * cs] if full else [3 * cs + rng.choice([0, 1])]):
                parts = rng.choice([p for p in all_partitions(n, cs) if len(p) >= 3])
                data = ctx.rbytes(n)
                bases.append({"kind": "chunks", "key": key, "aad": aad, "off": 0, "sizes": sim_reads(n, parts, cs), "cs": cs, "hdrw": 0,
                              "mk": (lambda rs, ws, fs, key=key, aad=aad, cs=cs, data=data:
                                     Case("enc_chunks", key=key, aad=aad, cs=cs, data=data, rs=rs, ws=ws, fs=fs, tags=["io-fault", "chunks"]))})
        for mode in ("key", "pass"):
            for _ in range(2 if full else 1):
                parts = [rng.randrange(1, 4) for _ in range(rng.choice([3, 4]))]
                data = ctx.rbytes(sum(parts))
                if mode == "key":
                    pk = ctx.rbytes(32)
                    bases.append({"kind": "key", "aad": b"", "off": 132, "sizes": list(parts), "cs": BIG, "hdrw": 2,
                                  "mk": (lambda rs, ws, fs, pk=pk, data=data:
                                         Case("key_enc", s=s, spk=spk, r=rpk, e=e, epk=epk, pk=pk, data=data, rs=rs, ws=ws, fs=fs, tags=["io-fault", "key"]))})
                else:
                    pw, salt = b"pw7-faults", ctx.rbytes(32)
                    bases.append({"kind": "pass", "aad": PASS_MAGIC, "off": 36, "sizes": list(parts), "cs": BIG, "hdrw": 2,
                                  "key": hashlib.scrypt(pw, salt=salt, n=32768, r=8, p=1, maxmem=128 * 1024 * 1024, dklen=32),
                                  "mk": (lambda rs, ws, fs, pw=pw, salt=salt, data=data:
                                         Case("pass_enc", pw=pw, salt=salt, data=data, rs=rs, ws=ws, fs=fs, tags=["io-fault", "pass"]))})
        encs = []           # (base, Case, description)
        for b in bases:
            caps = ["c%d" % x for x in b["sizes"]] + ["c%d" % min(b["cs"], 9)]        # one entry per read call (the last one finds the end)
            m = len(b["sizes"])
            hf = 1 if b["hdrw"] else 0                                                  # key / password files: header writes and one header flush first
            sites = [("read", j) for j in range(len(caps))] + [("flush", j) for j in range(m + hf)] + [("write", j) for j in range(2 * m + b["hdrw"])]
            plans = [(site, k) for site in sites for k in KINDS]
            if b["kind"] != "chunks" and not full:
                # the file modes share encrypt_chunks with the hook: every site once, kinds in rotation
                plans = [(site, KINDS[(i + rng.randrange(5)) % 5]) for i, site in enumerate(sites)]
            b["clean"] = b["mk"](script_of(b["sizes"]), "-", "-")
            encs.append((b, b["clean"], "no fault"))
            for (site, j), k in plans:
                rs, ws, fs = script_of(b["sizes"]), "-", "-"
                if site == "read":
                    rs = ",".join(caps[:j] + [k] + caps[j:])
                elif site == "flush":
                    fs = ",".join(["k"] * j + [k])
                else:
                    ws = ",".join(["c999"] * j + [k])
                encs.append((b, b["mk"](rs, ws, fs), "%s call #%d fails with %s" % (site, j + 1, {"i": "Interrupted", "o": "Other", "b": "WouldBlock", "u": "UnexpectedEof", "y": "WriteZero"}[k])))
            if full:
                for _ in range(12):
                    (s1, j1), (s2, j2) = rng.sample(sites, 2)
                    rs_l, ws_l, fs_l = list(caps), [], []
                    for (st, j) in sorted([(s1, j1), (s2, j2)], key=lambda x: -x[1]):
                        k = rng.choice(KINDS)
                        if st == "read":
                            rs_l = rs_l[:j] + [k] + rs_l[j:]
                        elif st == "flush":
                            fs_l = (fs_l + ["k"] * (j + 1 - len(fs_l)))
                            fs_l[j] = k
                        else:
                            ws_l = (ws_l + ["c999"] * (j + 1 - len(ws_l)))
                            ws_l[j] = k
                    encs.append((b, b["mk"](",".join(rs_l), ",".join(ws_l) or "-", ",".join(fs_l) or "-"), "two faults: %s #%d, %s #%d" % (s1, j1 + 1, s2, j2 + 1)))
        hook_runs = [c for b, c, _ in encs if b["kind"] == "chunks"]
        file_runs = [c for b, c, _ in encs if b["kind"] != "chunks"]
        modelled = file_runs if full else [c for b in bases if b["kind"] != "chunks" for c in [b["clean"]]] + rng.sample(file_runs, min(8, len(file_runs)))
        self.run_cases(ctx, hook_runs + [c for c in file_runs if any(c is x for x in modelled)], model=True)
        self.run_cases(ctx, [c for c in file_runs if not any(c is x for x in modelled)], model=False)
        # the key of the key-mode files: what the recipient recovers from the fault-free file's handshake
        for b in bases:
            if b["kind"] == "key":
                F = b["clean"].result["out"]
                nd = drv(ctx.bin, ["noise_dec %s %s %s %s" % (hexs(r), hexs(rpk), hexs(PROLOGUE), hexs(F[4:132]))])[0] if len(F) >= 132 else {"outcome": "short"}
                if self.check(ctx, nd["outcome"] == "ok", {"driver": "libdrv", "lines": [b["clean"].rust_line().split(" ", 1)[1]]},
                              "the recipient recovers the payload key of the fault-free file", nd.get("raw", "")[:200]):
                    b["key"] = unhex(drv(ctx.bin, ["hkdf - %s %s 32" % (nd["out"], nd["hh"])])[0]["out"])
        probes, owners = {}, []
        for b, c, what in encs:
            line = c.rust_line().split(" ", 1)[1]
            inp = {"driver": "libdrv", "lines": [line], "fault": what}
            self.count(ctx, "io-fault:%s/%s" % (b["kind"], what.split(" call")[0] if "call" in what else what.split(":")[0]))
            self.count(ctx, "io-fault-outcome:%s" % c.result["outcome"])
            if c is b["clean"]:
                self.check(ctx, c.result["code"] == 0 and len(self.r6_complete_records(c.result["out"], b["off"])) == len(b["sizes"]), inp,
                           "without a fault the file has %d records" % len(b["sizes"]), c.result["raw"][:200])
            if "key" not in b:
                continue
            F = c.result["out"]
            if c.result["code"] == 0 or len(F) >= b["off"] + 32:
                if b["kind"] != "chunks" and F[:b["off"]] != b["clean"].result["out"][:b["off"]]:
                    self.check(ctx, False, inp, "with everything injected the header is the fault-free file's header", F[:b["off"]].hex())
                    continue
            recs = self.r6_complete_records(F, b["off"])
            m = len(recs)
            for ri, rec in enumerate(recs):
                for j in list(range(0, m + 2)) + [ri + 256]:
                    kk = (b["key"], j, b["aad"] + rec[8:16], rec[16:])
                    if kk not in probes:
                        probes[kk] = Case("nopen", key=b["key"], n=j, ad=b["aad"] + rec[8:16], x=rec[16:], tags=["io-fault-nonce", "own" if j == ri else "other"])
                    owners.append((inp, c, ri, j, m, probes[kk]))
        self.run_cases(ctx, list(probes.values()), model=True)
        n_bad = 0
        for inp, c, ri, j, m, pc in owners:
            res = pc.result
            ok = (res["code"] == 0) if j == ri else (res["code"] == 51)
            if not ok:
                n_bad += 1
                if n_bad > 6:
                    ctx.oracle_checks += 1
                    self.count(ctx, "further-nonce-violations-not-reported")
                    continue
            self.check(ctx, ok, inp,
                       ("record %d of the output opens under nonce %d" % (ri, ri)) if j == ri else
                       ("record %d of the output does not open under nonce %d (chunk i is sealed under nonce i only: no nonce skipped, none used twice)" % (ri, j)),
                       "operation returned %s with %d complete record(s) in the sink; record %d under nonce %d: %s" % (c.result["outcome"], m, ri, j, res["outcome"]))
        self.sample(ctx, {"gen": "io-fault", "faulted_runs": len(encs), "nonce_probes": len(owners), "distinct_probes": len(probes)})

    # ---------------------------------------------------------------- (f) Some/None combinations and coinciding arguments, repeated
    def r6_argument_combinations(self, ctx):
        rng = ctx.rng
        full = ctx.thorough()
        REP = 3
        (s, spk), (r, rpk), (e, epk), (s2, spk2) = self.parties
        o_ = lambda b: "none" if b is None else hexs(b)
        L = 24
        # (label, sender pair, recipient pair, ephemeral pair, payload key)
        pk0 = ctx.rbytes(32)
        coinc = [("all different", (s, spk), (r, rpk), (e, epk), pk0),
                 ("ephemeral pair = sender pair", (s, spk), (r, rpk), (s, spk), pk0),
                 ("ephemeral pair = recipient pair", (s, spk), (r, rpk), (r, rpk), pk0),
                 ("payload key = ephemeral private key", (s, spk), (r, rpk), (e, epk), e),
                 ("payload key = ephemeral public key", (s, spk), (r, rpk), (e, epk), epk),
                 ("payload key = sender private key", (s, spk), (r, rpk), (e, epk), s),
                 ("payload key = sender public key", (s, spk), (r, rpk), (e, epk), spk),
                 ("payload key = recipient public key", (s, spk), (r, rpk), (e, epk), rpk),
                 ("sender = recipient", (s, spk), (s, spk), (e, epk), pk0),
                 ("sender = recipient = ephemeral pair", (s2, spk2), (s2, spk2), (s2, spk2), pk0),
                 ("payload key = ephemeral private key = sender private key", (s, spk), (r, rpk), (s, spk), s)]
        if not full:
            coinc = coinc[:1] + rng.sample(coinc[1:], 5)
        calls = []
        for label, (a, apk), (b_, bpk), (ee, eepk), pk in coinc:
            for mask in range(8):
                ge, gepk, gpk = bool(mask & 1), bool(mask & 2), bool(mask & 4)
                pts = [ctx.rbytes(L) for _ in range(REP)]
                for k in range(REP):
                    calls.append({"label": label, "mask": mask, "a": a, "apk": apk, "b": b_, "bpk": bpk, "e": ee if ge else None, "epk": eepk if gepk else None,
                                  "pk": pk if gpk else None, "pt": pts[k], "grp": (label, mask),
                                  "args": set([a, apk, bpk, ee, eepk, pk])})
        bodies = ["setrand none"] + ["key_enc %s %s %s %s %s %s %s - - -" % (hexs(c["a"]), hexs(c["apk"]), hexs(c["bpk"]), o_(c["e"]), o_(c["epk"]), o_(c["pk"]), hexs(c["pt"]))
                                     for c in calls]
        res = drv(ctx.bin, bodies)[1:]
        q = []
        for c, rr in zip(calls, res):
            c["line"] = bodies[1 + len(q)]
            c["F"] = unhex(rr.get("out", "-")) if rr.get("outcome") == "ok" else b""
            c["raw"] = rr["raw"]
            q.append("noise_dec %s %s %s %s" % (hexs(c["b"]), hexs(c["bpk"]), hexs(PROLOGUE), hexs(c["F"][4:132] if len(c["F"]) >= 132 else b"\0" * 128)))
        nd = drv(ctx.bin, q)
        fk = drv(ctx.bin, ["hkdf - %s %s 32" % (x.get("out", "-"), x.get("hh", "-")) if x["outcome"] == "ok" else "sha256 -" for x in nd])
        groups = collections.defaultdict(list)
        for c, x, y in zip(calls, nd, fk):
            inp = {"driver": "libdrv", "lines": ["setrand none", c["line"]], "repeat": REP, "arguments": c["label"],
                   "given": {"ephemeral": c["e"] is not None, "ephemeral_public": c["epk"] is not None, "payload_key": c["pk"] is not None}}
            c["inp"] = inp
            self.ran(ctx, "argument-combination/%s" % c["label"])
            if not self.check(ctx, len(c["F"]) == 132 + 32 + L and x["outcome"] == "ok", inp, "encryption succeeds and the recipient opens the handshake", c["raw"][:200] + " / " + x["raw"][:120]):
                continue
            c["eph"], c["pkey"], c["fkey"] = c["F"][4:36], unhex(x["out"]), unhex(y["out"])
            both = c["e"] is not None and c["epk"] is not None
            if c["pk"] is not None:
                self.check(ctx, c["pkey"] == c["pk"], inp, "the injected payload key is used", c["pkey"].hex())
            else:
                self.check(ctx, c["pkey"] not in c["args"], inp, "an uninjected payload key is none of the arguments", c["pkey"].hex())
            if both:
                self.check(ctx, c["eph"] == c["epk"], inp, "the injected ephemeral pair is used", c["eph"].hex())
            else:
                self.check(ctx, c["eph"] not in c["args"], inp, "an uninjected ephemeral key is none of the arguments", c["eph"].hex())
            groups[c["grp"]].append(c)
        seen_p, seen_e = {}, {}
        for (label, mask), g in groups.items():
            c0 = g[0]
            both = c0["e"] is not None and c0["epk"] is not None
            inp = dict(c0["inp"], lines=["setrand none"] + [c["line"] for c in g])
            if c0["pk"] is None:
                self.check(ctx, len(set(c["pkey"] for c in g)) == len(g), inp, "%d calls with identical key arguments and no payload key given: payload keys pairwise distinct" % len(g),
                           [c["pkey"].hex() for c in g])
                for c in g:
                    prev = seen_p.get(c["pkey"])
                    self.check(ctx, prev is None or prev == c0["grp"], dict(inp, other_group=str(prev)), "a payload key drawn by the library never occurs in a call with other arguments", c["pkey"].hex())
                    seen_p[c["pkey"]] = c0["grp"]
            if not both:
                self.check(ctx, len(set(c["eph"] for c in g)) == len(g), inp, "%d calls without a complete injected ephemeral pair: ephemeral keys pairwise distinct" % len(g),
                           [c["eph"].hex() for c in g])
                for c in g:
                    prev = seen_e.get(c["eph"])
                    self.check(ctx, prev is None or prev == c0["grp"], dict(inp, other_group=str(prev)), "an ephemeral key drawn by the library never occurs in a call with other arguments", c["eph"].hex())
                    seen_e[c["eph"]] = c0["grp"]
            if not (both and c0["pk"] is not None):
                self.check(ctx, len(set(c["fkey"] for c in g)) == len(g), inp, "file keys pairwise distinct unless ephemeral pair AND payload key are injected",
                           [c["fkey"].hex() for c in g])
                for i in range(len(g)):
                    for j in range(i + 1, len(g)):
                        A, B = g[i], g[j]
                        ca, cb = A["F"][148:148 + L], B["F"][148:148 + L]
                        same = bytes(x ^ y for x, y in zip(ca, cb)) == bytes(x ^ y for x, y in zip(A["pt"], B["pt"]))
                        self.check(ctx, not same, inp, "chunk 0 of two files is not sealed under one (key, nonce): ct XOR ct' != pt XOR pt'",
                                   "calls %d and %d: ct XOR ct' == pt XOR pt' (same key stream under nonce 0)" % (i, j))
        self.sample(ctx, {"gen": "argument-combination", "calls": len(calls), "coincidences": [c[0] for c in coinc]})

    # ---------------------------------------------------------------- (d) CLI histories over a shared file system
    HIST_RULE = ("(d) CLI histories: sequences of 3..6 real CLI runs (password encrypt, encrypt, key generate) that write to ONE output "
                 "path, so that every run after the first finds an EARLIER output (same or different password, other mode, a file that "
                 "arrived through standard output, a bare 36-byte header, foreign bytes that start with a kestrel magic, an empty file) "
                 "where it is about to write; after every step the file is read back: salts, ephemeral keys, recovered payload keys, "
                 "generated public keys and locked-key salts of ALL steps of ALL histories (and of what was on disk before) pairwise "
                 "distinct; two password files made with the same password never have chunk 0 sealed under one (key, nonce) "
                 "(ct XOR ct' = pt XOR pt'); steps run with KESTREL_VERIF_RANDOM must use exactly the stream's bytes whatever the "
                 "output path held before")
    rule = rule + " " + HIST_RULE

    def cli_histories(self, ctx):
        rng = ctx.rng
        full = ctx.thorough()
        wd = tempfile.mkdtemp(prefix="kv_c07h_", dir="/tmp")
        try:
            (s, spk), (r, rpk) = self.parties[0], self.parties[1]
            pw_s = "history sender pw"
            kr_text, _ = make_keyring([("hist-sender", s, spk, pw_s.encode(), ctx.rbytes(32)), ("hist-recipient", r, rpk, b"rcpt", ctx.rbytes(32))])
            kr = os.path.join(wd, "keyring.txt")
            open(kr, "w").write(kr_text)
            L = rng.choice([48, 64, 200])            # one plaintext length everywhere: chunk 0 of any two files can be compared
            pts = [ctx.rbytes(L) for _ in range(4)]
            ptf = []
            for k, P in enumerate(pts):
                ptf.append(os.path.join(wd, "plain_%d.bin" % k))
                open(ptf[k], "wb").write(P)
            PWS = ["history pw A", "another pw B"]
            genpw = "hist gen pw"

            def P_(pw, pt, dest="o", stream=False):
                return {"k": "pass", "pw": pw, "pt": pt, "dest": dest, "stream": ctx.rbytes(32 + rng.choice([0, 9])) if stream else None}

            def K_(pt, dest="o", stream=False, self_=False):
                return {"k": "key", "pt": pt, "dest": dest, "stream": ctx.rbytes(64 + rng.choice([0, 9])) if stream else None, "self": self_}

            def G_(stream=False):
                return {"k": "gen", "stream": ctx.rbytes(64) if stream else None}

            def S_(what):
                return {"k": "seed", "what": what, "bytes": ctx.rbytes(32), "junk": ctx.rbytes(L + 32)}
            hists = [
                [P_(0, 0), P_(0, 1), P_(1, 2), P_(0, 0), P_(0, 0, stream=True)],                # one archive refreshed again and again
                [K_(0), P_(0, 1), K_(1), K_(1), P_(0, 1), K_(2, stream=True)],                  # key mode and password mode taking turns
                [G_(), G_(), G_(stream=True), G_()],                                            # key generate appends to one keyring file
                [S_("pass-header+junk"), P_(0, 0), S_("header-of-previous"), P_(0, 1), S_("key-header+junk"), K_(0), S_("empty"), P_(1, 0)],
                [P_(0, 0, dest="stdout"), P_(0, 1), K_(0, dest="stdout"), K_(1), P_(1, 2, dest="stdout"), P_(1, 3)],
                [P_(0, 0), P_(0, 1, stream=True), P_(1, 1, stream=True), K_(0, stream=True)],
                # self-addressed (--to and --from name the same key): the same invocation three times, another plaintext, a two-party file in between
                [K_(0, self_=True), K_(0, self_=True), K_(0, self_=True), K_(1, self_=True), K_(0), K_(0, self_=True), K_(2, self_=True, stream=True)],
                [K_(1, dest="stdout", self_=True), K_(1, self_=True), P_(0, 1), K_(1, dest="stdout", self_=True), K_(3, self_=True)],
            ]
            for _ in range(12 if full else 3):
                h = []
                for _ in range(rng.randrange(3, 7)):
                    c = rng.randrange(10)
                    if c < 5:
                        h.append(P_(rng.randrange(2), rng.randrange(4), dest=rng.choice(["o", "o", "stdout"]), stream=rng.random() < 0.2))
                    elif c < 7:
                        h.append(K_(rng.randrange(4), dest=rng.choice(["o", "o", "stdout"]), stream=rng.random() < 0.2, self_=rng.random() < 0.4))
                    elif c < 8:
                        h.append(G_())
                    else:
                        h.append(S_(rng.choice(["pass-header+junk", "header-of-previous", "key-header+junk", "empty", "previous-truncated"])))
                hists.append(h)

            def run_hist(hi):
                path = os.path.join(wd, "out_%d.ktl" % hi)
                log = []
                for st in hists[hi]:
                    before = open(path, "rb").read() if os.path.exists(path) else None
                    ent = {"step": st, "before": before, "rc": 0, "stderr": "", "argv": None, "env": None}
                    if st["k"] == "seed":
                        prev = before or b""
                        data = {"pass-header+junk": PASS_MAGIC + st["bytes"] + st["junk"], "key-header+junk": PROLOGUE + st["bytes"] + st["junk"],
                                "header-of-previous": prev[:36], "previous-truncated": prev[:len(prev) // 2], "empty": b""}[st["what"]]
                        open(path, "wb").write(data)
                        ent["after"] = data
                        log.append(ent)
                        continue
                    env, stdin = {}, None
                    if st["k"] == "pass":
                        args = ["password", "encrypt", ptf[st["pt"]], "--env-pass"]
                        env["KESTREL_PASSWORD"] = PWS[st["pw"]]
                    elif st["k"] == "key":
                        args = ["encrypt", ptf[st["pt"]], "-t", "hist-sender" if st.get("self") else "hist-recipient", "-f", "hist-sender", "-k", kr, "--env-pass"]
                        env["KESTREL_PASSWORD"] = pw_s
                    else:
                        args = ["key", "generate", "--env-pass"]
                        env["KESTREL_PASSWORD"] = genpw
                        stdin = b"hist-key\n"
                    to_stdout = st.get("dest") == "stdout"
                    if not to_stdout:
                        args += ["-o", path]
                    if st["stream"] is not None:
                        env["KESTREL_VERIF_RANDOM"] = st["stream"].hex()
                    rc, so, se = cli(args, env, stdin=stdin)
                    if to_stdout and rc == 0:
                        open(path, "wb").write(so)       # the earlier encryption reaches the path by redirection
                    ent.update(rc=rc, stderr=se, argv=args, env=env)
                    ent["after"] = open(path, "rb").read() if os.path.exists(path) else None
                    log.append(ent)
                return log
            with ThreadPoolExecutor(max_workers=vlib.NPROC) as ex:
                logs = list(ex.map(run_hist, range(len(hists))))
            self.history_oracles(ctx, hists, logs, s, spk, r, rpk, pts, PWS, genpw)
        finally:
            shutil.rmtree(wd, ignore_errors=True)

    @staticmethod
    def describe_before(b):
        if b is None:
            return "no file"
        kind = {bytes(PASS_MAGIC): "password file", bytes(PROLOGUE): "key-encrypted file"}.get(bytes(b[:4]), "[Key] text" if b[:5] == b"[Key]" else "other bytes")
        return "%d bytes, %s, first 40: %s" % (len(b), kind, b[:40].hex())

    def history_oracles(self, ctx, hists, logs, s, spk, r, rpk, pts, PWS, genpw):
        salts, ephs, hs_msgs, gen_pubs, gen_salts = [], [], [], [], []        # (value, history, step)
        passfiles = []
        lib, lib_meta = [], []
        for hi, log in enumerate(logs):
            script = []
            for si, ent in enumerate(log):
                st = ent["step"]
                if st["k"] == "seed":
                    script.append({"harness_writes": st["what"], "bytes": (ent["after"] or b"")[:80].hex()})
                    if st["what"] in ("pass-header+junk",) and len(ent["after"]) >= 36:
                        salts.append((ent["after"][4:36], hi, si, "on-disk"))
                    continue
                script.append({"argv": ent["argv"], "env": ent["env"], "output_path_held_before": self.describe_before(ent["before"]),
                               "stdin": "hist-key\\n" if st["k"] == "gen" else ""})
                inp = {"driver": "cli-history", "history": hi, "failing_step": si, "steps": list(script),
                       "files": "plain_k.bin: %d random bytes each; keyring: hist-sender / hist-recipient" % len(pts[0]),
                       "note": "the steps run in this order in one directory; standard-output results are written to the -o path of the later steps"}
                ent["inp"] = inp
                self.ran(ctx, "cli-history/%s%s%s" % (st["k"] + ("/self-addressed" if st.get("self") else ""), "/stream" if st["stream"] is not None else "",
                                                       "/over-" + self.describe_before(ent["before"]).split(", ")[1] if ent["before"] is not None else "/new-path"))
                F = ent["after"]
                if not self.check(ctx, ent["rc"] == 0 and F is not None, inp, "the CLI run succeeds and leaves the output", "rc=%d %s" % (ent["rc"], ent["stderr"][-200:])):
                    continue
                if st["k"] == "pass":
                    if not self.check(ctx, len(F) == 36 + 32 + len(pts[0]) and F[:4] == PASS_MAGIC, inp, "a password file of %d bytes" % (68 + len(pts[0])), "%d bytes %s" % (len(F), F[:4].hex())):
                        continue
                    salts.append((F[4:36], hi, si, "output"))
                    passfiles.append((F, st["pw"], pts[st["pt"]], hi, si, inp))
                    if st["stream"] is not None:
                        lib.append("pass_enc %s %s %s - - -" % (hexs(PWS[st["pw"]].encode()), hexs(st["stream"][0:32]), hexs(pts[st["pt"]])))
                        lib_meta.append((F, inp, "CLI output = library pass_encrypt with salt = stream[0:32] = %s, whatever the output path held before" % st["stream"][0:32].hex()))
                elif st["k"] == "key":
                    if not self.check(ctx, len(F) == 132 + 32 + len(pts[0]) and F[:4] == PROLOGUE, inp, "a key-encrypted file of %d bytes" % (164 + len(pts[0])), "%d bytes %s" % (len(F), F[:4].hex())):
                        continue
                    ephs.append((F[4:36], hi, si, "output"))
                    to_sk, to_pk = (s, spk) if st.get("self") else (r, rpk)
                    hs_msgs.append((F[4:132], hi, si, inp, to_sk, to_pk))
                    self.check(ctx, F[4:36] not in (spk, rpk), inp, "file bytes 4..36 are a fresh ephemeral public key, never a public key of the keyring",
                               "bytes 4..36 = %s = the %s's long-term public key" % (F[4:36].hex(), "sender" if F[4:36] == spk else "recipient"))
                    if st["stream"] is not None:
                        lib.append(("key", st["stream"], pts[st["pt"]], to_pk))
                        lib_meta.append((F, inp, "CLI output = library key_encrypt with payload key = stream[0:32], ephemeral = stream[32:64], whatever the output path held before"))
                else:
                    text = F.decode("utf-8", "replace")
                    pubs = re.findall(r"PublicKey = (\S+)", text)
                    sks = re.findall(r"PrivateKey = (\S+)", text)
                    n_before = len(re.findall(r"PublicKey = ", (ent["before"] or b"").decode("utf-8", "replace")))
                    if not self.check(ctx, len(pubs) == n_before + 1 and len(sks) == n_before + 1, inp, "one key is appended to the %d in the file" % n_before, "%d public / %d private keys" % (len(pubs), len(sks))):
                        continue
                    try:
                        gen_pubs.append((base64.b64decode(pubs[-1])[:32], hi, si, "output"))
                        gen_salts.append((base64.b64decode(sks[-1])[4:36], hi, si, "output"))
                    except Exception:
                        self.check(ctx, False, inp, "the appended key is base64", pubs[-1] + " " + sks[-1])
                    if st["stream"] is not None:
                        ent["gen_stream"] = (pubs[-1], sks[-1])
        # deterministic stream: the bytes used are the stream's, not something found at the output path
        xp = drv(ctx.bin, ["xpub %s" % hexs(x[1][32:64]) for x in lib if isinstance(x, tuple)])
        k = 0
        lines = []
        for x in lib:
            if isinstance(x, tuple):
                epk = unhex(xp[k].get("out", "-"))
                k += 1
                lines.append("key_enc %s %s %s %s %s %s %s - - -" % (hexs(s), hexs(spk), hexs(x[3]), hexs(x[1][32:64]), hexs(epk), hexs(x[1][0:32]), hexs(x[2])))
            else:
                lines.append(x)
        for (F, inp, what), lr in zip(lib_meta, drv(ctx.bin, lines) if lines else []):
            want = unhex(lr.get("out", "-"))
            self.check(ctx, F == want, inp, what, "first difference at byte %s; bytes 4..36 = %s" % (
                next((i for i, (a, b) in enumerate(zip(F, want)) if a != b), None), F[4:36].hex()))
        for log in logs:
            for ent in log:
                if "gen_stream" in ent:
                    st = ent["step"]["stream"]
                    pk = unhex(drv(ctx.bin, ["xpub %s" % hexs(st[0:32])])[0].get("out", "-"))
                    lk = clidrv_ops(["sk_lock %s %s %s" % (hexs(st[0:32]), hexs(genpw.encode()), hexs(st[32:64]))])[0]
                    want = (encode_pk(pk), unhex(lk.get("out", "-")).decode())
                    self.check(ctx, ent["gen_stream"] == want, ent["inp"], "appended key: private key = stream[0:32], locked with salt = stream[32:64]: %s %s" % want,
                               "%s %s" % ent["gen_stream"])
        # recovered payload keys
        nd = drv(ctx.bin, ["noise_dec %s %s %s %s" % (hexs(m[4]), hexs(m[5]), hexs(PROLOGUE), hexs(m[0])) for m in hs_msgs])
        pkeys = []
        for m, x in zip(hs_msgs, nd):
            if self.check(ctx, x["outcome"] == "ok", m[3], "the recipient recovers the payload key from the handshake", x["raw"][:200]):
                pkeys.append((unhex(x.get("out", "-")), m[1], m[2], "output"))

        # same password, two files: chunk 0 (nonce 0) must not be sealed under one key
        n_xor = 0
        for a in range(len(passfiles)):
            for b in range(a + 1, len(passfiles)):
                Fa, pa, Pa, ha, sa, _ = passfiles[a]
                Fb, pb, Pb, hb, sb, inpb = passfiles[b]
                if pa != pb:
                    continue
                ca, cb = Fa[52:52 + len(Pa)], Fb[52:52 + len(Pb)]
                same_stream = bytes(x ^ y for x, y in zip(ca, cb)) == bytes(x ^ y for x, y in zip(Pa, Pb))
                n_xor += same_stream
                if same_stream and n_xor > 3:
                    self.count(ctx, "further-key-nonce-reuses-not-reported")
                    continue
                self.check(ctx, not same_stream, dict(inpb, compared_with={"history": ha, "step": sa}),
                           "two password files made with the same password are not sealed under one (key, nonce): ct XOR ct' != pt XOR pt' for chunk 0",
                           "chunk 0 of step %d of history %d and of step %d of history %d: ct XOR ct' == pt XOR pt' (same key stream); tags %s"
                           % (sa, ha, sb, hb, "equal" if Fa[52 + len(Pa):] == Fb[52 + len(Pb):] else "differ"))

        def distinct(vals, what, cross_kind_only=False):
            seen, reported = {}, 0
            for v, hi, si, origin in vals:
                kind = None
                if cross_kind_only:
                    v, kind = v
                if v in seen:
                    hj, sj, oj, kj = seen[v]
                    if cross_kind_only and kj == kind:
                        continue                      # reported by the per-kind pass
                    reported += 1
                    if reported > 3:
                        self.count(ctx, "further-repeated-values-not-reported")
                        continue
                    inp = logs[hi][si].get("inp") or {"driver": "cli-history", "history": hi, "step": si}
                    self.check(ctx, False, inp, "no two outputs share %s (across all steps of all histories, and what was on disk before)" % what,
                               "step %d of history %d has the same %s as %s step %d of history %d: %s" % (si, hi, what, oj, sj, hj, v.hex()))
                else:
                    seen[v] = (hi, si, origin, kind)
            self.check(ctx, True, None, None, None)
            return len(seen)
        kinds = [(salts, "a password-file salt"), (ephs, "an ephemeral key"), (pkeys, "a payload key"), (gen_pubs, "a generated key"),
                 (gen_salts, "a locked-key salt")]
        n_vals = sum(distinct(vs, what) for vs, what in kinds)
        distinct([((v, what), hi, si, o) for vs, what in kinds for (v, hi, si, o) in vs], "a random value (one used as %s, the other as something else)" % "/".join(w.split(" ", 1)[1] for _, w in kinds),
                 cross_kind_only=True)
        self.count(ctx, "history-random-values", n_vals)
        self.sample(ctx, {"gen": "cli-history", "histories": len(hists), "steps": sum(len(h) for h in hists), "distinct_values": n_vals})

    # ---------------------------------------------------------------- (a)
    def gen_op(self, ctx):
        rng = ctx.rng
        (s, spk), (r, rpk) = rng.sample(self.parties, 2)
        k = rng.random()
        op = {"s": s, "spk": spk, "r": r, "rpk": rpk, "e": None, "epk": None, "pk": None}
        if k < 0.18:
            op["kind"] = "noise_enc"
            op["prologue"] = rng.choice([PROLOGUE, b"", b"xyz"])
            op["payload"] = ctx.rbytes(32)
        else:
            op["kind"] = "key_enc"
            op["data"] = ctx.rbytes(rng.choice([0, 1, 5, 17, 40]))
            n = len(op["data"])
            op["rs"] = script_of(rng.choice(all_partitions(n, 3))) if 0 < n <= 5 and rng.random() < 0.5 else "-"
            if 0.18 <= k < 0.30:
                op["pk"] = ctx.rbytes(32)
        if rng.random() < 0.22:
            op["e"] = ctx.rbytes(32)
            if rng.random() < 0.7:
                op["epk"] = "derive"
        return op

    def stream_histories(self, ctx):
        rng = ctx.rng
        reps = 8 if ctx.thorough() else 2
        hists = []
        for n in range(1, 7):
            for _ in range(reps):
                hists.append([self.gen_op(ctx) for _ in range(n)])
        # injected ephemeral public keys must match the private key: derive them first
        need = [o for h in hists for o in h if o["epk"] == "derive"]
        for o, x in zip(need, drv(ctx.bin, ["xpub %s" % hexs(o["e"]) for o in need])):
            o["epk"] = unhex(x["out"])
        o_ = lambda b: "none" if b is None else hexs(b)
        bodies, index = [], []
        for hi, h in enumerate(hists):
            needs = []
            for o in h:
                d_pk = o["kind"] == "key_enc" and o["pk"] is None
                d_e = not (o["e"] is not None and o["epk"] is not None)
                needs.append((32 if d_pk else 0) + (32 if d_e else 0))
                o["draw_pk"], o["draw_e"] = d_pk, d_e
            stream = ctx.rbytes(sum(needs) + rng.choice([0, 0, 1, 31, 32, 45]))
            for o in h:
                o["stream"] = stream
            bodies.append("setrand %s" % (hexs(stream) if stream else "empty"))
            index.append(("set", hi, None))
            for oi, o in enumerate(h):
                if o["kind"] == "key_enc":
                    bodies.append("key_enc %s %s %s %s %s %s %s %s - -" % (hexs(o["s"]), hexs(o["spk"]), hexs(o["rpk"]), o_(o["e"]),
                                                                        o_(o["epk"]), o_(o["pk"]), hexs(o["data"]), o["rs"]))
                else:
                    bodies.append("noise_enc %s %s %s %s %s %s %s" % (hexs(o["s"]), hexs(o["spk"]), hexs(o["rpk"]), o_(o["e"]),
                                                                   o_(o["epk"]), hexs(o["prologue"]), hexs(o["payload"])))
                index.append(("op", hi, oi))
                bodies.append("randleft")
                index.append(("left", hi, oi))
        bodies.append("setrand none")
        index.append(("end", None, None))
        res = drv(ctx.bin, bodies)
        hist_lines = collections.defaultdict(list)
        for b, (k, hi, oi), rr in zip(bodies, index, res):
            if hi is not None:
                hist_lines[hi].append(b)
            if k == "op":
                hists[hi][oi]["res"] = rr
            elif k == "left":
                hists[hi][oi]["left"] = rr.get("n")
        # second pass: what the stream blocks should have become (the implementation's own X25519 / recipient side)
        q = []
        for hi, h in enumerate(hists):
            off = 0
            for o in h:
                o["fresh_pk"] = o["stream"][off:off + 32] if o["draw_pk"] else None
                off += 32 if o["draw_pk"] else 0
                o["fresh_e"] = o["stream"][off:off + 32] if o["draw_e"] else None
                off += 32 if o["draw_e"] else 0
                o["exp_left"] = len(o["stream"]) - off
                r = obs_of(o["kind"], o["res"])
                o["obs"] = r
                o["q"] = []
                if o["draw_e"]:
                    o["q"].append(len(q))
                    q.append("xpub %s" % hexs(o["fresh_e"]))
                if o["kind"] == "key_enc" and r["code"] == 0 and len(r["out"]) >= 132:
                    o["q"].append(len(q))
                    q.append("noise_dec %s %s %s %s" % (hexs(o["r"]), hexs(o["rpk"]), hexs(PROLOGUE), hexs(r["out"][4:132])))
                    o["q"].append(len(q))
                    q.append("key_dec %s %s %s - - -" % (hexs(o["r"]), hexs(o["rpk"]), hexs(r["out"])))
        qres = drv(ctx.bin, q)
        items, shows, inputs, impls = [], {}, {}, {}
        for hi, h in enumerate(hists):
            inp = {"driver": "libdrv", "oracle": "stream", "lines": hist_lines[hi] + ["setrand none"]}
            self.ran(ctx, "stream-history/len=%d" % len(h))
            for oi, o in enumerate(h):
                r = o["obs"]
                self.count(ctx, "stream-op:%s%s%s" % (o["kind"], "+fresh_e" if o["draw_e"] else "", "+fresh_pk" if o["draw_pk"] else ""))
                where = "history %d op %d (%s)" % (hi, oi, o["kind"])
                self.check(ctx, r["code"] == 0, inp, where + ": operation succeeds", o["res"]["raw"][:300])
                self.check(ctx, o["left"] == str(o["exp_left"]), inp,
                           where + ": exactly %d stream bytes consumed so far, %d left" % (len(o["stream"]) - o["exp_left"], o["exp_left"]),
                           "randleft n=%s" % o["left"])
                if r["code"] != 0:
                    continue
                qi = list(o["q"])
                eoff = 4 if o["kind"] == "key_enc" else 0
                if o["draw_e"]:
                    want = unhex(qres[qi.pop(0)].get("out", "-"))
                    self.check(ctx, r["out"][eoff:eoff + 32] == want, inp,
                               where + ": ephemeral public key is the public key of the stream's next block " + want.hex(),
                               r["out"][eoff:eoff + 32].hex())
                else:
                    self.check(ctx, r["out"][eoff:eoff + 32] == o["epk"], inp, where + ": injected ephemeral key is used",
                               r["out"][eoff:eoff + 32].hex())
                if o["kind"] == "key_enc" and qi:
                    nd, kd = qres[qi[0]], obs_of("key_dec", qres[qi[1]])
                    wantpk = o["fresh_pk"] if o["draw_pk"] else o["pk"]
                    self.check(ctx, nd.get("outcome") == "ok" and unhex(nd.get("out", "-")) == wantpk, inp,
                               where + ": payload key recovered by the recipient is " + ("the stream block " if o["draw_pk"] else "the injected key ") + wantpk.hex(),
                               nd["raw"][:200])
                    # (round trip is C01's subject: recorded, not judged here)
                    self.count(ctx, "stream-file-decrypts:%s" % ("yes" if kd["code"] == 0 and kd["out"] == o["data"] and kd["extra"] == o["spk"] else "NO"))
            # model: the whole history on the same stream
            ops, impl = [], []
            for o in h:
                if o["kind"] == "key_enc":
                    ops.append("HKeyEnc %s %s %s %s %s %s %s %s" % (g_bytes(o["s"]), g_bytes(o["spk"]), g_bytes(o["rpk"]), g_opt(o["e"]),
                                                                  g_opt(o["epk"]), g_opt(o["pk"]), g_bytes(o["data"]), g_rscript(o["rs"])))
                else:
                    ops.append("HNoiseEnc %s %s %s %s %s %s %s" % (g_bytes(o["s"]), g_bytes(o["spk"]), g_bytes(o["rpk"]), g_opt(o["e"]),
                                                                 g_opt(o["epk"]), g_bytes(o["prologue"]), g_bytes(o["payload"])))
                left = o["left"] if (o["left"] or "").isdigit() else "999999"
                impl.append("(%s, %s)" % (g_obs(o["obs"]), left))
            mh = "run_hist [] %s [%s]" % (g_bytes(h[0]["stream"]), "; ".join(ops))
            items.append((hi, "chk_hist (%s) [%s]" % (mh, "; ".join(impl)), len(h)))
            shows[hi] = "show_hist (%s)" % mh
            inputs[hi] = inp
            impls[hi] = [o["res"]["raw"][:300] for o in h]
            if hi % 5 == 0:
                self.sample(ctx, {"gen": "stream-history", "ops": [o["kind"] for o in h], "stream_bytes": len(h[0]["stream"]),
                                  "implementation": [o["res"]["outcome"] for o in h], "left": [o["left"] for o in h]})
        res_m, log = coq_eval(ctx.pid + "h", items)
        self.model_results(ctx, "stream-history", items, res_m, log, inputs, impls, shows)

    def recheck_stream(self, inp, rs):
        return all(r["outcome"] == "ok" for r in rs)

    # ---------------------------------------------------------------- (a'): the half-injected ephemeral pair
    def t2_half_injected_short_stream(self, ctx):
        """Audit finding 11.  noise.rs::init_x keeps an injected ephemeral pair only when BOTH halves are given; with
        one half (e = Some, epk = none, or the other way round) the library still draws 32 bytes.  (i) With an installed
        stream that is too short the driver must refuse the case up front with the EXACT need (`outcome=rand_short
        need=32` for noise_enc, 32 / 64 for key_enc with / without an injected payload key) and leave the stream
        untouched; (ii) with exactly enough stream the given half is ignored: the ephemeral public key in the output
        is the public key of the stream block, the stream is used up, and RunMisc.run_hist says the same."""
        rng = ctx.rng
        (s, spk), (r, rpk) = self.parties[0], self.parties[1]
        e = ctx.rbytes(32)
        epk = unhex(drv(ctx.bin, ["xpub %s" % hexs(e)])[0].get("out", "-"))
        o_ = lambda b: "none" if b is None else hexs(b)
        payload, pk, data = ctx.rbytes(32), ctx.rbytes(32), ctx.rbytes(5)

        def line(kind, e_, epk_, pk_):
            if kind == "noise_enc":
                return "noise_enc %s %s %s %s %s %s %s" % (hexs(s), hexs(spk), hexs(rpk), o_(e_), o_(epk_), hexs(PROLOGUE), hexs(payload))
            return "key_enc %s %s %s %s %s %s %s - - -" % (hexs(s), hexs(spk), hexs(rpk), o_(e_), o_(epk_), o_(pk_), hexs(data))
        # (i) short streams: (kind, e, epk, pk, bytes needed)
        shorts = [("noise_enc", e, None, None, 32), ("noise_enc", None, epk, None, 32), ("noise_enc", None, None, None, 32),
                  ("key_enc", e, None, pk, 32), ("key_enc", None, epk, pk, 32), ("key_enc", e, None, None, 64),
                  ("key_enc", e, epk, None, 32), ("key_enc", None, None, None, 64)]
        for kind, e_, epk_, pk_, need in shorts:
            for have in sorted(set([0, 1, 31, need - 1, need - 32 + 31])):
                if have >= need:
                    continue
                stream = ctx.rbytes(have)
                bodies = ["setrand %s" % (hexs(stream) if stream else "empty"), line(kind, e_, epk_, pk_), "randleft",
                          "setrand none", "randleft"]
                rs = drv(ctx.bin, bodies)
                inp = {"driver": "libdrv", "oracle": None, "lines": bodies}
                self.ran(ctx, "half-injected/short-stream")
                self.count(ctx, "short-stream:%s%s%s" % (kind, "+e" if e_ else "", "+epk" if epk_ else ""))
                self.check(ctx, rs[1].get("outcome") == "rand_short" and rs[1].get("need") == str(need) and rs[1].get("have") == str(have),
                           inp, "the case is refused up front: outcome=rand_short need=%d have=%d (the library draws whenever NOT both "
                                "halves of the ephemeral pair are given)" % (need, have), rs[1]["raw"][:200])
                self.check(ctx, rs[2].get("n") == str(have), inp, "the refused case leaves the %d stream bytes untouched" % have, rs[2]["raw"][:100])
                self.check(ctx, rs[4].get("n") == "none", inp, "the driver is alive afterwards and the stream can be removed", rs[4]["raw"][:100])
        # (ii) exactly enough: the given half is ignored, the stream block becomes the ephemeral key
        items, shows, inputs, impls = [], {}, {}, {}
        exact = [("noise_enc", e, None, None), ("noise_enc", None, epk, None), ("key_enc", e, None, pk), ("key_enc", None, epk, None)]
        for i, (kind, e_, epk_, pk_) in enumerate(exact):
            need = 32 + (32 if kind == "key_enc" and pk_ is None else 0)
            stream = ctx.rbytes(need)
            fe = stream[need - 32:]
            bodies = ["setrand %s" % hexs(stream), line(kind, e_, epk_, pk_), "randleft", "setrand none", "xpub %s" % hexs(fe)]
            rs = drv(ctx.bin, bodies)
            inp = {"driver": "libdrv", "oracle": "stream", "lines": bodies[:4]}
            self.ran(ctx, "half-injected/exact-stream")
            ob = obs_of(kind, rs[1])
            off = 4 if kind == "key_enc" else 0
            want = unhex(rs[4].get("out", "-"))
            self.check(ctx, ob["code"] == 0, inp, "the operation succeeds with exactly %d stream bytes" % need, rs[1]["raw"][:200])
            self.check(ctx, rs[2].get("n") == "0", inp, "all %d stream bytes are consumed" % need, rs[2]["raw"][:100])
            self.check(ctx, ob["code"] == 0 and ob["out"][off:off + 32] == want and want != epk, inp,
                       "the ephemeral public key written is the public key of the stream block (%s), not the injected half" % want.hex(),
                       ob["out"][off:off + 32].hex())
            if kind == "key_enc":
                op = "HKeyEnc %s %s %s %s %s %s %s []" % (g_bytes(s), g_bytes(spk), g_bytes(rpk), g_opt(e_), g_opt(epk_), g_opt(pk_), g_bytes(data))
            else:
                op = "HNoiseEnc %s %s %s %s %s %s %s" % (g_bytes(s), g_bytes(spk), g_bytes(rpk), g_opt(e_), g_opt(epk_), g_bytes(PROLOGUE), g_bytes(payload))
            left = rs[2].get("n") if (rs[2].get("n") or "").isdigit() else "999999"
            mh = "run_hist [] %s [%s]" % (g_bytes(stream), op)
            items.append((i, "chk_hist (%s) [(%s, %s)]" % (mh, g_obs(ob), left), 1))
            shows[i] = "show_hist (%s)" % mh
            inputs[i] = inp
            impls[i] = [rs[1]["raw"][:300]]
        res_m, log = coq_eval(ctx.pid + "x", items)
        self.model_results(ctx, "half-injected", items, res_m, log, inputs, impls, shows)

    # ---------------------------------------------------------------- (c)
    def nonce_sequence(self, ctx):
        rng = ctx.rng
        files = []   # (label, key, aad, file records region, plaintext chunks, make-input)
        encs = []
        for cs in ([1, 2, 3, 4, 5] if ctx.thorough() else [2, 3]):
            key, aad = ctx.rbytes(32), rng.choice([b"", PASS_MAGIC])
            for n in range(0, 9 if ctx.thorough() else 7):
                parts = rng.choice(all_partitions(n, cs))
                encs.append(("chunks", Case("enc_chunks", key=key, aad=aad, cs=cs, data=ctx.rbytes(n), rs=script_of(parts)), parts))
        (s, spk), (r, rpk) = self.parties[0], self.parties[1]
        for n in ([0, 1, 4, 6] if not ctx.thorough() else [0, 1, 2, 4, 6, 9]):
            parts = rng.choice(all_partitions(n, 3)) if n else []
            encs.append(("key", Case("key_enc", s=s, spk=spk, r=rpk, data=ctx.rbytes(n), rs=script_of(parts)), parts))
            encs.append(("pass", Case("pass_enc", pw=b"pw7", salt=ctx.rbytes(32), data=ctx.rbytes(n), rs=script_of(parts)), parts))
        bodies = ["setrand none"]
        vlib.run_impl(ctx.bin, [c for _, c, _ in encs])
        # keys of the file modes
        q, qi = [], {}
        for i, (kind, c, parts) in enumerate(encs):
            F = c.result["out"]
            if kind == "key" and c.result["code"] == 0:
                qi[i] = len(q)
                q.append("noise_dec %s %s %s %s" % (hexs(r), hexs(rpk), hexs(PROLOGUE), hexs(F[4:132])))
            elif kind == "pass" and c.result["code"] == 0:
                qi[i] = len(q)
                q.append("scrypt %s %s 32768 8 1 32" % (hexs(c.a["pw"]), hexs(F[4:36])))
        qres = drv(ctx.bin, q)
        q2, q2i = [], {}
        for i, (kind, c, parts) in enumerate(encs):
            if kind == "key" and i in qi and qres[qi[i]]["outcome"] == "ok":
                q2i[i] = len(q2)
                q2.append("hkdf - %s %s 32" % (qres[qi[i]]["out"], qres[qi[i]]["hh"]))
        q2res = drv(ctx.bin, q2)
        cases = []
        for i, (kind, c, parts) in enumerate(encs):
            inp0 = {"driver": "libdrv", "lines": [c.rust_line().split(" ", 1)[1]]}
            if not self.check(ctx, c.result["code"] == 0, inp0, "encryption over a conforming source succeeds", c.result["outcome"]):
                continue
            F, P = c.result["out"], c.a["data"]
            if kind == "chunks":
                key, aad, off = c.a["key"], c.a["aad"], 0
            elif kind == "key":
                if i not in q2i:
                    self.check(ctx, False, inp0, "the recipient recovers the payload key of the implementation's own file", qres[qi[i]]["raw"][:200])
                    continue
                key, aad, off = unhex(q2res[q2i[i]]["out"]), b"", 132
            else:
                key, aad, off = unhex(qres[qi[i]]["out"]), PASS_MAGIC, 36
            recs = records(F, off)
            sizes = sim_reads(len(P), parts, c.a.get("cs", BIG)) or [0]
            m = len(recs)
            self.ran(ctx, "nonce-file/%s/chunks=%d" % (kind, m))
            self.check(ctx, m == len(sizes) and sum(len(x) for x in recs) == len(F) - off, inp0,
                       "%d records (one per non-empty read, at least one)" % len(sizes), "%d records" % m)
            pos = 0
            for ri, rec in enumerate(recs):
                # the cleartext counter field is format (C06), not the nonce: recorded, not judged here
                self.count(ctx, "header-counter-equals-index:%s" % ("yes" if rec[0:8] == ri.to_bytes(8, "big") else "NO"))
                chunk = P[pos:pos + (sizes[ri] if ri < len(sizes) else 0)]
                pos += len(chunk)
                for j in list(range(0, m + 2)) + [ri + 256, ri + 2 ** 32]:
                    def orc(res, j=j, ri=ri, chunk=chunk):
                        if j == ri:
                            if res["code"] != 0 or res["out"] != chunk:
                                return ("record %d opens under nonce %d to plaintext chunk %s" % (ri, ri, chunk.hex()), res["outcome"])
                        elif res["code"] != 51:
                            return ("record %d does not open under nonce %d (each (key, nonce) seals one record)" % (ri, j), res["outcome"])
                        return None
                    cases.append(Case("nopen", key=key, n=j, ad=aad + rec[8:16], x=rec[16:], oracle=orc,
                                      tags=["nonce-" + kind, "own" if j == ri else "other"]))
        self.run_cases(ctx, cases, model=True)

    # ---------------------------------------------------------------- (b) library
    def idle_library(self, ctx):
        # all runs in ONE driver process: a generator that recycles its output after k draws shows up only when one
        # process draws more than k values (260 default key_enc = 520 draws of 32 bytes, plus the other variants)
        N = 2000 if ctx.thorough() else 260
        (s, spk), (r, rpk) = self.parties[0], self.parties[1]
        e = ctx.rbytes(32)
        epk = unhex(drv(ctx.bin, ["xpub %s" % hexs(e)])[0]["out"])
        pkfix = ctx.rbytes(32)
        data = ctx.rbytes(9)
        base = "%s %s %s" % (hexs(s), hexs(spk), hexs(rpk))
        variants = {
            "key_enc": "key_enc %s none none none %s - - -" % (base, hexs(data)),
            "key_enc/payload-injected": "key_enc %s none none %s %s - - -" % (base, hexs(pkfix), hexs(data)),
            "key_enc/ephemeral-injected": "key_enc %s %s %s none %s - - -" % (base, hexs(e), hexs(epk), hexs(data)),
            "noise_enc": "noise_enc %s none none %s %s" % (base, hexs(PROLOGUE), hexs(pkfix)),
        }
        bodies, idx = ["setrand none", "randleft"], [None, None]
        for name, line in variants.items():
            for _ in range(N):
                bodies.append(line)
                idx.append(name)
        res = drv(ctx.bin, bodies)
        inp_all = {"driver": "libdrv", "lines": ["setrand none"] + list(variants.values()), "repeat": N}
        self.check(ctx, res[1].get("n") == "none", inp_all, "no random stream installed (production path)", res[1]["raw"])
        outs = collections.defaultdict(list)
        for name, rr in zip(idx, res):
            if name:
                outs[name].append(rr)
        q, qmap = [], []
        for name in ("key_enc", "key_enc/payload-injected", "key_enc/ephemeral-injected"):
            for k, rr in enumerate(outs[name]):
                F = unhex(rr.get("out", "-"))
                if rr["outcome"] == "ok" and len(F) >= 132:
                    qmap.append((name, k))
                    q.append("noise_dec %s %s %s %s" % (hexs(r), hexs(rpk), hexs(PROLOGUE), hexs(F[4:132])))
        pks = collections.defaultdict(list)
        for (name, k), rr in zip(qmap, drv(ctx.bin, q)):
            pks[name].append(unhex(rr.get("out", "-")))
        allvals = []
        for name, rs in outs.items():
            inp = {"driver": "libdrv", "lines": ["setrand none", variants[name]], "repeat": N, "note": "statistical observation"}
            self.ran(ctx, "idle-library/" + name, len(rs))
            self.check(ctx, all(x["outcome"] == "ok" for x in rs), inp, "every run succeeds", [x["outcome"] for x in rs if x["outcome"] != "ok"][:3])
            off = 0 if name == "noise_enc" else 4
            eph = [unhex(x.get("out", "-"))[off:off + 32] for x in rs]
            if name == "key_enc/ephemeral-injected":
                self.check(ctx, set(eph) == {epk}, inp, "an injected ephemeral key is used as given", len(set(eph)))
            else:
                self.check(ctx, len(set(eph)) == len(rs), inp, "%d runs with identical inputs: ephemeral public keys pairwise distinct" % len(rs),
                           "%d distinct" % len(set(eph)))
                allvals += eph
            if name == "key_enc/payload-injected":
                self.check(ctx, set(pks[name]) == {pkfix}, inp, "an injected payload key is used as given", len(set(pks[name])))
            elif name != "noise_enc":
                self.check(ctx, len(pks[name]) == len(rs) and len(set(pks[name])) == len(rs), inp,
                           "%d runs with identical inputs: payload keys pairwise distinct" % len(rs), "%d distinct of %d recovered" % (len(set(pks[name])), len(pks[name])))
                allvals += pks[name]
            whole = [x.get("out") for x in rs]
            self.check(ctx, len(set(whole)) == len(rs), inp, "no two outputs are equal", "%d distinct" % len(set(whole)))
        self.check(ctx, len(set(allvals)) == len(allvals), inp_all, "all %d drawn values (ephemeral and payload keys, all operations) pairwise distinct" % len(allvals),
                   "%d distinct" % len(set(allvals)))
        self.lib_values = allvals
        self.sample(ctx, {"gen": "idle-library", "runs_per_operation": N, "operations": list(variants), "distinct_values": len(set(allvals))})

    # ---------------------------------------------------------------- CLI: stream equality and idle repetition
    def cli_checks(self, ctx):
        rng = ctx.rng
        N = 200 if ctx.thorough() else 20
        K = 6 if ctx.thorough() else 2
        wd = tempfile.mkdtemp(prefix="kv_c07_", dir="/tmp")
        try:
            (s, spk), (r, rpk) = self.parties[2], self.parties[3]
            pw_s, pw_r = b"sender pass", b"recipient-pass"
            salt_s = ctx.rbytes(32)
            kr_text, locked = make_keyring([("sender-key", s, spk, pw_s, salt_s), ("recipient-key", r, rpk, pw_r, ctx.rbytes(32))])
            kr = os.path.join(wd, "keyring.txt")
            open(kr, "w").write(kr_text)
            pt = ctx.rbytes(300)
            ptf = os.path.join(wd, "plain.bin")
            open(ptf, "wb").write(pt)
            genpw, newpw = "gen pass", "changed-pass"
            jobs, meta = [], []

            def add(kind, args, env, stdin=None, outf=None, stream=None):
                if stream is not None:
                    env = dict(env, KESTREL_VERIF_RANDOM=stream.hex())
                jobs.append({"args": args, "env": env, "stdin": stdin})
                meta.append({"kind": kind, "args": args, "env": dict((k, v) for k, v in env.items()), "out": outf, "stream": stream,
                             "stdin": (stdin or b"").decode("latin1")})
            # (a') deterministic stream
            for k in range(K):
                slack = rng.choice([0, 1, 40])
                st = ctx.rbytes(64 + slack)
                o = os.path.join(wd, "s_enc_%d.bin" % k)
                add("stream/encrypt", ["encrypt", ptf, "-t", "recipient-key", "-f", "sender-key", "-o", o, "-k", kr, "--env-pass"],
                    {"KESTREL_PASSWORD": pw_s.decode()}, outf=o, stream=st)
                st = ctx.rbytes(32 + slack)
                o = os.path.join(wd, "s_pass_%d.bin" % k)
                add("stream/password-encrypt", ["password", "encrypt", ptf, "-o", o, "--env-pass"], {"KESTREL_PASSWORD": "file pw"}, outf=o, stream=st)
                st = ctx.rbytes(64 + slack)
                o = os.path.join(wd, "s_gen_%d.txt" % k)
                add("stream/key-generate", ["key", "generate", "-o", o, "--env-pass"], {"KESTREL_PASSWORD": genpw}, stdin=b"stream-key\n", outf=o, stream=st)
                st = ctx.rbytes(32 + slack)
                add("stream/key-change-pass", ["key", "change-pass", locked["sender-key"], "--env-pass"],
                    {"KESTREL_PASSWORD": pw_s.decode(), "KESTREL_NEW_PASSWORD": newpw}, stream=st)
            # (b) hook idle, identical inputs
            for k in range(N):
                o = os.path.join(wd, "i_enc_%d.bin" % k)
                add("idle/encrypt", ["encrypt", ptf, "-t", "recipient-key", "-f", "sender-key", "-o", o, "-k", kr, "--env-pass"],
                    {"KESTREL_PASSWORD": pw_s.decode()}, outf=o)
                o = os.path.join(wd, "i_pass_%d.bin" % k)
                add("idle/password-encrypt", ["password", "encrypt", ptf, "-o", o, "--env-pass"], {"KESTREL_PASSWORD": "file pw"}, outf=o)
                o = os.path.join(wd, "i_gen_%d.txt" % k)
                add("idle/key-generate", ["key", "generate", "-o", o, "--env-pass"], {"KESTREL_PASSWORD": genpw}, stdin=b"same-name\n", outf=o)
                add("idle/key-change-pass", ["key", "change-pass", locked["sender-key"], "--env-pass"],
                    {"KESTREL_PASSWORD": pw_s.decode(), "KESTREL_NEW_PASSWORD": newpw})
                if k < max(6, N // 2):
                    # self-addressed: --to and --from name the SAME key (backups, notes to self)
                    o = os.path.join(wd, "i_self_%d.bin" % k)
                    add("idle/encrypt-self", ["encrypt", ptf, "-t", "sender-key", "-f", "sender-key", "-o", o, "-k", kr, "--env-pass"],
                        {"KESTREL_PASSWORD": pw_s.decode()}, outf=o)
            for k in range(K):
                st = ctx.rbytes(64 + rng.choice([0, 1, 40]))
                o = os.path.join(wd, "s_self_%d.bin" % k)
                add("stream/encrypt-self", ["encrypt", ptf, "-t", "sender-key", "-f", "sender-key", "-o", o, "-k", kr, "--env-pass"],
                    {"KESTREL_PASSWORD": pw_s.decode()}, outf=o, stream=st)
            results = cli_many(jobs)
            by = collections.defaultdict(list)
            for m, (rc, so, se) in zip(meta, results):
                m["rc"], m["stdout"], m["stderr"] = rc, so, se
                m["file"] = open(m["out"], "rb").read() if m["out"] and os.path.exists(m["out"]) else None
                by[m["kind"]].append(m)
                inp = {"driver": "cli", "argv": m["args"], "env": m["env"], "stdin": m["stdin"], "files": "plaintext: 300 random bytes; keyring: two locked keys"}
                m["inp"] = inp
                self.check(ctx, rc == 0, inp, "the CLI run succeeds", "rc=%d %s" % (rc, se[-200:]))
            self.cli_stream_oracles(ctx, by, s, spk, rpk, pt, genpw, newpw)
            self.cli_idle_oracles(ctx, by, r, rpk, salt_s, N)
            self.cli_self_oracles(ctx, by, s, spk, rpk, pt)
        finally:
            shutil.rmtree(wd, ignore_errors=True)

    @staticmethod
    def key_fields(text):
        """(public key string, locked private key string) of 'key generate' / 'change-pass' output"""
        pk = re.search(r"PublicKey = (\S+)", text)
        sk = re.search(r"PrivateKey = (\S+)", text)
        return (pk.group(1) if pk else None), (sk.group(1) if sk else None)

    def cli_stream_oracles(self, ctx, by, s, spk, rpk, pt, genpw, newpw):
        lib, want = [], []
        for m in by["stream/encrypt"]:
            st = m["stream"]
            lib.append("xpub %s" % hexs(st[32:64]))
        epks = [unhex(x.get("out", "-")) for x in drv(ctx.bin, lib)]
        lib = []
        for m, epk in zip(by["stream/encrypt"], epks):
            st = m["stream"]
            lib.append("key_enc %s %s %s %s %s %s %s - - -" % (hexs(s), hexs(spk), hexs(rpk), hexs(st[32:64]), hexs(epk), hexs(st[0:32]), hexs(pt)))
        for m in by["stream/password-encrypt"]:
            lib.append("pass_enc %s %s %s - - -" % (hexs(b"file pw"), hexs(m["stream"][0:32]), hexs(pt)))
        for m in by["stream/key-generate"]:
            lib.append("xpub %s" % hexs(m["stream"][0:32]))
        lres = drv(ctx.bin, lib)
        k = 0
        for m in by["stream/encrypt"]:
            self.ran(ctx, "cli-stream/encrypt")
            want = unhex(lres[k].get("out", "-"))
            k += 1
            self.check(ctx, m["file"] == want, m["inp"],
                       "CLI output = library key_encrypt with payload key = stream[0:32], ephemeral = stream[32:64] (%d bytes)" % len(want),
                       "%s bytes, first difference at %s" % (len(m["file"] or b""), next((i for i, (a, b) in enumerate(zip(m["file"] or b"", want)) if a != b), None)))
        for m in by["stream/password-encrypt"]:
            self.ran(ctx, "cli-stream/password-encrypt")
            want = unhex(lres[k].get("out", "-"))
            k += 1
            self.check(ctx, m["file"] == want, m["inp"], "CLI output = library pass_encrypt with salt = stream[0:32]",
                       "salt field %s" % (m["file"] or b"")[4:36].hex())
        ops = []
        gens = []
        for m in by["stream/key-generate"]:
            pk = unhex(lres[k].get("out", "-"))
            k += 1
            gens.append(pk)
            ops.append("sk_lock %s %s %s" % (hexs(m["stream"][0:32]), hexs(genpw.encode()), hexs(m["stream"][32:64])))
        for m in by["stream/key-change-pass"]:
            ops.append("sk_lock %s %s %s" % (hexs(s), hexs(newpw.encode()), hexs(m["stream"][0:32])))
        cres = clidrv_ops(ops)
        k = 0
        for m, pk in zip(by["stream/key-generate"], gens):
            self.ran(ctx, "cli-stream/key-generate")
            got_pk, got_sk = self.key_fields((m["file"] or b"").decode("utf-8", "replace"))
            want_sk = unhex(cres[k].get("out", "-")).decode()
            k += 1
            self.check(ctx, got_pk == encode_pk(pk) and got_sk == want_sk, m["inp"],
                       "generated key: private key = stream[0:32] (public %s), locked with salt = stream[32:64]" % encode_pk(pk),
                       "PublicKey=%s PrivateKey=%s" % (got_pk, got_sk))
        for m in by["stream/key-change-pass"]:
            self.ran(ctx, "cli-stream/key-change-pass")
            _, got_sk = self.key_fields(m["stdout"].decode("utf-8", "replace"))
            want_sk = unhex(cres[k].get("out", "-")).decode()
            k += 1
            self.check(ctx, got_sk == want_sk, m["inp"], "re-locked key uses salt = stream[0:32]: " + want_sk, got_sk)

    # ---------------------------------------------------------------- (f) freshness does not depend on the process environment
    ENV_RULE = ("(f) environment independence: the names of the environment variables the code under test can read are enumerated on every run — from the "
                "sources of the working tree (string literals and upper-case constants at env::var / var_os / vars / getenv sites, every KESTREL_* token), from the "
                "built binaries (KESTREL_* tokens in clidrv, libdrv and the C library) and by TRACING getenv calls of the real CLI and of libdrv while they "
                "encrypt / generate keys (an LD_PRELOAD shim compiled on the spot) — and for every name that is not documented (KESTREL_PASSWORD, "
                "KESTREL_NEW_PASSWORD, KESTREL_KEYRING, the harness's KESTREL_VERIF_*) the freshness oracles are repeated with that variable set to: a regular "
                "file of zero bytes, a large regular file, an empty file, a directory, \"1\", \"0\", \"\": in each such environment 3 identical CLI `encrypt`, "
                "2 `password encrypt`, 2 `key generate` processes and one libdrv process (3 key_encrypt, 2 noise_encrypt with everything left to the library) "
                "must still have pairwise distinct ephemeral keys, payload keys, salts and generated keys (runs that refuse to work in such an environment are "
                "counted, not judged)")
    rule = rule + " " + ENV_RULE
    ENV_DOCUMENTED = ("KESTREL_PASSWORD", "KESTREL_NEW_PASSWORD", "KESTREL_KEYRING")
    ENV_HARNESS_PREFIX = "KESTREL_VERIF_"
    ENV_SHIM_C = r'''
#define _GNU_SOURCE
#include <dlfcn.h>
#include <fcntl.h>
#include <string.h>
#include <unistd.h>
static char *(*real_getenv)(const char *);
static char *(*real_secure)(const char *);
static void note(const char *name) {
    if (!real_getenv) real_getenv = (char *(*)(const char *))dlsym(RTLD_NEXT, "getenv");
    const char *log = real_getenv ? real_getenv("KESTREL_VERIF_ENVLOG") : 0;
    if (log && name) {
        int fd = open(log, O_WRONLY | O_APPEND | O_CREAT, 0600);
        if (fd >= 0) { char b[300]; size_t n = strlen(name); if (n > 298) n = 298; memcpy(b, name, n); b[n] = '\n'; (void)!write(fd, b, n + 1); close(fd); }
    }
}
char *getenv(const char *name) { note(name); return real_getenv ? real_getenv(name) : 0; }
char *secure_getenv(const char *name) {
    note(name);
    if (!real_secure) real_secure = (char *(*)(const char *))dlsym(RTLD_NEXT, "secure_getenv");
    return real_secure ? real_secure(name) : 0;
}
'''

    @staticmethod
    def env_scan_sources(root):
        """{name: where} — candidate environment variable names in the Rust sources under root"""
        acc = re.compile(r"\benv::(?:var|var_os|vars|vars_os|remove_var|set_var)\b|\b(?:var_os|vars_os|getenv|secure_getenv)\s*\(|\bvar\s*\(\s*\"")
        lit = re.compile(r'"([A-Za-z_][A-Za-z0-9_]{1,79})"')
        caps = re.compile(r"\b[A-Z][A-Z0-9_]{3,}\b")
        kes = re.compile(r"KESTREL_[A-Z0-9_]*[A-Z0-9]")
        texts = {}
        for dp, dirs, files in os.walk(root):
            dirs[:] = [d for d in dirs if d not in ("target", ".git", "tests", "benches")]
            for fn in files:
                if fn.endswith(".rs"):
                    p = os.path.join(dp, fn)
                    try:
                        texts[p] = open(p, encoding="utf-8", errors="replace").read()
                    except OSError:
                        pass
        consts = {}
        for p, t in texts.items():
            for m in re.finditer(r"\b([A-Z][A-Z0-9_]{2,})\s*:\s*&\s*(?:'static\s+)?(?:str|OsStr|\[u8\])\s*=\s*b?\"([^\"\\]+)\"", t):
                consts[m.group(1)] = m.group(2)
        found = {}

        def add(name, where):
            found.setdefault(name, where)
        for p, t in texts.items():
            rel = os.path.relpath(p, root)
            for m in kes.finditer(t):
                add(m.group(0), "%s (KESTREL_* token)" % rel)
            lines = t.split("\n")
            for i, l in enumerate(lines):
                if not acc.search(l):
                    continue
                win = "\n".join(lines[max(0, i - 3):i + 4])
                for m in lit.finditer(win):
                    if re.fullmatch(r"[A-Z][A-Z0-9_]{2,}", m.group(1)) or ('"%s"' % m.group(1)) in l:
                        add(m.group(1), "%s:%d (string literal at an environment access)" % (rel, i + 1))
                for m in caps.finditer(win):
                    tok = m.group(0)
                    if tok in consts:
                        add(consts[tok], "%s:%d (constant %s at an environment access)" % (rel, i + 1, tok))
        return found

    @staticmethod
    def env_scan_binaries(paths):
        found = {}
        for p in paths:
            try:
                data = open(p, "rb").read()
            except OSError:
                continue
            for m in re.finditer(rb"KESTREL_[A-Z0-9_]*[A-Z0-9]", data):
                # adjacent literals are not separated in .rodata: cut a run at every further "KESTREL_"
                for part in re.split(r"(?=KESTREL_)", m.group(0).decode()):
                    if len(part) > len("KESTREL_"):
                        found.setdefault(part, os.path.basename(p))
        return found

    def env_trace(self, ctx, wd, kr, ptf, pw_s):
        """names passed to getenv / secure_getenv by the real CLI and by libdrv while they draw randomness; {} when no C compiler is there"""
        src, so, log = os.path.join(wd, "envshim.c"), os.path.join(wd, "envshim.so"), os.path.join(wd, "envlog.txt")
        open(src, "w").write(self.ENV_SHIM_C)
        rc, out = vlib.sh(["cc", "-shared", "-fPIC", "-O1", "-o", so, src, "-ldl"], timeout=120)
        if rc != 0 or not os.path.exists(so):
            self.count(ctx, "env-trace:not-available(no C compiler)")
            return {}
        pre = {"LD_PRELOAD": so, "KESTREL_VERIF_ENVLOG": log}
        runs = [(["encrypt", ptf, "-t", "env-recipient", "-f", "env-sender", "-o", os.path.join(wd, "tr_enc.bin"), "-k", kr, "--env-pass"], {"KESTREL_PASSWORD": pw_s}, None),
                (["password", "encrypt", ptf, "-o", os.path.join(wd, "tr_pass.bin"), "--env-pass"], {"KESTREL_PASSWORD": "trace pw"}, None),
                (["key", "generate", "-o", os.path.join(wd, "tr_gen.txt"), "--env-pass"], {"KESTREL_PASSWORD": "trace pw"}, b"trace-key\n"),
                (["encrypt", os.path.join(wd, "does-not-exist"), "-t", "env-recipient", "-f", "env-sender", "-k", kr, "--env-pass"], {"KESTREL_PASSWORD": pw_s}, None)]
        ok = 0
        for args, env, stdin in runs:
            rc, _, _ = cli(args, dict(env, **pre), stdin=stdin)
            ok += rc == 0
        (s, spk), (r, rpk) = self.parties[0], self.parties[1]
        self.env_drv(ctx.bin, ["key_enc %s %s %s none none none 6162 - - -" % (hexs(s), hexs(spk), hexs(rpk)),
                               "noise_enc %s %s %s none none %s %s" % (hexs(s), hexs(spk), hexs(rpk), hexs(PROLOGUE), hexs(bytes(32)))], pre)
        names = {}
        try:
            for l in open(log, encoding="utf-8", errors="replace").read().split("\n"):
                if l:
                    names.setdefault(l, "getenv call traced in the running program")
        except OSError:
            pass
        self.count(ctx, "env-trace:getenv-calls-seen", len(names))
        # (the tracer is an aid: when it does not see the one call that is certainly made, its result is not used and the static scans stand alone)
        self.count(ctx, "env-trace:self-test(sees KESTREL_PASSWORD, traced commands succeed)=%s" % ("ok" if ok >= 3 and "KESTREL_PASSWORD" in names else "FAILED"))
        return names if "KESTREL_PASSWORD" in names else {}

    @staticmethod
    def env_drv(binp, bodies, env):
        """libdrv with extra environment variables; replies as dicts (drv() of this module runs in the check's own environment)"""
        e = cli_env(env)
        inp = "".join("%d %s\n" % (i + 1, b) for i, b in enumerate(bodies))
        try:
            p = subprocess.run([binp], input=inp.encode(), env=e, stdout=subprocess.PIPE, stderr=subprocess.PIPE, timeout=300)
            out = p.stdout.decode("utf-8", "replace")
        except subprocess.TimeoutExpired:
            out = ""
        res = {}
        for l in out.splitlines():
            if " " in l:
                res[l.split()[0]] = l
        return [parse_kv(res.get(str(i + 1), "%d outcome=missing" % (i + 1))) for i in range(len(bodies))]

    def env_independence(self, ctx, force_names=None):
        rng = ctx.rng
        wd = tempfile.mkdtemp(prefix="kv_c07e_", dir="/tmp")
        try:
            (s, spk), (r, rpk) = self.parties[0], self.parties[1]
            pw_s = "env sender pw"
            kr_text, _ = make_keyring([("env-sender", s, spk, pw_s.encode(), ctx.rbytes(32)), ("env-recipient", r, rpk, b"rcpt", ctx.rbytes(32))])
            kr = os.path.join(wd, "keyring.txt")
            open(kr, "w").write(kr_text)
            pt = ctx.rbytes(100)
            ptf = os.path.join(wd, "plain.bin")
            open(ptf, "wb").write(pt)
            src = self.env_scan_sources(os.path.join(vlib.REPO, "src"))
            bins = self.env_scan_binaries([vlib.CLIDRV, ctx.bin, vlib.FFI_SO])
            traced = self.env_trace(ctx, wd, kr, ptf, pw_s)
            known = set(self.ENV_DOCUMENTED)
            cand = {}
            for name, where in list(src.items()) + list(traced.items()):
                if name in known or name.startswith(self.ENV_HARNESS_PREFIX) or name.startswith("LD_") or not re.fullmatch(r"[A-Za-z_][A-Za-z0-9_]*", name):
                    continue
                cand.setdefault(name, where)
            explained = known | set(src) | set(traced)
            for tok, where in bins.items():
                if tok.startswith(self.ENV_HARNESS_PREFIX) or any(tok.startswith(n) for n in explained):
                    continue
                parts = tok.split("_")
                for k in range(2, len(parts) + 1):
                    cand.setdefault("_".join(parts[:k]), "KESTREL_* token %s in the built %s" % (tok, where))
            for n in (force_names or []):
                cand.setdefault(n, "forced")
            self.ran(ctx, "env-scan")
            self.count(ctx, "env-names:sources", len(src))
            self.count(ctx, "env-names:binaries", len(bins))
            self.count(ctx, "env-names:undocumented", len(cand))
            self.sample(ctx, {"gen": "env-scan", "in_sources": sorted(src), "in_binaries": sorted(bins), "getenv_traced": sorted(traced), "undocumented": cand})
            if not cand:
                return
            names = sorted(cand)
            if len(names) > (40 if ctx.thorough() else 12):
                self.count(ctx, "env-names:not-tested(too many)", len(names) - 12)
                keep = [n for n in names if n.startswith("KESTREL_")]
                names = (keep + [n for n in names if n not in keep])[:40 if ctx.thorough() else 12]
            # odd values
            zeros = os.path.join(wd, "zeros.bin")
            open(zeros, "wb").write(bytes(1 << 16))
            large = os.path.join(wd, "large.bin")
            shutil.copyfile(vlib.CLIDRV, large)
            empty = os.path.join(wd, "empty.bin")
            open(empty, "wb").close()
            adir = os.path.join(wd, "a-directory")
            os.mkdir(adir)
            values = [("a regular file of 65536 zero bytes", zeros), ("a large regular file (a copy of the CLI binary)", large), ("an empty regular file", empty),
                      ("a directory", adir), ("the string 1", "1"), ("the string 0", "0"), ("the empty string", "")]
            jobs, meta, libjobs = [], [], []
            for name in names:
                for vdesc, val in values:
                    env1 = {name: val}
                    g = (name, vdesc)
                    for k in range(3):
                        o = os.path.join(wd, "e_%d.bin" % len(jobs))
                        jobs.append({"args": ["encrypt", ptf, "-t", "env-recipient", "-f", "env-sender", "-o", o, "-k", kr, "--env-pass"], "env": dict(env1, KESTREL_PASSWORD=pw_s)})
                        meta.append({"g": g, "kind": "encrypt", "out": o})
                    for k in range(2):
                        o = os.path.join(wd, "e_%d.bin" % len(jobs))
                        jobs.append({"args": ["password", "encrypt", ptf, "-o", o, "--env-pass"], "env": dict(env1, KESTREL_PASSWORD="env file pw")})
                        meta.append({"g": g, "kind": "password-encrypt", "out": o})
                    for k in range(2):
                        o = os.path.join(wd, "e_%d.txt" % len(jobs))
                        jobs.append({"args": ["key", "generate", "-o", o, "--env-pass"], "env": dict(env1, KESTREL_PASSWORD="env gen pw"), "stdin": b"env-key\n"})
                        meta.append({"g": g, "kind": "key-generate", "out": o})
                    libjobs.append((g, env1, ["setrand none"] + ["key_enc %s %s %s none none none %s - - -" % (hexs(s), hexs(spk), hexs(rpk), hexs(pt[:9]))] * 3
                                    + ["noise_enc %s %s %s none none %s %s" % (hexs(s), hexs(spk), hexs(rpk), hexs(PROLOGUE), hexs(pt[:32]))] * 2))
            results = cli_many(jobs)
            with ThreadPoolExecutor(max_workers=vlib.NPROC) as ex:
                libres = list(ex.map(lambda j: self.env_drv(ctx.bin, j[2], j[1]), libjobs))
            groups = collections.defaultdict(lambda: collections.defaultdict(list))     # g -> kind-of-value -> [(value, what run)]
            hs = []
            for j, m, (rc, so, se) in zip(jobs, meta, results):
                F = open(m["out"], "rb").read() if os.path.exists(m["out"]) else None
                self.ran(ctx, "env/%s" % m["kind"])
                if rc != 0 or not F:
                    self.count(ctx, "env-run-refused:%s[%s]" % (m["kind"], m["g"][1]))
                    continue
                what = {"argv": j["args"], "env": j["env"]}
                if m["kind"] == "encrypt" and len(F) >= 132:
                    groups[m["g"]]["ephemeral key"].append((F[4:36], what))
                    hs.append((m["g"], F[4:132], what, r, rpk))
                elif m["kind"] == "password-encrypt" and len(F) >= 36:
                    groups[m["g"]]["salt / generated key"].append((F[4:36], what))
                elif m["kind"] == "key-generate":
                    pk, sk = self.key_fields(F.decode("utf-8", "replace"))
                    try:
                        groups[m["g"]]["salt / generated key"].append((base64.b64decode(pk)[:32], what))
                        groups[m["g"]]["salt / generated key"].append((base64.b64decode(sk)[4:36], what))
                    except Exception:
                        self.count(ctx, "env-run-refused:key-generate-output-unreadable")
            for (g, env1, bodies), rs in zip(libjobs, libres):
                for b, x in zip(bodies[1:], rs[1:]):
                    op = b.split()[0]
                    self.ran(ctx, "env/library-%s" % op)
                    if x.get("outcome") != "ok":
                        self.count(ctx, "env-run-refused:library-%s[%s]=%s" % (op, g[1], x.get("outcome")))
                        continue
                    out = unhex(x.get("out", "-"))
                    what = {"driver": "libdrv", "lines": bodies, "env": env1}
                    off = 4 if op == "key_enc" else 0
                    groups[g]["ephemeral key"].append((out[off:off + 32], what))
                    if op == "key_enc":
                        hs.append((g, out[4:132], what, r, rpk))
            nd = drv(ctx.bin, ["noise_dec %s %s %s %s" % (hexs(h[3]), hexs(h[4]), hexs(PROLOGUE), hexs(h[1])) for h in hs])
            for h, x in zip(hs, nd):
                if x.get("outcome") == "ok":
                    groups[h[0]]["payload key"].append((unhex(x.get("out", "-")), h[2]))
                else:
                    self.count(ctx, "env-output-not-opened-by-recipient[%s]" % h[0][1])
            base = set(getattr(self, "lib_values", []))
            for g in sorted(groups):
                name, vdesc = g
                allv = []
                for kind, vals in groups[g].items():
                    allv += [(v, kind, w) for v, w in vals]
                seen = {}
                dup = None
                for v, kind, w in allv:
                    if v in seen or v in base:
                        dup = (v, kind, w, seen.get(v, ("a value of the runs without the variable", None)))
                        break
                    seen[v] = (kind, w)
                inp = {"driver": "cli+libdrv", "environment_variable": name, "set_to": vdesc, "where_the_name_comes_from": cand[name],
                       "runs": "3 x encrypt, 2 x password encrypt, 2 x key generate (real CLI), 3 x key_encrypt + 2 x noise_encrypt (one libdrv process), identical inputs, all with this variable set",
                       "first_repeat": None if dup is None else {"value_is": dup[1], "run": dup[2], "same_value_in": dup[3][1], "there_it_is": dup[3][0]}}
                self.check(ctx, dup is None, inp,
                           "with %s set to %s the %d random values of the successful runs (ephemeral keys, payload keys, salts, generated keys) are still pairwise distinct" % (name, vdesc, len(allv)),
                           None if dup is None else "%s %s occurs twice" % (dup[1], dup[0].hex()))
        finally:
            shutil.rmtree(wd, ignore_errors=True)

    SELF_RULE = ("(e) self-addressed CLI encryptions (`encrypt -t X -f X`: recipient = sender) repeated with identical inputs (quick 10, thorough 100 processes) and "
                 "inside the CLI histories (three identical invocations in a row, other plaintexts, two-party files in between, standard output): ephemeral keys "
                 "and recovered payload keys pairwise distinct and distinct from every other random value observed, bytes 4..36 never a public key of the "
                 "keyring, sealed sender keys (bytes 36..84) pairwise distinct; under KESTREL_VERIF_RANDOM the output equals the library's key_encrypt to "
                 "the sender's own key with payload key = stream[0:32], ephemeral = stream[32:64]")
    rule = rule + " " + SELF_RULE

    def cli_self_oracles(self, ctx, by, s, spk, rpk, pt):
        ms = by["idle/encrypt-self"]
        if ms:
            n = len(ms)
            inp = dict(ms[0]["inp"], repeat=n, note="statistical observation over %d self-addressed runs with identical inputs" % n)
            self.ran(ctx, "cli-idle/encrypt-self", n)
            files = [m["file"] or b"" for m in ms]
            eph = [f[4:36] for f in files]
            self.check(ctx, all(len(f) == 132 + 32 + len(pt) for f in files), inp, "every self-addressed run writes a %d-byte key-mode file" % (164 + len(pt)), sorted(set(len(f) for f in files)))
            self.check(ctx, len(set(eph)) == n and all(len(x) == 32 for x in eph), inp,
                       "self-addressed files: ephemeral keys (file bytes 4..36) pairwise distinct", "%d distinct of %d: %s" % (len(set(eph)), n, sorted(set(x.hex() for x in eph))[:2]))
            self.check(ctx, spk not in eph and rpk not in eph, inp, "file bytes 4..36 are a fresh ephemeral public key, never a public key of the keyring",
                       "bytes 4..36 = the sender's long-term public key %s in %d of %d files" % (spk.hex(), eph.count(spk), n))
            sealed = [f[36:84] for f in files]
            self.check(ctx, len(set(sealed)) == n, inp, "the sealed sender key (bytes 36..84, sealed under the key derived from the fresh ephemeral exchange with nonce 0) "
                       "differs from file to file", "%d distinct of %d" % (len(set(sealed)), n))
            nd = drv(ctx.bin, ["noise_dec %s %s %s %s" % (hexs(s), hexs(spk), hexs(PROLOGUE), hexs(f[4:132])) for f in files if len(f) >= 132])
            pks = [unhex(x.get("out", "-")) for x in nd if x["outcome"] == "ok"]
            self.check(ctx, len(pks) == n and len(set(pks)) == n, inp, "self-addressed files: payload keys (recovered with the sender's own key) pairwise distinct",
                       "%d distinct of %d recovered" % (len(set(pks)), len(pks)))
            other = []
            for kind in ("idle/encrypt",):
                other += [(m["file"] or b"")[4:36] for m in by[kind]]
            allv = eph + pks + other + list(getattr(self, "lib_values", []))
            self.check(ctx, len(set(allv)) == len(allv), inp, "the %d random values of the self-addressed runs, of the two-party runs and of the library runs are pairwise distinct" % len(allv),
                       "%d distinct" % len(set(allv)))
        ss = by["stream/encrypt-self"]
        if ss:
            xp = drv(ctx.bin, ["xpub %s" % hexs(m["stream"][32:64]) for m in ss])
            lres = drv(ctx.bin, ["key_enc %s %s %s %s %s %s %s - - -" % (hexs(s), hexs(spk), hexs(spk), hexs(m["stream"][32:64]), x.get("out", "-"),
                                                                        hexs(m["stream"][0:32]), hexs(pt)) for m, x in zip(ss, xp)])
            for m, lr in zip(ss, lres):
                self.ran(ctx, "cli-stream/encrypt-self")
                want = unhex(lr.get("out", "-"))
                self.check(ctx, m["file"] == want and lr.get("outcome") == "ok", m["inp"],
                           "self-addressed CLI output = library key_encrypt to the sender's own key with payload key = stream[0:32], ephemeral = stream[32:64] (%d bytes)" % len(want),
                           "%s bytes, first difference at %s; bytes 4..36 = %s" % (len(m["file"] or b""), next((i for i, (a, b) in enumerate(zip(m["file"] or b"", want)) if a != b), None),
                                                                              (m["file"] or b"")[4:36].hex()))

    def cli_idle_oracles(self, ctx, by, r, rpk, salt_s, N):
        note = "statistical observation over %d runs with identical inputs" % N
        allv = list(getattr(self, "lib_values", []))
        # encrypt
        ms = by["idle/encrypt"]
        inp = dict(ms[0]["inp"], repeat=N, note=note)
        self.ran(ctx, "cli-idle/encrypt", len(ms))
        files = [m["file"] or b"" for m in ms]
        eph = [f[4:36] for f in files]
        self.check(ctx, len(set(eph)) == len(ms) and all(len(x) == 32 for x in eph), inp, "ephemeral keys (file bytes 4..36) pairwise distinct", "%d distinct" % len(set(eph)))
        nd = drv(ctx.bin, ["noise_dec %s %s %s %s" % (hexs(r), hexs(rpk), hexs(PROLOGUE), hexs(f[4:132])) for f in files if len(f) >= 132])
        pks = [unhex(x.get("out", "-")) for x in nd if x["outcome"] == "ok"]
        self.check(ctx, len(pks) == len(ms) and len(set(pks)) == len(ms), inp, "payload keys (recovered by the recipient) pairwise distinct",
                   "%d distinct of %d recovered" % (len(set(pks)), len(pks)))
        allv += eph + pks
        # password encrypt
        ms = by["idle/password-encrypt"]
        inp = dict(ms[0]["inp"], repeat=N, note=note)
        self.ran(ctx, "cli-idle/password-encrypt", len(ms))
        salts = [(m["file"] or b"")[4:36] for m in ms]
        self.check(ctx, len(set(salts)) == len(ms) and all(len(x) == 32 for x in salts), inp, "password-file salts (bytes 4..36) pairwise distinct", "%d distinct" % len(set(salts)))
        allv += salts
        # key generate
        ms = by["idle/key-generate"]
        inp = dict(ms[0]["inp"], repeat=N, note=note)
        self.ran(ctx, "cli-idle/key-generate", len(ms))
        pubs, ksalts = [], []
        for m in ms:
            pk, sk = self.key_fields((m["file"] or b"").decode("utf-8", "replace"))
            pubs.append(pk)
            try:
                ksalts.append(base64.b64decode(sk)[4:36])
            except Exception:
                ksalts.append(None)
        self.check(ctx, None not in pubs and len(set(pubs)) == len(ms), inp, "generated public keys pairwise distinct (hence the private keys)", "%d distinct" % len(set(pubs)))
        self.check(ctx, None not in ksalts and len(set(ksalts)) == len(ms), inp, "locked-key salts (decoded bytes 4..36) pairwise distinct", "%d distinct" % len(set(ksalts)))
        allv += [base64.b64decode(p)[:32] for p in pubs if p] + [x for x in ksalts if x]
        # change-pass
        ms = by["idle/key-change-pass"]
        inp = dict(ms[0]["inp"], repeat=N, note=note)
        self.ran(ctx, "cli-idle/key-change-pass", len(ms))
        csalts = []
        for m in ms:
            _, sk = self.key_fields(m["stdout"].decode("utf-8", "replace"))
            try:
                csalts.append(base64.b64decode(sk)[4:36])
            except Exception:
                csalts.append(None)
        self.check(ctx, None not in csalts and len(set(csalts)) == len(ms) and salt_s not in csalts, inp,
                   "re-locked keys: salts pairwise distinct and different from the old salt", "%d distinct" % len(set(csalts)))
        allv += [x for x in csalts if x]
        self.check(ctx, len(set(allv)) == len(allv), {"driver": "cli+libdrv", "note": note},
                   "all %d random values observed (library and CLI: ephemeral keys, payload keys, salts, generated keys) pairwise distinct" % len(allv),
                   "%d distinct" % len(set(allv)))
        self.count(ctx, "distinct-random-values", len(set(allv)))
        self.sample(ctx, {"gen": "cli-idle", "runs_per_command": N, "commands": ["encrypt", "password encrypt", "key generate", "key change-pass"],
                          "distinct_values_total": len(set(allv))})


# =========================================================================== C08
def needles_for(pk, label):
    """byte patterns that would reveal a public key: raw, base64 (std / url-safe, with and without padding),
    the 48-character keyring encoding (key + 4 checksum bytes), hex"""
    enc = encode_pk(pk)
    out = [(label + ":raw", pk), (label + ":base64", b64(pk).encode()), (label + ":base64-nopad", b64(pk).rstrip("=").encode()),
           (label + ":base64url-nopad", base64.urlsafe_b64encode(pk).rstrip(b"=")), (label + ":keyring-encoding", enc.encode()),
           (label + ":raw+checksum", pk + hashlib.sha256(pk).digest()[:4]),
           (label + ":hex", pk.hex().encode()), (label + ":HEX", pk.hex().upper().encode())]
    return out


def find_needles(F, needles):
    return [lab for lab, n in needles if n and n in F]


def view_of(F, hdr):
    """the cleartext view: magic, bytes 4..36, every record's 16 header bytes; plus structural sanity"""
    recs = records(F, hdr)
    return F[0:36] + b"".join(r[0:16] for r in recs), recs


def c08_wellformed(F, hdr, n):
    """(None, records) when F[hdr:] is exactly a sequence of chunk records as docs/file-format.txt lays them out — record i carries
    counter i, the last-chunk flag is 1 on the final record and on no other, the final record ends at end-of-file, no record is
    longer than 64 KiB and the record lengths sum to n — otherwise (what is wrong, records walked so far)"""
    i, k, total = hdr, 0, 0
    while True:
        if i + 32 > len(F):
            return "record %d would start at offset %d but the file has %d bytes (no final record seen)" % (k, i, len(F)), k
        ctr, flag, ln = int.from_bytes(F[i:i + 8], "big"), int.from_bytes(F[i + 8:i + 12], "big"), int.from_bytes(F[i + 12:i + 16], "big")
        if ctr != k:
            return "record %d at offset %d carries counter %d" % (k, i, ctr), k
        if flag not in (0, 1):
            return "record %d at offset %d carries flag %d" % (k, i, flag), k
        if ln > BIG or i + 32 + ln > len(F):
            return "record %d at offset %d announces %d bytes, the file ends at %d" % (k, i, ln, len(F)), k
        total += ln
        i += 32 + ln
        k += 1
        if flag == 1:
            break
    if i != len(F):
        return "%d record(s) end at offset %d, the file has %d bytes: %d bytes follow the final record (%s)" % (
            k, i, len(F), len(F) - i, F[i:i + 40].hex()), k
    if total != n:
        return "the record lengths sum to %d, the plaintext has %d bytes" % (total, n), k
    return None, k


def c08_ptyrun(job):
    """tools/ptyrun.py in a process of its own (fork + setsid + controlling-terminal games stay out of this process)"""
    try:
        p = subprocess.run([sys.executable, os.path.join(vlib.VERIF, "tools", "ptyrun.py")], input=json.dumps(job).encode(),
                           stdout=subprocess.PIPE, stderr=subprocess.PIPE, timeout=float(job.get("timeout", 120)) + 30)
        d = json.loads(p.stdout.decode() or "{}")
    except (subprocess.TimeoutExpired, ValueError) as e:
        d = {"rc": 125, "error": repr(e)[:200]}
    d.setdefault("rc", 125)
    for k in ("stdout", "stderr", "pty"):
        d[k] = bytes.fromhex(d.get(k, ""))
    return d


class C08(MiscProp):
    id = "C08"
    rule = ("library: plaintext lengths 0,1,5,32,33,100 (thorough also 2, 31) under several read partitions (one record per non-empty read) and "
            "65535..65537 (thorough: 131072, 131073); every (length, partition) is encrypted for 3 (thorough 5) different "
            "sender/recipient pairs — resp. passwords — with the SAME ephemeral key / salt and partly different payload keys "
            "and plaintext contents: length = 132 (36) + 32*records + |P|, records = max(1, non-empty reads); the cleartext view "
            "(magic, bytes 4..36, each record's 16 header bytes) equals the predicted one and is identical inside a group; no "
            "needle (both public keys raw / base64 / keyring encoding / hex) occurs in the file; every file is also compared "
            "with the model byte for byte (run_key_enc / run_pass_enc); half-injected ephemeral pairs (Some e, None) and (None, Some epk) — which "
            "noise.rs treats as not injected — with the fresh key taken from an installed random stream: bytes 4..36 must be the FRESH "
            "key's public key, same view for all identities, no needle, model = run_key_enc_fresh on the same stream. CLI: real `encrypt` / `password encrypt` processes over a "
            "keyring with named entries (ASCII, spaces, non-ASCII), file and stdin input, with and without a fixed random stream: "
            "same checks plus the keyring names and every keyring public key as needles; also onto a pre-existing LONGER output file "
            "whose text contains the keyring (names, public keys): the result must obey the exact length formula and contain no needle; "
            "self-addressed (to == from) and two-party encryptions written to standard output (a pipe) and to -o: the output starts with the "
            "magic, obeys the length formula and contains no needle. non-trivial = all; distinct = distinct "
            "driver lines / argv")
    assumptions = ["needle search is over exact encodings (raw, base64 variants, keyring encoding, hex); an AEAD output that happened to contain a 32-byte needle by chance has probability < 2^-200",
                   "names shorter than 10 bytes are not used as needles (they could occur by chance)",
                   "that the AEAD bytes themselves carry no information about identities is the Noise/AEAD secrecy argument, not tested here"]

    def run(self, ctx):
        self.library(ctx)
        self.library_mixed(ctx)
        self.after_failure_sequences(ctx)
        self.fresh_ephemeral(ctx)
        self.cli_part(ctx)
        self.cli_sizes(ctx)
        self.pty_part(ctx)
        self.r6_coinciding_arguments(ctx)

    R6_RULE = ("coinciding arguments: groups of key_encrypt calls with ONE supplied ephemeral pair E (and partly one payload key) for 3 (thorough 5) "
               "sender/recipient pairs, in which one call has two byte-string arguments EQUAL — sender pair = E, recipient pair = E, payload key = "
               "E's private / public key, = the sender's private / public key, = the recipient's public key, sender = recipient, all at once — "
               "lengths 0 / 5 / 33 under random read partitions: every file obeys the length formula, has the predicted cleartext view with E's "
               "public key at bytes 4..36, the views are identical inside a group, no public key other than E's occurs anywhere, and every file "
               "equals the model's byte for byte. key arguments of unusual length: sender public, ephemeral public, recipient public, sender private, "
               "ephemeral private and payload key of 31, 33, 36 (key + keyring checksum), 48 and 64 bytes, one position at a time: the call is refused "
               "(error / panic before anything is written), or else the file obeys the exact length formula and bytes 4..36 are the 32-byte ephemeral key")
    rule = rule + " " + R6_RULE

    def r6_coinciding_arguments(self, ctx):
        rng = ctx.rng
        full = ctx.thorough()
        G = 5 if full else 3
        ids = keypairs(ctx, 2 * G + 1)
        e, epk = ids[-1]
        pk0 = ctx.rbytes(32)
        (s0, spk0), (r0, rpk0) = ids[0], ids[1]
        # (label, sender pair, recipient pair, payload key) of the coinciding member; the other members use ids[2k], ids[2k+1]
        kinds = [("sender pair = ephemeral pair", (e, epk), (r0, rpk0), pk0),
                 ("recipient pair = ephemeral pair", (s0, spk0), (e, epk), pk0),
                 ("payload key = ephemeral private key", (s0, spk0), (r0, rpk0), e),
                 ("payload key = ephemeral public key", (s0, spk0), (r0, rpk0), epk),
                 ("payload key = sender private key", (s0, spk0), (r0, rpk0), s0),
                 ("payload key = sender public key", (s0, spk0), (r0, rpk0), spk0),
                 ("payload key = recipient public key", (s0, spk0), (r0, rpk0), rpk0),
                 ("sender = recipient", (s0, spk0), (s0, spk0), pk0),
                 ("sender = recipient = ephemeral pair, payload key = its private key", (e, epk), (e, epk), e)]
        cases, meta = [], []
        for ki, (label, (a, apk), (b, bpk), pk) in enumerate(kinds):
            for n in ([0, 5, 33] if full else [rng.choice([0, 5, 33])]):
                parts = [] if n == 0 else rng.choice(all_partitions(n, n) if n <= 5 else [[], [1, 1], [n // 2], [rng.randrange(1, n) for _ in range(3)]])
                sizes = sim_reads(n, parts)
                members = [(a, apk, b, bpk, pk, True)] + [(ids[2 * k][0], ids[2 * k][1], ids[2 * k + 1][0], ids[2 * k + 1][1], pk if k == 1 else ctx.rbytes(32), False) for k in range(1, G)]
                # the coinciding member twice: a group must not depend on which call comes first
                members.append((a, apk, b, bpk, pk, True))
                for (x, xpk, y, ypk, p_, co) in members:
                    c = Case("key_enc", s=x, spk=xpk, r=ypk, e=e, epk=epk, pk=p_, data=ctx.rbytes(n), rs=script_of(parts),
                             tags=["coinciding-arguments" if co else "coinciding-arguments-partner", "len=%d" % n])
                    cases.append(c)
                    meta.append({"g": (ki, n, tuple(parts)), "label": label, "n": n, "sizes": sizes, "co": co,
                                 "needles": [nd for who, key in (("sender-public-key", xpk), ("recipient-public-key", ypk)) if key != epk for nd in needles_for(key, who)]})
        views = collections.defaultdict(set)

        def oracle(m):
            def f(res):
                what = "(%s) " % m["label"] if m["co"] else "(partner of a call with %s) " % m["label"]
                if res["code"] != 0:
                    return (what + "encryption succeeds", res["outcome"])
                F = res["out"]
                sz = m["sizes"] or [0]
                want_len = 132 + 32 * len(sz) + m["n"]
                if len(F) != want_len:
                    return (what + "length = 132 + 32*%d + %d = %d" % (len(sz), m["n"], want_len), "%d bytes" % len(F))
                v, recs = view_of(F, 132)
                want_v = PROLOGUE + epk + b"".join(i.to_bytes(8, "big") + (1 if i == len(sz) - 1 else 0).to_bytes(4, "big") + sz[i].to_bytes(4, "big") for i in range(len(sz)))
                if v != want_v:
                    return (what + "cleartext view = magic, the SUPPLIED ephemeral public key, per-record (counter, last flag, length), whoever the parties are: " + want_v.hex(), v.hex())
                hits = find_needles(F, m["needles"])
                if hits:
                    return (what + "no identity material anywhere in the file", "found " + ", ".join(hits))
                views[m["g"]].add(v)
                return None
            return f
        for c, m in zip(cases, meta):
            c.expect_fn = oracle(m)
        # model comparison: the coinciding call of every group (thorough: every call); the partners are ordinary calls (C08.library compares those)
        seen_g, with_model, without = set(), [], []
        for c, m in zip(cases, meta):
            if full or (m["co"] and m["g"] not in seen_g):
                seen_g.add(m["g"])
                with_model.append(c)
            else:
                without.append(c)
        self.run_cases(ctx, with_model, model=True)
        self.run_cases(ctx, without, model=False)
        for g, vs in views.items():
            self.check(ctx, len(vs) == 1, {"driver": "libdrv", "group": "%s, length %d, partition %s" % (kinds[g[0]][0], g[1], list(g[2]))},
                       "encryptions with one ephemeral key have identical cleartext views whoever the parties are", "%d different views: %s" % (len(vs), [v.hex() for v in list(vs)[:2]]))
        self.count(ctx, "coinciding-argument-groups", len(views))
        # ---- key arguments of unusual length, one position at a time
        (s, spk), (r, rpk) = ids[2], ids[3]
        o_ = lambda b: "none" if b is None else hexs(b)
        n = 13
        data = ctx.rbytes(n)
        base = {"s": s, "spk": spk, "rpk": rpk, "e": e, "epk": epk, "pk": pk0}

        def stretch(key, L):
            if L < 32:
                return key[:L]
            if L == 36:
                return key + hashlib.sha256(key).digest()[:4]          # what base64-decoding a keyring value yields
            return key + ctx.rbytes(L - 32)
        lens = [31, 33, 36, 48, 64]
        lines, what = [], []
        for pos in ("spk", "epk", "rpk", "s", "e", "pk"):
            for L in (lens if (full or pos in ("spk", "epk")) else [36, rng.choice([31, 33, 48, 64])]):
                a = dict(base)
                a[pos] = stretch(base[pos], L)
                lines.append("key_enc %s %s %s %s %s %s %s - - -" % (hexs(a["s"]), hexs(a["spk"]), hexs(a["rpk"]), o_(a["e"]), o_(a["epk"]), o_(a["pk"]), hexs(data)))
                what.append("%s of %d bytes" % ({"spk": "sender public key", "epk": "ephemeral public key", "rpk": "recipient public key", "s": "sender private key",
                                                 "e": "ephemeral private key", "pk": "payload key"}[pos], L))
        for line, w in zip(lines, what):
            rr = drv(ctx.bin, [line])[0]          # one process per line: a refusal may be a panic or an abort
            inp = {"driver": "libdrv", "lines": [line], "argument": w}
            self.ran(ctx, "key-argument-length/%s" % w.split(" of ")[0])
            F = unhex(rr.get("out", "-")) if re.fullmatch(r"[0-9a-f]*|-", rr.get("out", "-")) else b""
            self.count(ctx, "key-argument-length-outcome:%s" % rr.get("outcome", "?").split(":")[0])
            if rr.get("outcome") != "ok":
                self.check(ctx, len(F) == 0, inp, w + ": refused before anything is written", "%s with %d bytes written" % (rr.get("outcome"), len(F)))
                continue
            self.check(ctx, len(F) == 132 + 32 + n and F[:4] == PROLOGUE and F[4:36] == epk[:32] and c08_wellformed(F, 132, n)[0] is None, inp,
                       w + ": refused, or a file of exactly 132 + 32 + %d = %d bytes (independent of the key material) with the 32-byte ephemeral key at 4..36 followed "
                           "by the 96 handshake bytes and one record" % (n, 164 + n),
                       "%d bytes, bytes 4..40 = %s, records: %s" % (len(F), F[4:40].hex(), c08_wellformed(F, 132, n)[0]))

    RULE_SIZES_PTY = (
        "CLI size boundaries: plaintexts of 0, 1, 65535, 65536, 65537, 2*65536-1 .. 2*65536+1, 3*65536 and three random multiples of 64 KiB "
        "(+-1) bytes through `encrypt` and `password encrypt` in every combination of input (regular file, standard input) and output "
        "(-o new path, -o over an existing file that is 32 bytes longer / 1 byte shorter / twice as long as the result, standard output): "
        "the file must be EXACTLY magic, bytes 4..36/132 and a well-formed record sequence (record i has counter i, last flag on the final "
        "record only, which ends at end-of-file, lengths sum to |P|), hence 132 (36) + 32*records + |P| bytes; same cleartext view for all "
        "identities and output modes under one random stream. CLI on a terminal (tools/ptyrun.py): the password is PROMPTED for (no "
        "--env-pass) with a pseudo-terminal on standard input, with and without a controlling terminal (/dev/tty opens / fails), while "
        "standard output and standard error are, independently, a pipe, a regular file or the terminal, also after a wrong password / a "
        "mismatching confirmation: what arrives on standard output (resp. at -o) must be the encrypted file and nothing else — magic first, "
        "well-formed records to end-of-file, exact length, no keyring name, public key or password")
    rule = rule + " " + RULE_SIZES_PTY

    # ---------------------------------------------------------------- real CLI: size boundaries in every i/o mode
    def c08_keyring(self, ctx, wd):
        names = ["alice-sender-%s" % ctx.rbytes(5).hex(), "Bob R. Ecipient %s" % ctx.rbytes(5).hex(), "zoë-dritte-%s" % ctx.rbytes(4).hex()]
        kps = keypairs(ctx, len(names))
        pws = ["unlock-%d-%s" % (i, ctx.rbytes(3).hex()) for i in range(len(names))]
        kr_text, _ = make_keyring([(nm, sk, pk, pw.encode(), ctx.rbytes(32)) for nm, (sk, pk), pw in zip(names, kps, pws)])
        kr = os.path.join(wd, "keyring.txt")
        open(kr, "w", encoding="utf-8").write(kr_text)
        needles = []
        for nm, (sk, pk) in zip(names, kps):
            needles += needles_for(pk, "public-key-of[%s]" % nm)
            needles += [("name[%s]" % nm, nm.encode("utf-8")), ("name-latin1[%s]" % nm, nm.encode("latin1", "replace"))]
        return names, kps, pws, kr, needles

    def c08_judge_file(self, ctx, F, hdr, n, inp, needles):
        """the statement of C08 on one encrypted file F (bytes) of an n-byte plaintext; returns (view, records) or None"""
        magic = PROLOGUE if hdr == 132 else PASS_MAGIC
        hits = find_needles(F, needles)
        self.check(ctx, not hits, inp, "no keyring name, public key (raw / base64 / keyring encoding / hex) or password in the output", "found " + ", ".join(hits))
        if not self.check(ctx, F[:4] == magic, inp, "the output starts with the format magic " + magic.hex(), F[:48].hex() + " = " + repr(F[:48])):
            return None
        bad, nrec = c08_wellformed(F, hdr, n)
        if not self.check(ctx, bad is None, inp,
                          "after the %d header bytes the file is exactly a sequence of chunk records (counter i, last flag on the final record only, "
                          "final record ends at end-of-file, lengths sum to the %d plaintext bytes), i.e. %d + 32*records + %d bytes long" % (hdr, n, hdr, n),
                          "%d bytes: %s" % (len(F), bad)):
            return None
        self.check(ctx, len(F) == hdr + 32 * nrec + n, inp, "length = %d + 32*%d + %d = %d" % (hdr, nrec, n, hdr + 32 * nrec + n), "%d bytes" % len(F))
        return view_of(F, hdr)[0], nrec

    def cli_sizes(self, ctx):
        rng = ctx.rng
        full = ctx.thorough()
        wd = tempfile.mkdtemp(prefix="kv_c08z_", dir="/tmp")
        try:
            names, kps, pws, kr, needles = self.c08_keyring(ctx, wd)
            sizes = [0, 1, BIG - 1, BIG, BIG + 1, 2 * BIG - 1, 2 * BIG, 2 * BIG + 1, 3 * BIG]
            mult = rng.randrange(4, 9)
            sizes += [mult * BIG - 1, mult * BIG, mult * BIG + 1]
            if full:
                sizes += [3 * BIG - 1, 3 * BIG + 1, 16 * BIG, 16 * BIG + 1] + [rng.randrange(1, 20) * BIG + rng.choice([-1, 0, 0, 1]) for _ in range(8)]
            sizes = sorted(set(sizes))
            dests = ["new", "stdout", "existing+32", "existing-1", "existing*2"]
            jobs, meta = [], []
            for n in sizes:
                P = ctx.rbytes(n)
                pf = os.path.join(wd, "p_%d.bin" % n)
                open(pf, "wb").write(P)
                streams = {"encrypt": ctx.rbytes(64), "password-encrypt": ctx.rbytes(32)}
                for kind in ("encrypt", "password-encrypt"):
                    hdr = 132 if kind == "encrypt" else 36
                    expect = hdr + 32 * max(1, -(-n // BIG)) + n
                    combos = [(src, d) for src in ("file", "stdin") for d in dests]
                    if not full:
                        # every size: file -> new path, file -> stdout, and three more drawn from the rest
                        rest = [c for c in combos if c not in (("file", "new"), ("file", "stdout"))]
                        combos = [("file", "new"), ("file", "stdout")] + rng.sample(rest, 3)
                    for (src, dest) in combos:
                        a, b = rng.sample(range(len(names)), 2)
                        pw = rng.choice(["a pass phrase of some length", "x", "pässwörd-%s" % ctx.rbytes(3).hex()])
                        o = None
                        if dest != "stdout":
                            o = os.path.join(wd, "o_%d_%s_%s_%s.bin" % (n, kind, src, dest.replace("*", "x")))
                            if dest != "new":
                                old_len = {"existing+32": expect + 32, "existing-1": max(0, expect - 1), "existing*2": 2 * expect}[dest]
                                open(o, "wb").write(((names[a] + "|" + names[b] + "|").encode("utf-8") * (old_len // 20 + 1))[:old_len])
                        use_stream = src == "file"
                        if kind == "encrypt":
                            args = ["encrypt"] + ([pf] if src == "file" else []) + ["-t", names[b], "-f", names[a], "-k", kr, "--env-pass"]
                            env = {"KESTREL_PASSWORD": pws[a]}
                        else:
                            args = ["password", "encrypt"] + ([pf] if src == "file" else []) + ["--env-pass"]
                            env = {"KESTREL_PASSWORD": pw}
                        if o:
                            args += ["-o", o]
                        if use_stream:
                            env["KESTREL_VERIF_RANDOM"] = streams[kind].hex()
                        jobs.append({"args": args, "env": env, "stdin": P if src == "stdin" else None})
                        meta.append({"kind": kind, "n": n, "src": src, "dest": dest, "out": o, "hdr": hdr, "pw": pw if kind != "encrypt" else None,
                                     "group": (kind, n) if use_stream else None})
            results = cli_many(jobs)
            views = collections.defaultdict(set)
            for j, m, (rc, so, se) in zip(jobs, meta, results):
                inp = {"driver": "cli", "argv": j["args"], "env": j["env"], "plaintext_len": m["n"], "plaintext_from": m["src"],
                       "output": {"new": "-o, a path that does not exist", "stdout": "standard output (a pipe)"}.get(
                           m["dest"], "-o, a path that holds a file of (expected result %s) bytes of keyring names" % m["dest"][8:]),
                       "keyring_names": names}
                self.ran(ctx, "cli-sizes/%s/%s->%s" % (m["kind"], m["src"], m["dest"]))
                self.count(ctx, "cli-sizes-length:%s" % ("multiple-of-64KiB" if m["n"] and m["n"] % BIG == 0 else
                                                         "64KiB*k+-1" if m["n"] > 1 and (m["n"] + 1) % BIG in (0, 2) else "0-or-1"))
                F = so if m["out"] is None else (open(m["out"], "rb").read() if os.path.exists(m["out"]) else None)
                if not self.check(ctx, rc == 0 and F is not None, inp, "the CLI run succeeds and writes the file", "rc=%d %s" % (rc, se[-200:])):
                    continue
                nd = list(needles) + ([("password", m["pw"].encode("utf-8"))] if m["pw"] and len(m["pw"]) >= 10 else [])
                got = self.c08_judge_file(ctx, F, m["hdr"], m["n"], inp, nd)
                if got and m["src"] == "file":
                    self.count(ctx, "cli-file-input-one-record-per-64KiB:%s" % ("yes" if got[1] == max(1, -(-m["n"] // BIG)) else "NO"))
                if got and m["group"]:
                    views[m["group"]].add(got[0])
            for g, vs in views.items():
                self.check(ctx, len(vs) == 1, {"driver": "cli", "group": "%s of %d bytes from a regular file under one random stream: all identities / passwords, -o (new, existing) and standard output" % g},
                           "identical cleartext views and lengths whatever the identities and wherever the output goes", "%d different views" % len(vs))
            self.sample(ctx, {"gen": "cli-sizes", "sizes": sizes, "runs": len(jobs)})
        finally:
            shutil.rmtree(wd, ignore_errors=True)

    # ---------------------------------------------------------------- real CLI on a (pseudo-)terminal, passwords prompted for
    def pty_part(self, ctx):
        rng = ctx.rng
        full = ctx.thorough()
        wd = tempfile.mkdtemp(prefix="kv_c08t_", dir="/tmp")
        try:
            names, kps, pws, kr, needles = self.c08_keyring(ctx, wd)
            lens = [0, 1, 10, 1000, BIG]
            pfs = {}
            for n in lens:
                pfs[n] = os.path.join(wd, "p_%d.bin" % n)
                open(pfs[n], "wb").write(ctx.rbytes(n))
            runs = []

            def add(kind, ctty, so, se, n, to_file, script):
                i = len(runs)
                a, b = rng.sample(range(len(names)), 2)
                pw = "file password %s" % ctx.rbytes(3).hex()
                o = os.path.join(wd, "out_%d.bin" % i) if to_file else None
                if kind == "encrypt":
                    argv = ["encrypt", pfs[n], "-t", names[b], "-f", names[a], "-k", kr]
                    typed = [pws[a]] if script == "right" else ["not " + pws[a], pws[a]]
                else:
                    argv = ["password", "encrypt", pfs[n]]
                    typed = [pw, pw] if script == "right" else [pw, pw + " typo", pw, pw]
                if o:
                    argv += ["-o", o]
                runs.append({"kind": kind, "n": n, "o": o, "script": script, "pw": pw, "hdr": 132 if kind == "encrypt" else 36,
                             "job": {"argv": [vlib.CLIDRV] + argv, "env": cli_env(), "ctty": ctty, "stdin": "pty", "stdout": so, "stderr": se,
                                     "stdout_path": os.path.join(wd, "stdout_%d" % i), "stderr_path": os.path.join(wd, "stderr_%d" % i),
                                     "typed": typed, "timeout": 120}})
            for ctty in (True, False):
                for so in ("pipe", "file"):
                    for se in ("pipe", "file", "pty"):
                        for kind in ("encrypt", "password-encrypt"):
                            add(kind, ctty, so, se, rng.choice(lens), False, "right")
            for _ in range(24 if full else 6):        # -o: standard output may be anything, the terminal included
                add(rng.choice(["encrypt", "password-encrypt"]), rng.random() < 0.5, rng.choice(["pipe", "file", "pty"]),
                    rng.choice(["pipe", "file", "pty"]), rng.choice(lens), True, "right")
            for _ in range(16 if full else 6):        # a wrong password / a mismatching confirmation first, then the right one
                add(rng.choice(["encrypt", "password-encrypt"]), rng.random() < 0.5, rng.choice(["pipe", "file"]),
                    rng.choice(["pipe", "file", "pty"]), rng.choice(lens), rng.random() < 0.25, "retry")
            with ThreadPoolExecutor(max_workers=vlib.NPROC) as ex:
                results = list(ex.map(lambda ru: c08_ptyrun(ru["job"]), runs))
            for ru, res in zip(runs, results):
                j = ru["job"]
                inp = {"driver": "cli-on-pty (tools/ptyrun.py)", "argv": j["argv"][1:], "plaintext_len": ru["n"], "keyring_names": names,
                       "terminal": {"standard_input": "pseudo-terminal", "controlling_terminal": "the pseudo-terminal (/dev/tty opens)" if j["ctty"] else "none (setsid; /dev/tty does not open)",
                                    "standard_output": j["stdout"], "standard_error": j["stderr"]},
                       "typed_at_the_prompts": j["typed"], "ptyrun_job": dict(j, env="the caller's environment without KESTREL_* variables")}
                self.ran(ctx, "cli-pty/%s/%s%s" % (ru["kind"], ru["script"], "/-o" if ru["o"] else "/to-stdout"))
                self.count(ctx, "cli-pty-env:ctty=%s,stdout=%s,stderr=%s" % ("yes" if j["ctty"] else "no", j["stdout"], j["stderr"]))
                if ru["o"]:
                    F = open(ru["o"], "rb").read() if os.path.exists(ru["o"]) else None
                    inp["output"] = "-o file"
                elif j["stdout"] == "pipe":
                    F = res["stdout"]
                    inp["output"] = "what arrived on standard output (a pipe)"
                else:
                    F = open(j["stdout_path"], "rb").read() if os.path.exists(j["stdout_path"]) else None
                    inp["output"] = "the regular file standard output was redirected to"
                what = "rc=%s sent=%s/%d %s stderr=%r terminal=%r" % (res.get("rc"), res.get("sent"), len(j["typed"]), res.get("error", ""),
                                                                     res["stderr"][-200:], res["pty"][-200:])
                if not self.check(ctx, res.get("rc") == 0 and F is not None, inp, "the CLI run succeeds once the password is typed", what):
                    continue
                nd = list(needles) + [("typed[%d]" % k, t.encode("utf-8")) for k, t in enumerate(j["typed"]) if len(t) >= 10]
                self.c08_judge_file(ctx, F, ru["hdr"], ru["n"], inp, nd)
                if ru["o"]:
                    # with -o nothing of the encrypted file is on standard output; what else is there is not C08's subject: recorded
                    other = res["stdout"] if j["stdout"] == "pipe" else (open(j["stdout_path"], "rb").read() if j["stdout"] == "file" else b"")
                    self.count(ctx, "cli-pty-with-o-standard-output-empty:%s" % ("yes" if not other else "NO"))
            self.sample(ctx, {"gen": "cli-pty", "runs": len(runs), "environments": "ctty x stdout{pipe,file,pty} x stderr{pipe,file,pty}"})
        finally:
            shutil.rmtree(wd, ignore_errors=True)

    def fresh_ephemeral(self, ctx):
        """"a fresh ephemeral public key": default encryptions (nothing injected, production random source) repeated in ONE
        process; bytes 4..36 pairwise distinct and never a party's key (statistical observation, as in C07)"""
        N = 2000 if ctx.thorough() else 260
        (s, spk), (r, rpk) = keypairs(ctx, 2)
        line = "key_enc %s %s %s none none none %s - - -" % (hexs(s), hexs(spk), hexs(rpk), hexs(ctx.rbytes(3)))
        res = drv(ctx.bin, ["setrand none"] + [line] * N)[1:]
        inp = {"driver": "libdrv", "lines": ["setrand none", line], "repeat": N, "note": "statistical observation; all runs in one driver process"}
        self.ran(ctx, "library-default-repeated", N)
        files = [unhex(x.get("out", "-")) for x in res]
        self.check(ctx, all(x.get("outcome") == "ok" for x in res) and all(len(f) == 132 + 32 + 3 for f in files), inp,
                   "every run succeeds with 167 bytes", [x.get("outcome") for x in res if x.get("outcome") != "ok"][:3])
        eph = [f[4:36] for f in files]
        first_dup = next((i for i, e in enumerate(eph) if e in eph[:i]), None)
        self.check(ctx, len(set(eph)) == len(eph), inp, "%d default encryptions in one process: the ephemeral public keys (bytes 4..36) are pairwise distinct" % N,
                   "%d distinct; run %s repeats the key of run %s" % (len(set(eph)), first_dup, eph.index(eph[first_dup]) if first_dup is not None else None))
        self.check(ctx, spk not in eph and rpk not in eph, inp, "bytes 4..36 are never a party's static public key", "static key used as ephemeral")
        self.check(ctx, len(set(f[0:4] + b"".join(x[0:16] for x in records(f, 132)) for f in files)) == 1, inp,
                   "apart from the ephemeral key the cleartext fields are identical in all runs", "different magic / record headers")

    # ---------------------------------------------------------------- operations AFTER a failed operation, same process, same thread
    RULE_AFTER_FAILURE = (
        "in-process sequences (ONE libdrv process, one thread): every way an operation can FAIL that the harness can provoke — key exchange "
        "refused (all-zero / low-order recipient key, with an injected and with a library-chosen ephemeral key; noise_encrypt alone), reader fault at "
        "read 0..3, writer fault and short write at write 0..5, flush fault, caught panics (31-byte payload key, 31-byte chunk key, HKDF length 0), "
        "and on the decrypt side wrong recipient, damaged / truncated / low-order-ephemeral files, reader and writer faults, garbage handshakes, a wrong "
        "password — singly and in bursts of 2..4, each followed ON THE SAME THREAD by ordinary operations (key_encrypt with every random value injected, "
        "with the random stream installed, with production randomness; noise_encrypt; pass_encrypt; key_decrypt / pass_decrypt of good files): every "
        "later output obeys the whole of C08 (exact length 132 (36) + 32*records + |P|, well-formed records to end-of-file, the predicted cleartext view "
        "magic / fresh ephemeral key (salt) / record headers and nothing else, no needle), is opened by the recipient to the plaintext, and equals the "
        "model's output (the model has no memory of earlier operations)")
    rule = rule + " " + RULE_AFTER_FAILURE

    def after_failure_sequences(self, ctx):
        rng = ctx.rng
        full = ctx.thorough()
        (s, spk), (r, rpk), (s2, spk2), (r2, rpk2), (e, epk) = keypairs(ctx, 5)
        lows = [bytes.fromhex(x) for x in props.C19.LOW_ORDER]
        lows_sel = lows if full else [lows[0], lows[1]] + rng.sample(lows[2:], 2)
        P1, P2 = ctx.rbytes(7), ctx.rbytes(5)
        pw_good = b"sequence pw"
        mk = [Case("key_enc", s=s, spk=spk, r=rpk, e=e, epk=epk, pk=ctx.rbytes(32), data=P1),
              Case("key_enc", s=s2, spk=spk2, r=rpk, e=e, epk=epk, pk=ctx.rbytes(32), data=P2, rs="c2,c3"),
              Case("pass_enc", pw=pw_good, salt=ctx.rbytes(32), data=P1)]
        vlib.run_impl(ctx.bin, mk)
        if not all(c.result["code"] == 0 for c in mk):
            self.machinery(ctx, "C08 sequences: the files for the decrypt side could not be made: %s" % [c.result["outcome"] for c in mk])
            return
        F1, F2, FP = [c.result["out"] for c in mk]
        goods = [(F1, P1, spk), (F2, P2, spk2)]
        o_ = lambda b: "none" if b is None else hexs(b)
        parties = [(s, spk, rpk, r), (s2, spk2, rpk2, r2), (s, spk, rpk2, r2), (r, rpk, spk, s)]     # sender sk, sender pk, recipient pk, recipient sk

        def parts_for(n):
            if n == 0:
                return []
            return rng.choice(all_partitions(n, n)) if n <= 5 else rng.choice([[], [1, 1], [n // 2]])

        def file_judge(hdr, head, n, parts, needles):
            sizes = sim_reads(n, parts) or [0]
            magic = PROLOGUE if hdr == 132 else PASS_MAGIC

            def f(res):
                if res["code"] != 0:
                    return ("the encryption succeeds", res["outcome"])
                F = res["out"]
                want_len = hdr + 32 * len(sizes) + n
                if len(F) != want_len:
                    return ("length = %d + 32*%d + %d = %d" % (hdr, len(sizes), n, want_len), "%d bytes: %s" % (len(F), F[:200].hex()))
                bad, _ = c08_wellformed(F, hdr, n)
                if bad:
                    return ("after the %d header bytes the file is exactly a sequence of chunk records ending at end-of-file" % hdr, bad)
                if head is not None:
                    want_v = magic + head + b"".join(j.to_bytes(8, "big") + (1 if j == len(sizes) - 1 else 0).to_bytes(4, "big") + sizes[j].to_bytes(4, "big")
                                                    for j in range(len(sizes)))
                    v, _ = view_of(F, hdr)
                    if v != want_v:
                        return ("cleartext view = magic, the ephemeral key / salt of THIS operation, per-record (counter, last flag, length): " + want_v.hex(), v.hex())
                hits = find_needles(F, needles)
                if hits:
                    return ("no identity material anywhere in the file", "found " + ", ".join(hits))
                return None
            return f

        def nd(a):
            return needles_for(a[1], "sender-public-key") + needles_for(a[2], "recipient-public-key")
        # ---- ordinary operations (each call makes a new step)
        budget = {"pass": 6 if full else 2}

        def n_key_injected():
            a = rng.choice(parties)
            n = rng.choice([0, 1, 5, 33])
            parts = parts_for(n)
            c = Case("key_enc", s=a[0], spk=a[1], r=a[2], e=e, epk=epk, pk=ctx.rbytes(32), data=ctx.rbytes(n), rs=script_of(parts))
            return {"label": "key_encrypt/all-injected", "case": c, "judge": file_judge(132, epk, n, parts, nd(a)), "open": (a, c.a["data"])}

        def n_key_stream():
            a = rng.choice(parties)
            n = rng.choice([0, 3, 33])
            parts = parts_for(n)
            stream = ctx.rbytes(64 + rng.choice([0, 7]))
            data = ctx.rbytes(n)
            return {"label": "key_encrypt/random-stream", "op": "key_enc", "main": 1, "stream": stream, "a": a, "data": data, "parts": parts,
                    "lines": ["setrand %s" % hexs(stream),
                              "key_enc %s %s %s none none none %s %s - -" % (hexs(a[0]), hexs(a[1]), hexs(a[2]), hexs(data), script_of(parts)),
                              "randleft", "setrand none"], "open": (a, data)}

        def n_key_production():
            a = rng.choice(parties)
            n = rng.choice([0, 4, 33])
            data = ctx.rbytes(n)
            return {"label": "key_encrypt/production-randomness", "op": "key_enc", "main": 0, "production": True,
                    "lines": ["key_enc %s %s %s none none none %s - - -" % (hexs(a[0]), hexs(a[1]), hexs(a[2]), hexs(data))],
                    "judge": file_judge(132, None, n, [], nd(a)), "open": (a, data)}

        def n_noise():
            a = rng.choice(parties)
            c = Case("noise_enc", s=a[0], spk=a[1], r=a[2], e=e, epk=epk, prologue=rng.choice([PROLOGUE, b"", b"other"]), payload=ctx.rbytes(32))

            def f(res):
                if res["code"] != 0 or len(res["out"]) != 128 or res["out"][:32] != epk:
                    return ("noise_encrypt succeeds with a 128-byte message = ephemeral key (32) || sealed sender key (48) || sealed payload key (48)",
                            "%s, %d bytes: %s" % (res["outcome"], len(res["out"]), res["out"][:200].hex()))
                hits = find_needles(res["out"], nd(a))
                return ("no identity material in the handshake message", "found " + ", ".join(hits)) if hits else None
            return {"label": "noise_encrypt/injected", "case": c, "judge": f}

        def n_key_dec():
            F, P, sender = rng.choice(goods)
            c = Case("key_dec", r=r, rpk=rpk, data=F, rs=rng.choice(["-", "c1,c3,c40", "c4,c128"]))

            def f(res):
                if res["code"] != 0 or res["out"] != P or res["extra"] != sender:
                    return ("a good file is decrypted to its %d plaintext bytes and names its sender, whatever failed before" % len(P),
                            "%s out=%s sender=%s" % (res["outcome"], res["out"].hex(), res["extra"].hex()))
                return None
            return {"label": "key_decrypt/good-file", "case": c, "judge": f}

        def n_pass_enc():
            n = rng.choice([0, 5])
            parts = parts_for(n)
            pw, salt = rng.choice([b"pw one", b"another password, longer"]), ctx.rbytes(32)
            c = Case("pass_enc", pw=pw, salt=salt, data=ctx.rbytes(n), rs=script_of(parts))
            return {"label": "pass_encrypt", "case": c, "judge": file_judge(36, salt, n, parts, [("password", pw)] if len(pw) >= 10 else [])}

        def n_pass_dec():
            c = Case("pass_dec", pw=pw_good, data=FP)
            return {"label": "pass_decrypt/good-file", "case": c,
                    "judge": lambda res: None if res["code"] == 0 and res["out"] == P1 else ("a good password file is decrypted, whatever failed before", res["outcome"])}
        light = [n_key_injected, n_key_stream, n_key_production, n_noise, n_key_dec]

        def normals():
            out = [rng.choice([n_key_injected, n_key_stream, n_key_production])(), n_key_dec()]
            if budget["pass"] > 0 and rng.random() < 0.15:
                budget["pass"] -= 1
                out.append(rng.choice([n_pass_enc, n_pass_dec])())
            else:
                out.append(rng.choice(light)())
            rng.shuffle(out)
            return out
        # ---- provocations: factories of failing steps
        data5 = ctx.rbytes(5)
        big = "c99999"
        provs = []

        def P_(label, mk_case=None, lines=None, op=None):
            provs.append((label, mk_case, lines, op))
        for u in lows_sel:
            P_("key_encrypt to a low-order recipient key %s.. (ephemeral injected)" % u[:4].hex(),
               lambda u=u: Case("key_enc", s=s, spk=spk, r=u, e=e, epk=epk, pk=ctx.rbytes(32), data=data5))
            P_("key_encrypt to a low-order recipient key %s.. (ephemeral left to the library)" % u[:4].hex(),
               lines=["key_enc %s %s %s none none none %s - - -" % (hexs(s), hexs(spk), hexs(u), hexs(data5))], op="key_enc")
            P_("noise_encrypt to a low-order recipient key %s.." % u[:4].hex(),
               lambda u=u: Case("noise_enc", s=s2, spk=spk2, r=u, e=e, epk=epk, prologue=PROLOGUE, payload=ctx.rbytes(32)))
        P_("noise_encrypt to a low-order recipient key (ephemeral left to the library)",
           lines=["noise_enc %s %s %s none none %s %s" % (hexs(s), hexs(spk), hexs(lows[0]), hexs(PROLOGUE), hexs(ctx.rbytes(32)))], op="noise_enc")
        P_("key_encrypt to the all-zero recipient key under a low-order sender public key",
           lambda: Case("key_enc", s=s, spk=lows[1], r=lows[0], e=e, epk=epk, pk=ctx.rbytes(32), data=data5))
        for k in range(0, 4):
            for tok in (("o", "u") if full or k < 2 else ("o",)):
                P_("key_encrypt: reader fault (%s) at read %d" % (tok, k),
                   lambda k=k, tok=tok: Case("key_enc", s=s, spk=spk, r=rpk, e=e, epk=epk, pk=ctx.rbytes(32), data=data5, rs=",".join(["c2"] * k + [tok])))
        for k in range(0, 6):
            for tok in ("o", "z"):
                if tok == "z" and not full and k % 2:
                    continue
                P_("key_encrypt: writer %s at write %d" % ("fault" if tok == "o" else "accepts 0 bytes", k),
                   lambda k=k, tok=tok: Case("key_enc", s=s, spk=spk, r=rpk, e=e, epk=epk, pk=ctx.rbytes(32), data=data5, rs="c2,c3", ws=",".join([big] * k + [tok])))
        for k in range(0, 3):
            P_("key_encrypt: flush fault at flush %d" % k,
               lambda k=k: Case("key_enc", s=s, spk=spk, r=rpk, e=e, epk=epk, pk=ctx.rbytes(32), data=data5, rs="c2,c3", fs=",".join(["k"] * k + ["o"])))
        P_("key_encrypt with a 31-byte payload key (panic, caught)", lambda: Case("key_enc", s=s, spk=spk, r=rpk, e=e, epk=epk, pk=ctx.rbytes(31), data=data5))
        P_("chunk encryption with a 31-byte key (panic, caught)", lambda: Case("enc_chunks", key=ctx.rbytes(31), aad=b"", cs=4, data=b"abcdefgh"))
        P_("HKDF of length 0 (panic, caught)", lambda: Case("hkdf", salt=b"", ikm=ctx.rbytes(32), info=b"", n=0))
        # decrypt side
        P_("key_decrypt by another recipient", lambda: Case("key_dec", r=r2, rpk=rpk2, data=F1))
        P_("key_decrypt with a recipient public key that does not match", lambda: Case("key_dec", r=r, rpk=rpk2, data=F1))
        for off in ([4, 36, 84, 131, 132, 140, 148, len(F1) - 1] if full else [4, 84, 148, len(F1) - 1]):
            P_("key_decrypt of a file with byte %d changed" % off,
               lambda off=off: Case("key_dec", r=r, rpk=rpk, data=F1[:off] + bytes([F1[off] ^ (1 << rng.randrange(8))]) + F1[off + 1:]))
        for cut in ([0, 3, 4, 35, 36, 131, 132, 147, 148, len(F1) - 1] if full else [3, 35, 131, 147, len(F1) - 1]):
            P_("key_decrypt of a file cut after %d bytes" % cut, lambda cut=cut: Case("key_dec", r=r, rpk=rpk, data=F1[:cut]))
        for u in lows_sel[:2]:
            P_("key_decrypt of a file whose ephemeral key is low-order %s.." % u[:4].hex(), lambda u=u: Case("key_dec", r=r, rpk=rpk, data=F1[:4] + u + F1[36:]))
        for k in range(0, 4):
            P_("key_decrypt: reader fault at read %d" % k, lambda k=k: Case("key_dec", r=r, rpk=rpk, data=F2, rs=",".join([big] * k + ["o"])))
        for k in range(0, 2):
            P_("key_decrypt: writer fault at write %d" % k, lambda k=k: Case("key_dec", r=r, rpk=rpk, data=F2, ws=",".join([big] * k + ["o"])))
        P_("noise_decrypt of 128 random bytes", lambda: Case("noise_dec", r=r, rpk=rpk, prologue=PROLOGUE, msg=ctx.rbytes(128)))
        P_("noise_decrypt of a short message", lambda: Case("noise_dec", r=r, rpk=rpk, prologue=PROLOGUE, msg=F1[4:4 + rng.choice([0, 31, 32, 80, 127])]))
        P_("pass_decrypt with a wrong password", lambda: Case("pass_dec", pw=b"not the password", data=FP))
        P_("pass_decrypt of a key-mode file", lambda: Case("pass_dec", pw=pw_good, data=F1))

        def prov_step(p):
            label, mk_case, lines, op = p
            if mk_case is not None:
                return {"label": label, "case": mk_case(), "provocation": True}
            return {"label": label, "lines": list(lines), "op": op, "main": 0, "provocation": True}
        # ---- the script: controls before any failure, every provocation alone, then bursts
        seq = [f() for f in light] + [n_key_injected(), n_key_dec()]
        for p in provs:
            seq.append(prov_step(p))
            seq += normals()
        for _ in range(12 if full else 4):
            for p in rng.sample(provs, rng.randrange(2, 5)):
                seq.append(prov_step(p))
            seq += normals()
        # fresh keys of the random-stream steps (a process of its own: not part of the sequence)
        st_steps = [st for st in seq if "stream" in st]
        for st, x in zip(st_steps, drv(ctx.bin, ["xpub %s" % hexs(st["stream"][32:64]) for st in st_steps])):
            st["judge"] = file_judge(132, unhex(x.get("out", "-")), len(st["data"]), st["parts"], nd(st["a"]))
        bodies = []
        for i, st in enumerate(seq):
            st["at"] = len(bodies)
            if st.get("case") is not None:
                st["case"].id = str(i + 1)
                st["op"], st["main"] = st["case"].op, 0
                st["lines"] = [st["case"].rust_line().split(" ", 1)[1]]
            bodies += st["lines"]
        replies = drv(ctx.bin, bodies)
        n_after, last_fail, failed_so_far = 0, None, 0
        opens, eph = [], []
        fresh_items, fresh_inp, fresh_impl, fresh_show = [], {}, {}, {}
        for i, st in enumerate(seq):
            rr = replies[st["at"] + st["main"]]
            res = vlib.parse_result(st["op"], rr["raw"])
            st["res"] = res
            if st.get("case") is not None:
                st["case"].result = res
            if st.get("provocation"):
                self.ran(ctx, "sequence/provocation")
                failed = res["code"] != 0
                self.count(ctx, "sequence-provocation-fails:%s" % ("yes" if failed else "NO (%s)" % st["label"]))
                if failed:
                    last_fail, failed_so_far = st["label"], failed_so_far + 1
                continue
            self.ran(ctx, "sequence/%s/%s" % (st["label"], "after-a-failure" if failed_so_far else "control-before-any-failure"))
            n_after += 1 if failed_so_far else 0
            inp = {"driver": "libdrv", "oracle": None, "lines": bodies[:st["at"] + len(st["lines"])],
                   "note": "ALL lines run in this order in ONE driver process (one thread); the judged operation is line %d (0-based), %s; the last failed "
                           "operation before it: %s; %d operations failed before it" % (st["at"] + st["main"], st["label"], last_fail, failed_so_far)}
            st["inp"] = inp
            msg = st["judge"](res)
            self.check(ctx, msg is None, inp, "%s after earlier failed operations on the same thread: %s" % (st["label"], msg[0] if msg else ""), msg[1] if msg else None)
            if "stream" in st:
                left = replies[st["at"] + 2]
                self.check(ctx, left.get("n") == str(len(st["stream"]) - 64), inp, "exactly 64 stream bytes are drawn (payload key, ephemeral key)", left["raw"][:100])
                a = st["a"]
                term = "run_key_enc_fresh [] %s %s %s %s %s None None None %s %s [] []" % (
                    g_bytes(st["stream"][0:32]), g_bytes(st["stream"][32:64]), g_bytes(a[0]), g_bytes(a[1]), g_bytes(a[2]), g_bytes(st["data"]),
                    g_rscript(script_of(st["parts"])))
                fresh_items.append((i, "obs_eqb (%s) %s" % (term, g_obs(res)), 10))
                fresh_show[i] = "show (%s)" % term
                fresh_inp[i], fresh_impl[i] = inp, rr["raw"][:400]
            if st.get("open") and msg is None and res["code"] == 0:
                a, data = st["open"]
                opens.append((st, "key_dec %s %s %s - - -" % (hexs(a[3]), hexs(a[2]), hexs(res["out"])), data, a[1]))
                if st.get("production"):
                    eph.append((res["out"][4:36], st))
        # every file made after a failure is opened by its recipient (a process of its own)
        for (st, line, data, sender), x in zip(opens, drv(ctx.bin, [o[1] for o in opens])):
            kd = vlib.parse_result("key_dec", x["raw"])
            self.check(ctx, kd["code"] == 0 and kd["out"] == data and kd["extra"] == sender, dict(st["inp"], then_in_a_new_process=[line]),
                       "the file is well formed for its recipient: it decrypts to the %d plaintext bytes and names the sender" % len(data),
                       "%s out=%s" % (kd["outcome"], kd["out"][:40].hex()))
        keys = set([spk, rpk, spk2, rpk2])
        for v, st in eph:
            self.check(ctx, v not in keys and [x[0] for x in eph].count(v) == 1, st["inp"],
                       "bytes 4..36 of a default encryption are a fresh ephemeral key: no party's key, and different from every other file of the sequence", v.hex())
        # model: the deterministic steps (provocations included) through the case runners, the random-stream steps through run_key_enc_fresh
        cases = [st["case"] for st in seq if st.get("case") is not None]
        if not full:
            # the direct oracles above judge EVERY ordinary step; the (costly: three X25519 per file in Gallina) model comparison takes a sample
            # of the deterministic steps in the quick tier and all of them in the thorough tier
            c_norm = [st["case"] for st in seq if st.get("case") is not None and not st.get("provocation")]
            c_prov = [st["case"] for st in seq if st.get("case") is not None and st.get("provocation")]
            cases = rng.sample(c_norm, min(10, len(c_norm))) + rng.sample(c_prov, min(4, len(c_prov)))
            fresh_items = rng.sample(fresh_items, min(3, len(fresh_items)))
            self.count(ctx, "sequence-steps-not-compared-with-the-model(quick tier sample)", len(c_norm) + len(c_prov) - len(cases))
        table = vlib.kdf_table(ctx.bin, cases)
        log = vlib.run_model(cases, table, ctx.pid + "q")
        bad = [c for c in cases if c.agree is not True]
        ctx.agreed += len(cases) - len(bad)
        self.count(ctx, "model:sequence", len(cases))
        if bad:
            shown = vlib.run_model(bad[:6], table, ctx.pid + "qs", show=True)
            for c in bad[:20]:
                ctx.disagreements.append({"input": dict(c.full(), note="step %s of the in-process sequence" % c.id), "implementation": c.result["raw"][:600],
                                          "model": shown.get(c.id, "model evaluation failed" if c.agree is None else "?")})
            ctx.broken.append({"kind": "correspondence", "what": "correspondence C08/sequence: model and implementation differ on %d of %d steps of the in-process "
                               "sequence%s" % (len(bad), len(cases), (" [" + log[-200:] + "]") if log else "")})
        res_m, log = coq_eval(ctx.pid + "y", fresh_items)
        self.model_results(ctx, "sequence/random-stream", fresh_items, res_m, log, fresh_inp, fresh_impl, fresh_show)
        self.count(ctx, "sequence-lines", len(bodies))
        self.count(ctx, "sequence-ordinary-operations-after-a-failure", n_after)
        self.sample(ctx, {"gen": "sequence", "lines": len(bodies), "provocations": len([x for x in seq if x.get("provocation")]),
                          "ordinary_operations_after_a_failure": n_after})

    def library_mixed(self, ctx):
        """half-injected ephemeral pairs: (Some e, None) and (None, Some epk).  noise.rs::init_x keeps an injected pair only
        when BOTH halves are given, so the ephemeral key is fresh: it comes from the random stream (installed with setrand;
        the same blocks go to the model runner run_key_enc_fresh)."""
        rng = ctx.rng
        full = ctx.thorough()
        G = 5 if full else 3
        ids = keypairs(ctx, 2 * G + 1)
        e_inj, epk_inj = ids[-1]
        lens = [0, 5, 33] if full else [0, 33]
        o_ = lambda b: "none" if b is None else hexs(b)
        specs = []
        for combo in ("e-only", "epk-only"):
            for li, n in enumerate(lens):
                for pk_given in ([True, False] if full else [li % 2 == 0]):
                    stream = ctx.rbytes((32 if pk_given else 64) + rng.choice([0, 7]))
                    pk = ctx.rbytes(32) if pk_given else None
                    parts = [] if n == 0 else rng.choice(all_partitions(n, n) if n <= 5 else [[], [1, 1], [n // 2]])
                    for k in range(G):
                        (s, spk), (r, rpk) = ids[2 * k], ids[2 * k + 1]
                        specs.append({"combo": combo, "n": n, "pk": pk, "stream": stream, "parts": parts, "s": s, "spk": spk, "r": r, "rpk": rpk,
                                      "e": e_inj if combo == "e-only" else None, "epk": epk_inj if combo == "epk-only" else None,
                                      "data": ctx.rbytes(n), "g": (combo, n, pk_given)})
        bodies = []
        for sp in specs:
            bodies.append("setrand %s" % hexs(sp["stream"]))
            bodies.append("key_enc %s %s %s %s %s %s %s %s - -" % (hexs(sp["s"]), hexs(sp["spk"]), hexs(sp["rpk"]), o_(sp["e"]), o_(sp["epk"]),
                                                                  o_(sp["pk"]), hexs(sp["data"]), script_of(sp["parts"])))
            bodies.append("randleft")
        bodies.append("setrand none")
        res = drv(ctx.bin, bodies)
        fresh = drv(ctx.bin, ["xpub %s" % hexs(sp["stream"][(0 if sp["pk"] else 32):(32 if sp["pk"] else 64)]) for sp in specs])
        views = collections.defaultdict(set)
        items, inputs, impls, shows = [], {}, {}, {}
        for i, sp in enumerate(specs):
            r_, left = res[3 * i + 1], res[3 * i + 2]
            inp = {"driver": "libdrv", "lines": bodies[3 * i:3 * i + 3] + ["setrand none"], "oracle": None}
            self.ran(ctx, "library-mixed/%s/%s" % (sp["combo"], "payload-injected" if sp["pk"] else "payload-fresh"))
            ob = vlib.parse_result("key_enc", r_["raw"])
            if not self.check(ctx, ob["code"] == 0, inp, "encryption succeeds", r_["raw"][:300]):
                continue
            F = ob["out"]
            sizes = sim_reads(sp["n"], sp["parts"]) or [0]
            fe_pub = unhex(fresh[i].get("out", "-"))
            want_v = PROLOGUE + fe_pub + b"".join(j.to_bytes(8, "big") + (1 if j == len(sizes) - 1 else 0).to_bytes(4, "big") + sizes[j].to_bytes(4, "big")
                                                   for j in range(len(sizes)))
            v, _ = view_of(F, 132)
            self.check(ctx, len(F) == 132 + 32 * len(sizes) + sp["n"], inp, "length = 132 + 32*%d + %d" % (len(sizes), sp["n"]), "%d bytes" % len(F))
            self.check(ctx, v == want_v, inp,
                       "a half-injected ephemeral pair is not used: bytes 4..36 are the public key of a FRESH ephemeral key (the stream block), "
                       "cleartext view = " + want_v.hex(), v.hex())
            nd = needles_for(sp["spk"], "sender-public-key") + needles_for(sp["rpk"], "recipient-public-key")
            hits = find_needles(F, nd)
            self.check(ctx, not hits, inp, "no identity material anywhere in the file", "found " + ", ".join(hits))
            views[sp["g"]].add(v)
            fpk = "[]" if sp["pk"] else g_bytes(sp["stream"][0:32])
            fe = g_bytes(sp["stream"][(0 if sp["pk"] else 32):(32 if sp["pk"] else 64)])
            term = "run_key_enc_fresh [] %s %s %s %s %s %s %s %s %s %s [] []" % (fpk, fe, g_bytes(sp["s"]), g_bytes(sp["spk"]), g_bytes(sp["rpk"]),
                                                                                g_opt(sp["e"]), g_opt(sp["epk"]), g_opt(sp["pk"]), g_bytes(sp["data"]),
                                                                                g_rscript(script_of(sp["parts"])))
            items.append((i, "obs_eqb (%s) %s" % (term, g_obs(ob)), 10))
            shows[i] = "show (%s)" % term
            inputs[i], impls[i] = inp, r_["raw"][:400]
        for g, vs in views.items():
            self.check(ctx, len(vs) == 1, {"driver": "libdrv", "group": "half-injected ephemeral pair %s, length %d, payload key injected: %s" % g},
                       "identical cleartext views whatever the sender / recipient", "%d different views: %s" % (len(vs), [x.hex() for x in list(vs)[:2]]))
        res_m, log = coq_eval(ctx.pid + "x", items)
        self.model_results(ctx, "library-mixed", items, res_m, log, inputs, impls, shows)

    def library(self, ctx):
        rng = ctx.rng
        full = ctx.thorough()
        G = 5 if full else 3
        ids = keypairs(ctx, 2 * G + 1)
        e, epk = ids[-1]
        lens_small = [0, 1, 2, 5, 31, 32, 33, 100] if full else [0, 1, 5, 32, 33, 100]
        lens_big = [BIG - 1, BIG, BIG + 1] + ([2 * BIG, 2 * BIG + 1] if full else [])
        groups = []
        for n in lens_small + lens_big:
            plist = [[]]
            if 0 < n <= 5:
                allp = all_partitions(n, n)
                plist = allp if full else [[n]] + rng.sample(allp, min(2, len(allp)))
            elif 5 < n <= 100:
                plist = [[], [1] * min(n, 4), [rng.randrange(1, n) for _ in range(3)]] + ([[7] * 20] if full else [])
            elif n > 100:
                plist = [[], [BIG, 1], [4096] * 3] if (full or n == BIG + 1) else [[]]
            seen = set()
            for parts in plist:
                if tuple(parts) in seen:
                    continue
                seen.add(tuple(parts))
                groups.append((n, parts))
        cases, meta = [], []
        for gi, (n, parts) in enumerate(groups):
            rs = script_of(parts)
            P0 = ctx.rbytes(n)
            pk0 = ctx.rbytes(32)
            salt = ctx.rbytes(32)
            sizes = sim_reads(n, parts)
            for k in range(G):
                (s, spk), (r, rpk) = ids[2 * k], ids[2 * k + 1]
                if k == G - 1:
                    (s, spk), (r, rpk) = ids[1], ids[0]       # the first pair with the roles exchanged
                P = P0 if k % 2 == 0 else ctx.rbytes(n)
                pk = pk0 if k < 2 else ctx.rbytes(32)
                c = Case("key_enc", s=s, spk=spk, r=rpk, e=e, epk=epk, pk=pk, data=P, rs=rs, tags=["key", "len=%d" % n, "records=%d" % max(1, len(sizes))])
                cases.append(c)
                meta.append({"g": ("key", gi), "mode": "key", "n": n, "sizes": sizes, "head": epk, "hdr": 132,
                             "needles": needles_for(spk, "sender-public-key") + needles_for(rpk, "recipient-public-key")})
                pw = props.PASSWORDS[(gi + k) % len(props.PASSWORDS)] if k else b"hackme"
                if n > 100 and k > 1:
                    continue
                c = Case("pass_enc", pw=pw, salt=salt, data=P, rs=rs, tags=["pass", "len=%d" % n, "records=%d" % max(1, len(sizes))])
                cases.append(c)
                meta.append({"g": ("pass", gi), "mode": "pass", "n": n, "sizes": sizes, "head": salt, "hdr": 36,
                             "needles": ([("password", pw)] if len(pw) >= 10 else [])})
        views = collections.defaultdict(set)

        def oracle(m):
            def f(res):
                if res["code"] != 0:
                    return ("encryption succeeds", res["outcome"])
                F = res["out"]
                nrec = max(1, len(m["sizes"]))
                want_len = m["hdr"] + 32 * nrec + m["n"]
                if len(F) != want_len:
                    return ("length = %d + 32*%d + %d = %d" % (m["hdr"], nrec, m["n"], want_len), "%d bytes" % len(F))
                v, recs = view_of(F, m["hdr"])
                sz = m["sizes"] or [0]
                want_v = (PROLOGUE if m["mode"] == "key" else PASS_MAGIC) + m["head"] + b"".join(
                    i.to_bytes(8, "big") + (1 if i == len(sz) - 1 else 0).to_bytes(4, "big") + sz[i].to_bytes(4, "big") for i in range(len(sz)))
                if v != want_v:
                    return ("cleartext view = magic, ephemeral key / salt, per-record (counter, last flag, length): " + want_v.hex(), v.hex())
                hits = find_needles(F, m["needles"])
                if hits:
                    return ("no identity material anywhere in the file", "found " + ", ".join(hits))
                views[m["g"]].add(v)
                return None
            return f
        for c, m in zip(cases, meta):
            c.expect_fn = oracle(m)
        # model comparison: everything small, and the big ones of the first identity pair only (cost of vm_compute)
        small = [c for c, m in zip(cases, meta) if m["n"] <= 100]
        bigs = [c for c, m in zip(cases, meta) if m["n"] > 100]
        self.run_cases(ctx, small, model=True)
        self.run_cases(ctx, bigs[:6] if not full else bigs[:16], model=True)
        rest = bigs[6:] if not full else bigs[16:]
        if rest:
            self.run_cases(ctx, rest, model=False)
        for g, vs in views.items():
            self.check(ctx, len(vs) == 1, {"driver": "libdrv", "group": "%s mode, length %d, partition %s" % (g[0], groups[g[1]][0], groups[g[1]][1])},
                       "encryptions that differ only in the identities (keys / password), payload key and content have identical cleartext views",
                       "%d different views: %s" % (len(vs), [v.hex() for v in list(vs)[:2]]))
        self.count(ctx, "view-groups", len(views))
        self.count(ctx, "needles-per-key-file", 16)

    # ---------------------------------------------------------------- real CLI
    def cli_part(self, ctx):
        rng = ctx.rng
        full = ctx.thorough()
        wd = tempfile.mkdtemp(prefix="kv_c08_", dir="/tmp")
        try:
            names = ["alice-%s" % ctx.rbytes(6).hex(), "Bob Q. Example %s" % ctx.rbytes(5).hex(), "zürich-käthe-%s" % ctx.rbytes(4).hex(),
                     "carol_%s" % ctx.rbytes(6).hex()]
            kps = keypairs(ctx, len(names))
            pws = ["pw-%d" % i for i in range(len(names))]
            kr_text, _ = make_keyring([(nm, sk, pk, pw.encode(), ctx.rbytes(32)) for nm, (sk, pk), pw in zip(names, kps, pws)])
            kr = os.path.join(wd, "keyring.txt")
            open(kr, "w", encoding="utf-8").write(kr_text)
            needles = []
            for nm, (sk, pk) in zip(names, kps):
                needles += needles_for(pk, "public-key-of[%s]" % nm)
                needles += [("name[%s]" % nm, nm.encode("utf-8")), ("name-latin1[%s]" % nm, nm.encode("latin1", "replace"))]
            lens = [0, 1, 1000, BIG, BIG + 1] + ([3 * BIG + 7, 200000] if full else [200000])
            pairs = [(0, 1), (1, 0), (2, 3), (0, 0)] + ([(3, 2), (1, 2)] if full else [])
            jobs, meta = [], []
            for n in lens:
                P = ctx.rbytes(n)
                pf = os.path.join(wd, "p_%d.bin" % n)
                open(pf, "wb").write(P)
                stream = ctx.rbytes(64)
                for (a, b) in pairs:
                    for mode in ("stream", "idle"):
                        if mode == "idle" and (a, b) not in pairs[:2]:
                            continue
                        o = os.path.join(wd, "c_%d_%d_%d_%s.bin" % (n, a, b, mode))
                        env = {"KESTREL_PASSWORD": pws[a]}
                        if mode == "stream":
                            env["KESTREL_VERIF_RANDOM"] = stream.hex()
                        jobs.append({"args": ["encrypt", pf, "-t", names[b], "-f", names[a], "-o", o, "-k", kr, "--env-pass"], "env": env})
                        meta.append({"kind": "encrypt", "n": n, "from": a, "to": b, "mode": mode, "out": o, "P": P, "hdr": 132, "stdin": False,
                                     "group": ("encrypt", n) if mode == "stream" else None})
                # stdin input (chunking is whatever the pipe delivers): self-consistency only
                if n in (1000, 200000):
                    o = os.path.join(wd, "c_%d_stdin.bin" % n)
                    jobs.append({"args": ["encrypt", "-t", names[1], "-f", names[0], "-o", o, "-k", kr, "--env-pass"],
                                 "env": {"KESTREL_PASSWORD": pws[0]}, "stdin": P})
                    meta.append({"kind": "encrypt", "n": n, "from": 0, "to": 1, "mode": "idle", "out": o, "P": P, "hdr": 132, "stdin": True, "group": None})
                # password mode: two passwords, same stream
                st32 = ctx.rbytes(32)
                for pw in ("correct horse battery", "x"):
                    o = os.path.join(wd, "w_%d_%d.bin" % (n, len(pw)))
                    jobs.append({"args": ["password", "encrypt", pf, "-o", o, "--env-pass"], "env": {"KESTREL_PASSWORD": pw, "KESTREL_VERIF_RANDOM": st32.hex()}})
                    meta.append({"kind": "password-encrypt", "n": n, "mode": "stream", "out": o, "P": P, "hdr": 36, "stdin": False,
                                 "group": ("password", n), "pw": pw})
            # the -o path already holds a LONGER file whose text names the keyring's parties: it must be replaced, not overlaid
            old_text = ("previous contents of the output file\n" + kr_text).encode("utf-8")
            for n in ([0, 1000, BIG + 1] if full else [0, 1000]):
                P = ctx.rbytes(n)
                pf = os.path.join(wd, "q_%d.bin" % n)
                open(pf, "wb").write(P)
                old = old_text * (1 + (n + 400) // len(old_text))
                for kind in ("encrypt", "password-encrypt"):
                    o = os.path.join(wd, "pre_%s_%d.bin" % (kind, n))
                    open(o, "wb").write(old)
                    if kind == "encrypt":
                        jobs.append({"args": ["encrypt", pf, "-t", names[1], "-f", names[0], "-o", o, "-k", kr, "--env-pass"], "env": {"KESTREL_PASSWORD": pws[0]}})
                        meta.append({"kind": "encrypt", "n": n, "from": 0, "to": 1, "mode": "preexisting-longer-output", "out": o, "P": P, "hdr": 132,
                                     "stdin": False, "group": None, "old_len": len(old)})
                    else:
                        jobs.append({"args": ["password", "encrypt", pf, "-o", o, "--env-pass"], "env": {"KESTREL_PASSWORD": "some other pw"}})
                        meta.append({"kind": "password-encrypt", "n": n, "mode": "preexisting-longer-output", "out": o, "P": P, "hdr": 36, "stdin": False,
                                     "group": None, "pw": "some other pw", "old_len": len(old)})
            # self-addressed encryptions (to == from) and ordinary ones, written to STDOUT (a pipe) and to -o
            for n in ([0, 1000, BIG + 1] if full else [0, 1000]):
                P = ctx.rbytes(n)
                pf = os.path.join(wd, "s_%d.bin" % n)
                open(pf, "wb").write(P)
                for (a, b) in ((0, 0), (2, 2), (0, 1)):
                    for dest in ("stdout", "file"):
                        o = os.path.join(wd, "self_%d_%d_%d.bin" % (n, a, b)) if dest == "file" else None
                        jobs.append({"args": ["encrypt", pf, "-t", names[b], "-f", names[a], "-k", kr, "--env-pass"] + (["-o", o] if o else []),
                                     "env": {"KESTREL_PASSWORD": pws[a]}})
                        meta.append({"kind": "encrypt", "n": n, "from": a, "to": b, "mode": ("self-addressed" if a == b else "two-party") + "/to-" + dest,
                                     "out": o, "P": P, "hdr": 132, "stdin": False, "group": None, "from_stdout": dest == "stdout"})
                jobs.append({"args": ["password", "encrypt", pf, "--env-pass"], "env": {"KESTREL_PASSWORD": "pw to stdout"}})
                meta.append({"kind": "password-encrypt", "n": n, "mode": "to-stdout", "out": None, "P": P, "hdr": 36, "stdin": False, "group": None,
                             "pw": "pw to stdout", "from_stdout": True})
            results = cli_many(jobs)
            views = collections.defaultdict(set)
            decs = []
            for j, m, (rc, so, se) in zip(jobs, meta, results):
                inp = {"driver": "cli", "argv": j["args"], "env": j["env"], "plaintext_len": m["n"], "stdin_input": m["stdin"],
                       "keyring_names": names}
                if m.get("old_len"):
                    inp["output_file_before"] = "%d bytes: 'previous contents of the output file' + the keyring text, repeated" % m["old_len"]
                self.ran(ctx, "cli/%s/%s%s" % (m["kind"], m["mode"], "/stdin" if m["stdin"] else ""))
                if m.get("from_stdout"):
                    F = so          # the encrypted file is everything the process wrote to its standard output
                    inp["output"] = "standard output (a pipe)"
                else:
                    F = open(m["out"], "rb").read() if os.path.exists(m["out"]) else None
                if not self.check(ctx, rc == 0 and F is not None, inp, "the CLI run succeeds and writes the file", "rc=%d %s" % (rc, se[-200:])):
                    continue
                magic = PROLOGUE if m["hdr"] == 132 else PASS_MAGIC
                self.check(ctx, F[:4] == magic, inp, "the output starts with the format magic " + magic.hex(), F[:24].hex() + " = " + repr(F[:24]))
                v, recs = view_of(F, m["hdr"])
                nrec = len(recs)
                self.check(ctx, len(F) == m["hdr"] + 32 * nrec + m["n"] and sum(int.from_bytes(x[12:16], "big") for x in recs) == m["n"], inp,
                           "length = %d + 32*records + %d with the record lengths summing to the plaintext length" % (m["hdr"], m["n"]),
                           "%d bytes, %d records" % (len(F), nrec))
                wf_bad, _ = c08_wellformed(F, m["hdr"], m["n"])
                self.check(ctx, wf_bad is None, inp, "after the header the file is exactly a well-formed record sequence (counter i, last flag on the "
                           "final record only, which ends at end-of-file)", "%d bytes: %s" % (len(F), wf_bad))
                if not m["stdin"]:
                    # how many reads a regular file takes is the operating system's business: recorded, not judged
                    self.count(ctx, "cli-file-input-one-record-per-64KiB:%s" % ("yes" if nrec == max(1, -(-m["n"] // BIG)) else "NO"))
                nd = list(needles)
                if m["kind"] == "password-encrypt" and len(m["pw"]) >= 10:
                    nd.append(("password", m["pw"].encode()))
                hits = find_needles(F, nd)
                self.check(ctx, not hits, inp, "no keyring name and no public key of the keyring (raw / base64 / keyring encoding / hex) in the file",
                           "found " + ", ".join(hits))
                if m["group"]:
                    views[m["group"]].add(v)
                if m["kind"] == "encrypt":
                    sk, pk = kps[m["to"]]
                    decs.append((inp, m, Case("key_dec", r=sk, rpk=pk, data=F)))
            for g, vs in views.items():
                self.check(ctx, len(vs) == 1, {"driver": "cli", "group": "%s of %d bytes under one random stream, all sender/recipient pairs resp. passwords" % g},
                           "identical cleartext views and lengths whatever the identities", "%d different views" % len(vs))
            vlib.run_impl(ctx.bin, [c for _, _, c in decs])
            for inp, m, c in decs:
                # (round trip is C01 / C04's subject: recorded, not judged here)
                self.count(ctx, "cli-file-decrypts:%s" % ("yes" if c.result["code"] == 0 and c.result["out"] == m["P"] and c.result["extra"] == kps[m["from"]][1] else "NO"))
            self.count(ctx, "cli-needles", len(needles))
            self.sample(ctx, {"gen": "cli", "names": names, "lengths": lens, "pairs": len(pairs), "runs": len(jobs)})
        finally:
            shutil.rmtree(wd, ignore_errors=True)


# =========================================================================== C11
MON_PREAMBLE = """From Kestrel.Model Require Import Chunks Monitors.
Definition acc {A} (o : option A) : bool := match o with Some _ => true | None => false end.
Definition mon_enc (t : kdf_table) (key aad : bytes) (cs : N) (data : bytes)
  (rs : list rd_act) (ws : list wr_act) (fs : list fl_act) : bool :=
  let tr := trace (snd (encrypt_chunks (PR t) key aad cs (mk_io data rs ws fs))) in
  acc (emon_run tr) && forallb (enc_ev_ok (N.to_nat cs)) tr.
Definition mon_dec (t : kdf_table) (key aad : bytes) (cs : N) (data : bytes)
  (rs : list rd_act) (ws : list wr_act) (fs : list fl_act) : bool :=
  let tr := trace (snd (decrypt_chunks (PR t) key aad cs (mk_io data rs ws fs))) in
  acc (dmon_run tr) && acc (lmon_run tr) && forallb (dec_ev_ok (N.to_nat cs)) tr.
"""

SCRYPT_MEM = 128 * 32768 * 8          # the V array of scrypt(N = 32768, r = 8): constant, independent of the input
STREAM_BOUND = 4 * BIG + BIG          # two plaintext buffers + one AEAD output + slack


def trace_lookahead(tr):
    """max over the run of (raw read calls issued) - (records flushed out): computed on an implementation trace"""
    pend = best = 0
    for t in tr:
        if t[0] in (1, 2):
            pend += 1
            best = max(best, pend)
        elif t[0] == 5:
            pend = max(0, pend - 1)
    return best


# runs one command from a SMALL intermediate process and reports the command's own exit status and peak RSS.  (ru_maxrss of a child
# started directly from this Python process starts at the RSS of the forked copy of Python — hundreds of MiB once the test data is
# loaded — and would hide anything the command itself uses below that.)
C11_SPAWN_HELPER = r'''
import os, sys, resource, json
lim = int(sys.argv[1])
pid = os.fork()
if pid == 0:
    fd = os.open("/dev/null", os.O_WRONLY)
    os.dup2(fd, 1)
    if lim > 0:
        resource.setrlimit(resource.RLIMIT_AS, (lim * 1024, lim * 1024))
    os.execv(sys.argv[2], sys.argv[2:])
_, st, ru = os.wait4(pid, 0)
sys.stdout.write(json.dumps({"rc": os.waitstatus_to_exitcode(st), "maxrss": ru.ru_maxrss * 1024}))
'''


def c11_measured_run(argv, env, as_limit_kib=0, timeout=120):
    """{"rc", "maxrss" (bytes, of the command alone), "stderr"}; as_limit_kib > 0: RLIMIT_AS for the command"""
    p = subprocess.Popen([sys.executable, "-S", "-E", "-c", C11_SPAWN_HELPER, str(as_limit_kib), vlib.CLIDRV] + list(argv), env=cli_env(env),
                         stdin=subprocess.DEVNULL, stdout=subprocess.PIPE, stderr=subprocess.PIPE, start_new_session=True)

    def killall():
        try:
            os.killpg(p.pid, 9)
        except OSError:
            pass
    dog = threading.Timer(timeout, killall)
    dog.start()
    out, err = p.communicate()
    dog.cancel()
    try:
        d = json.loads(out.decode())
    except ValueError:
        d = {"rc": 124, "maxrss": 0}
    d["stderr"] = err.decode("utf-8", "replace")[-300:]
    return d


class C11(MiscProp):
    run_modules = MiscProp.run_modules + ('Model/Chunks.v', 'Model/Monitors.v')
    id = "C11"
    rule = ("measurement: the library encrypts a generator stream (never materialised) into a counting sink, and decrypts a "
            "temporary file produced by the library itself from a BufReader<File> into a counting sink, under a counting global "
            "allocator: sizes 0, 1, 65535, 65536, 65537, 1 MiB, 64 MiB (thorough: + 1 GiB, 4 GiB + 5 in the release build), both "
            "modes, both directions, dev and release profile, read sizes 65536 / 4096 / 100000 / 65535; oracle: peak live heap "
            "during the call <= 5*65536 (password mode: + scrypt's constant 32 MiB working array; heap sampled at every I/O call "
            "<= 5*65536 in all modes), equal within 4096 bytes for all lengths >= 128 KiB, output produced while reading "
            "(encrypt: never more than 2*65536+32 bytes read ahead of what was written; decrypt: at most one record read between "
            "two writes). model side: I/O traces (every read/write size) of enc_chunks/dec_chunks at chunk sizes 1..4 under all "
            "read partitions compared with the model, look-ahead of the model's trace compared with the implementation's, and — "
            "when Model/Monitors.v exists — the Coq monitors evaluated on the model's traces. process level: the real CLI binary fed "
            "through a pipe that is kept open (named FIFO given as FILE, /dev/stdin as FILE, plain stdin; output to -o files and, as a "
            "filter, to its stdout pipe; encrypt / decrypt, both modes): after 8 MiB and after 64 MiB (thorough 256 MiB; decrypt filters: "
            "all but the last 100 kB) the output must have reached fed - pipe capacity - two chunks while the process still waits for "
            "input, and VmRSS / VmHWM from /proc must not differ by 4 MiB between the two pauses; regular files of both sizes: ru_maxrss "
            "within 8 MiB (each command is started from a small intermediate process so that ru_maxrss is the command's own); the same pauses and the same "
            "regular-file comparison with -o naming a path that ALREADY EXISTS (non-empty file, empty file, symlink to a file). forged chunk headers: "
            "the library decrypts its own 4-chunk file after the length field of the first / a later / the last chunk header was overwritten with "
            "65537, 2^17, 2^20, 2^24, 2^28, 2^31, 2^32-1 or a random value above 65536 (rest of the file kept / cut after the header / padded so that "
            "the announced body is present), both modes, dev and release: an error value, peak heap, heap across I/O calls and the largest single "
            "request within the same constants as for genuine files and equal (within 4096 bytes) for all announced lengths; a single request above "
            "2^29 bytes is refused by the harness allocator (the process aborts and the case fails); the CLI binary on such files under a 1 GiB "
            "RLIMIT_AS: exit status 1 with an Error line and ru_maxrss within 8 MiB of a genuine 8 MiB decrypt. non-trivial = all; distinct = distinct driver lines / argv")
    assumptions = ["heap usage is what passes through Rust's global allocator (requested sizes); stack frames are fixed-size in this code",
                   "the generator reader / counting sink / capped BufReader<File> in harness/libdrv/src/mem.rs stand for arbitrary Read / Write implementations",
                   "sizes above 4 GiB + 5 are not run; the constant bound is argued for all sizes by the model's trace shape"]
    trusted_extra = ["harness/libdrv/src/zero.rs counting allocator and src/mem.rs meters"]

    def build(self, ctx):
        super().build(ctx)
        if ctx.harness_ok:
            ok, p, out = release_libdrv()
            self.rel = p if ok else None
            if not ok:
                ctx.harness_ok = False
                ctx.broken.append({"kind": "correspondence", "what": "libdrv does not build in the release profile: " + out[-300:].replace("\n", " ")})

    def run(self, ctx):
        self.measure(ctx)
        self.hostile_lengths(ctx)
        self.traces(ctx)
        self.process_streaming(ctx)
        self.file_argument_streaming(ctx)
        self.r6_sinks_and_foreign_files(ctx)

    # ---------------------------------------------------------------- sinks that take little per call; files of an independent writer
    R6_RULE = ("short-writing sinks: the library encrypts the generator stream (3 chunks + 5 bytes, 1 MiB, 4 MiB; thorough 16 MiB) into a counting sink "
               "that accepts at most 1 / 100 / 16384 / 65567 / a random number of bytes per write call (both modes, dev and release): the same constants "
               "for peak heap, heap across I/O calls, read-ahead (lag <= 2*65536+32) as with a sink that takes everything, and peak heap equal within "
               "4096 bytes for all lengths. files of an independent writer (harness/libdrv/src/mem.rs decx_write: handshake by noise_encrypt resp. key by "
               "scrypt, chunks sealed one by one with the Noise AEAD): 50 .. 40000 (thorough 300000) NON-FINAL chunks that are all empty, empty or "
               "1 byte, 1 byte, 0..3 bytes, or 0..65536 bytes long, then a 7-byte final chunk, decrypted from a BufReader<File> (read sizes 65536 / 4096 / 1) into the "
               "counting sink (also one that takes 1 or 100 bytes per call): succeeds with exactly the plaintext, peak heap and heap across I/O calls within "
               "the constants, and equal within 4096 bytes whatever the number of chunks")
    rule = rule + " " + R6_RULE

    def r6_sinks_and_foreign_files(self, ctx):
        rng = ctx.rng
        full = ctx.thorough()
        MiB = 1 << 20
        jobs = []
        for prof, binp in (("release", self.rel), ("dev", ctx.bin)):
            if not binp:
                continue
            for op in ("mem_key_encw", "mem_pass_encw"):
                key = op == "mem_key_encw"
                caps = [1, 100, 16384, BIG + 31, rng.randrange(2, BIG)] if key else [rng.choice([100, 1000]), 16384]
                sizes = [3 * BIG + 5, MiB, 4 * MiB] + ([16 * MiB] if full and prof == "release" else [])
                if not key and not full:
                    sizes = [3 * BIG + 5, 2 * MiB]
                lines = []
                for cap in caps:
                    for n in sizes:
                        if cap == 1 and n > MiB and not (full and prof == "release"):
                            continue
                        lines.append("%s %d %d %d" % (op, n, BIG if cap != 16384 else rng.choice([BIG, 4096]), cap))
                jobs.append((prof, binp, op, lines))
            for op in ("mem_key_decx", "mem_pass_decx"):
                key = op == "mem_key_decx"
                counts = [50, 3000, 12000, 40000] + ([300000] if full and prof == "release" else [])
                shapes = [(0, 0), (0, 1), (1, 1), (0, 3)]
                if not key:
                    counts, shapes = ([50, 12000], [(0, 0), (0, 1)]) if not full else (counts[:4], shapes[:3])
                lines = []
                for lo, hi in shapes:
                    rsz = rng.choice([BIG, BIG, 4096])
                    for cnt in counts:
                        lines.append("%s %d %d %d %d %d" % (op, cnt, rsz, lo, hi, 0))
                if key:
                    lines.append("%s %d %d 0 %d 0" % (op, rng.randrange(20, 40), BIG, BIG))
                    lines.append("%s %d %d 0 %d %d" % (op, rng.randrange(20, 40), 4096, BIG, rng.choice([1, 100])))
                    lines.append("%s %d 1 0 1 0" % (op, rng.randrange(500, 1500)))
                    lines.append("%s %d %d 0 0 %d" % (op, rng.randrange(5000, 20000), BIG, rng.choice([1, 100])))
                jobs.append((prof, binp, op, lines))
        with ThreadPoolExecutor(max_workers=vlib.NPROC) as ex:
            outs = list(ex.map(lambda j: drv(j[1], j[3], timeout=3000), jobs))
        groups = collections.defaultdict(list)
        for (prof, binp, op, lines), rs in zip(jobs, outs):
            for line, r in zip(lines, rs):
                t = line.split()
                inp = {"driver": "libdrv", "profile": prof, "lines": [line], "oracle": "r6mem"}
                self.ran(ctx, "short-sink-foreign-file/%s/%s" % (prof, op))
                bad = self.r6_oracle(line, r)
                ctx.oracle_checks += 1
                if bad:
                    if len(ctx.violations) < MAX_VIOLATIONS:
                        ctx.violations.append({"input": inp, "expected": bad[0], "observed": bad[1] + "  [" + r["raw"][:400] + "]", "finding_key": None})
                    continue
                if op.endswith("encw"):
                    self.count(ctx, "short-sink:cap=%s" % ("1" if t[3] == "1" else "<=100" if int(t[3]) <= 100 else "<64KiB" if int(t[3]) < BIG else "64KiB+31"))
                    if int(t[1]) >= 2 * BIG and int(t[2]) == BIG:
                        groups[(prof, op, "write cap %s" % t[3])].append((int(t[1]), int(r["peak"]), int(r["iopeak"]), line))
                else:
                    self.count(ctx, "foreign-file:chunks=%s lengths=%s..%s" % ("<1000" if int(t[1]) < 1000 else "<=12000" if int(t[1]) <= 12000 else ">12000", t[3], t[4]))
                    if int(t[4]) <= 3 and t[5] == "0" and int(t[2]) > 1:
                        groups[(prof, op, "non-final chunks of %s..%s bytes" % (t[3], t[4]))].append((int(t[1]), int(r["peak"]), int(r["iopeak"]), line))
                if line is lines[-1]:
                    self.sample(ctx, {"gen": "short-sink-foreign-file", "profile": prof, "line": line, "reply": r["raw"][:300]})
        for (prof, op, what), g in groups.items():
            if len(g) < 2:
                continue
            pk, io = [x[1] for x in g], [x[2] for x in g]
            inp = {"driver": "libdrv", "profile": prof, "lines": [x[3] for x in g], "oracle": "r6indep"}
            self.check(ctx, max(pk) - min(pk) < 4096 and max(io) - min(io) < 4096, inp,
                       "%s, %s: peak heap independent of the %s (within 4096 bytes) over %s" % (
                           op, what, "input length" if op.endswith("encw") else "number of chunks", [x[0] for x in g]),
                       "peak %s iopeak %s" % (pk, io))

    @staticmethod
    def r6_oracle(line, r):
        t = line.split()
        op = t[0]
        if op.endswith("encw"):
            bad = C11.mem_oracle(op[:-1], int(t[1]), int(t[2]), r)
            if bad:
                return ("sink accepting at most %s bytes per write call: %s" % (t[3], bad[0]), bad[1])
            return None
        what = "file of an independent writer, %s non-final chunks of %s..%s bytes + a final 7-byte chunk" % (t[1], t[3], t[4])
        if r.get("outcome") != "ok":
            return (what + ": decryption succeeds", str(r.get("outcome")))
        g = lambda k: int(r.get(k, "-1"))
        if r.get("match") != "1" or g("written") != g("plain"):
            return (what + ": decryption returns exactly the %s plaintext bytes" % r.get("plain"), "match=%s written=%d" % (r.get("match"), g("written")))
        if g("iopeak") > STREAM_BOUND:
            return (what + ": heap held across I/O calls <= %d bytes whatever the number of chunks" % STREAM_BOUND, "iopeak=%d" % g("iopeak"))
        lim = STREAM_BOUND + (0 if "key" in op else SCRYPT_MEM)
        if g("peak") > lim:
            return (what + ": peak heap during the call <= %d bytes whatever the number of chunks" % lim, "peak=%d" % g("peak"))
        return None

    def recheck_r6mem(self, inp, rs):
        return self.r6_oracle(inp["lines"][0], rs[0]) is None

    # ---------------------------------------------------------------- forged chunk headers: the announced length must not size anything
    HOSTILE = [BIG + 1, 1 << 17, 1 << 20, 1 << 24, 1 << 28, 1 << 31, 0xFFFFFFFF]
    FORGED_REQ_CAP = 1 << 29          # harness/libdrv/src/mem.rs: a single request above this is refused (abort)

    def hostile_lengths(self, ctx):
        """library level: a file written by the library itself whose header of chunk k (first / a later / the last chunk)
        announces a length above the chunk size — 65537 .. 2^32-1 — with the rest of the file kept, cut off after the header,
        or padded so that the announced body IS there; decrypt is measured under the counting allocator"""
        rng = ctx.rng
        full = ctx.thorough()
        n = 3 * BIG + rng.randrange(1, BIG)          # chunks 0..2 full, chunk 3 short and last
        jobs = []
        for prof, binp in (("release", self.rel), ("dev", ctx.bin)):
            for op in ("mem_key_forged", "mem_pass_forged"):
                key = op == "mem_key_forged"
                vals = list(self.HOSTILE) + [rng.randrange(BIG + 1, 1 << 32) for _ in range(4 if full else 2)]
                if not key and not full:
                    vals = [BIG + 1, 1 << 24, 0xFFFFFFFF, rng.randrange(BIG + 1, 1 << 32)]
                cases = []
                for a in vals:
                    idxs = [0, rng.choice([1, 2]), 3] if (key or full) else [rng.choice([0, 0, 1, 2, 3])]
                    for k in idxs:
                        tails = ["keep", "cut"] + (["pad"] if a <= (1 << 24) or full else [])
                        cases.append((k, a, rng.choice(tails)))
                if key:
                    # lengths inside the legal range that are not the chunk's own length: nothing to refuse up front, still an error, still bounded
                    cases += [(rng.choice([0, 1, 2]), a, rng.choice(["keep", "cut"])) for a in (0, 1, BIG - 1, rng.randrange(2, BIG - 1))]
                rsz = rng.choice([BIG, BIG, 4096, 100000])
                lines = ["%s %d %d %d %d %s" % (op, n, rsz, k, a, t) for (k, a, t) in cases]
                jobs.append((prof, binp, op, lines))
        with ThreadPoolExecutor(max_workers=vlib.NPROC) as ex:
            outs = list(ex.map(lambda j: drv(j[1], j[3], timeout=3000), jobs))
        groups = collections.defaultdict(list)
        for (prof, binp, op, lines), rs in zip(jobs, outs):
            for line, r in zip(lines, rs):
                t = line.split()
                k, a = int(t[3]), int(t[4])
                inp = {"driver": "libdrv", "profile": prof, "lines": [line], "oracle": "forged"}
                self.ran(ctx, "forged-length/%s/%s" % (prof, op))
                self.count(ctx, "forged:chunk=%s announced=%s tail=%s" % ("first" if k == 0 else "last" if k == 3 else "later",
                                                                            "<=64KiB" if a <= BIG else "<=16MiB" if a <= (1 << 24) else ">16MiB", t[5]))
                bad = self.forged_oracle(line, r)
                ctx.oracle_checks += 1
                if bad:
                    if len(ctx.violations) < MAX_VIOLATIONS:
                        ctx.violations.append({"input": inp, "expected": bad[0], "observed": bad[1] + "  [" + r["raw"][:400] + "]", "finding_key": None})
                    continue
                if a > BIG:
                    groups[(prof, op, k == 0)].append((a, int(r["peak"]), int(r["bigreq"]), line))
                if a == 0xFFFFFFFF:
                    self.sample(ctx, {"gen": "forged-length", "profile": prof, "line": line, "reply": r["raw"][:300]})
        for (prof, op, first), g in groups.items():
            pk, rq = [x[1] for x in g], [x[2] for x in g]
            inp = {"driver": "libdrv", "profile": prof, "lines": [x[3] for x in g], "oracle": "forged-indep"}
            self.check(ctx, max(pk) - min(pk) < 4096 and max(rq) - min(rq) < 4096, inp,
                       "peak heap and largest single allocation while rejecting do not depend on the announced length (within 4096 bytes) over announced lengths %s"
                       % sorted(set(x[0] for x in g)), "peak %s largest request %s" % (pk, rq))

    @staticmethod
    def forged_oracle(line, r):
        t = line.split()
        op, a = t[0], int(t[4])
        key_mode = "key" in op
        what = "chunk %s of a %s-byte stream announces %d bytes (%s)" % (t[3], t[1], a, t[5])
        if r.get("outcome") == "abort":
            return ("%s: decryption returns an error value; no single allocation above %d bytes is ever requested (the harness allocator refuses such a "
                    "request, which aborts the process)" % (what, C11.FORGED_REQ_CAP), "the driver process died: " + r.get("raw", "")[:120])
        if not str(r.get("outcome", "")).startswith("err:"):
            return ("%s: decryption returns an error value" % what, r.get("outcome"))
        g = lambda k: int(r.get(k, "-1"))
        if g("iopeak") > STREAM_BOUND:
            return ("%s: heap held across I/O calls <= %d bytes whatever the header says" % (what, STREAM_BOUND), "iopeak=%d" % g("iopeak"))
        lim = STREAM_BOUND + (0 if key_mode else SCRYPT_MEM)
        if g("peak") > lim:
            return ("%s: peak heap during the call <= %d bytes whatever the header says" % (what, lim), "peak=%d" % g("peak"))
        if g("bigreq") > lim:
            return ("%s: no single allocation larger than %d bytes" % (what, lim), "largest request=%d" % g("bigreq"))
        return None

    def recheck_forged(self, inp, rs):
        return self.forged_oracle(inp["lines"][0], rs[0]) is None

    # ---------------------------------------------------------------- the real CLI process fed through pipes
    @staticmethod
    def proc_mem(pid):
        try:
            txt = open("/proc/%d/status" % pid).read()
        except OSError:
            return None
        d = {}
        for k in ("VmRSS", "VmHWM"):
            m = re.search(r"^%s:\s+(\d+) kB" % k, txt, re.M)
            d[k] = int(m.group(1)) * 1024 if m else None
        return d

    @staticmethod
    def open_fifo_writer(path, alive, timeout=20):
        """opens a FIFO for writing without blocking for ever when the reader never shows up"""
        t0 = time.time()
        while time.time() - t0 < timeout:
            try:
                fd = os.open(path, os.O_WRONLY | os.O_NONBLOCK)
                fcntl.fcntl(fd, fcntl.F_SETFL, fcntl.fcntl(fd, fcntl.F_GETFL) & ~os.O_NONBLOCK)
                return fd
            except OSError as ex:
                if ex.errno != errno.ENXIO or not alive():
                    return None
                time.sleep(0.01)
        return None

    def feed_job(self, job):
        """starts one CLI process whose input is a pipe we hold open; writes the data up to each mark, then — with the pipe
        STILL OPEN — waits for the output file to catch up and samples the process's memory; finally closes the pipe."""
        data, marks, out = job["data"], job["marks"], job["out"]
        res = {"marks": [], "rc": None, "stderr": ""}
        errf = tempfile.TemporaryFile()
        to_stdout = out is None          # the process is a filter: its output is read from its stdout pipe and counted
        p = subprocess.Popen([vlib.CLIDRV] + job["argv"], env=cli_env(job["env"]),
                             stdin=(subprocess.PIPE if job["how"] == "stdin" else subprocess.DEVNULL),
                             stdout=(subprocess.PIPE if to_stdout else subprocess.DEVNULL), stderr=errf, start_new_session=True)
        dog = threading.Timer(120, p.kill)
        dog.start()
        got = [0]
        if to_stdout:
            def pump():
                fdo = p.stdout.fileno()
                while True:
                    try:
                        b = os.read(fdo, 1 << 20)
                    except OSError:
                        break
                    if not b:
                        break
                    got[0] += len(b)
            rd = threading.Thread(target=pump, daemon=True)
            rd.start()
        fd = None
        try:
            if job["how"] == "stdin":
                fd = p.stdin.fileno()
            else:
                fd = self.open_fifo_writer(job["fifo"], lambda: p.poll() is None)
            if fd is None:
                res["stderr"] = "the process never opened its input"
            else:
                try:
                    cap = fcntl.fcntl(fd, 1032)          # F_GETPIPE_SZ
                except OSError:
                    cap = 65536
                res["pipe_capacity"] = cap
                pos, stalled = 0, False
                for mark in marks:
                    try:
                        while pos < mark:
                            pos += os.write(fd, data[pos:min(mark, pos + (1 << 20))])
                    except OSError as ex:
                        res["stderr"] = "write to the process failed: %r" % ex
                        break
                    need = job["need"](pos, cap)
                    t0, size = time.time(), 0
                    while True:
                        try:
                            size = got[0] if to_stdout else os.path.getsize(out)
                        except OSError:
                            size = 0
                        if size >= need or p.poll() is not None or time.time() - t0 > (1.0 if stalled else 30.0):
                            break
                        time.sleep(0.02)
                    stalled = stalled or size < need
                    mem = self.proc_mem(p.pid) or {}
                    res["marks"].append({"written": pos, "output": size, "need": need, "rss": mem.get("VmRSS"), "hwm": mem.get("VmHWM"),
                                         "alive": p.poll() is None})
                try:
                    while pos < len(data) and len(res["marks"]) == len(marks):      # the rest, after the last pause
                        pos += os.write(fd, data[pos:pos + (1 << 20)])
                except OSError as ex:
                    res["stderr"] = "write to the process failed: %r" % ex
        finally:
            try:
                if job["how"] == "stdin":
                    p.stdin.close()
                elif fd is not None:
                    os.close(fd)
            except OSError:
                pass
            try:
                res["rc"] = p.wait(timeout=100)
            except subprocess.TimeoutExpired:
                p.kill()
                res["rc"] = 124
            dog.cancel()
            errf.seek(0)
            res["stderr"] += errf.read().decode("utf-8", "replace")[-300:]
            errf.close()
        if to_stdout:
            rd.join(timeout=20)
            res["final_size"] = got[0]
            return res
        try:
            res["final_size"] = os.path.getsize(out)
        except OSError:
            res["final_size"] = None
        return res

    @staticmethod
    def file_job(job):
        """a complete run over a regular file; returns (rc, peak RSS of that child in bytes)"""
        return c11_measured_run(job["argv"], job["env"])

    # ---------------------------------------------------------------- the real CLI with its input named as a FILE argument and a SLOW consumer
    RULE_FILE_ARG = (
        "process level, input as FILE argument with a slow consumer: all four streaming commands read a REGULAR FILE named on the command line (and a named "
        "FIFO given as FILE that the checker feeds as fast as it is accepted) and write to their standard-output pipe or to a FIFO given with -o that the "
        "checker drains in steps (1 byte .. 5 chunks, sizes from the run's seed); between the steps, while the process is blocked on its output, the checker reads the "
        "kernel's file position of the process's input descriptor (/proc/<pid>/fdinfo; for the FIFO: bytes accepted minus bytes still in the pipe) and then the "
        "bytes it has drained plus the bytes waiting in the output pipe: input consumed - output written <= three chunks (the chunk being written and the two "
        "further chunks the property allows; decrypt: plus the ciphertext overhead so far) at EVERY sample; the runs end with exit status 0 and the complete output")
    rule = rule + " " + RULE_FILE_ARG

    @staticmethod
    def input_pos(pid, path):
        """kernel file position of the descriptor through which process pid has `path` open (None: not open (yet / any more))"""
        try:
            for fd in os.listdir("/proc/%d/fd" % pid):
                try:
                    if os.readlink("/proc/%d/fd/%s" % (pid, fd)) == path:
                        m = re.search(r"^pos:\s+(\d+)", open("/proc/%d/fdinfo/%s" % (pid, fd)).read(), re.M)
                        if m:
                            return int(m.group(1))
                except OSError:
                    continue
        except OSError:
            pass
        return None

    @staticmethod
    def pipe_unread(fd):
        import array
        buf = array.array("i", [0])
        try:
            fcntl.ioctl(fd, 0x541B, buf)          # FIONREAD
            return buf[0]
        except OSError:
            return 0

    def lookahead_job(self, job):
        """one CLI process whose input is a FILE argument (regular file, or a FIFO we feed) and whose output we drain in steps; every sample is
        (input consumed, output written so far = drained + waiting in the output pipe), consumed read FIRST (the output can only have grown since)"""
        res = {"samples": 0, "worst": None, "rc": None, "stderr": "", "drained": 0, "digest": None, "steps": 0, "out": None}
        errf = tempfile.TemporaryFile()
        out_fd = own_out = None
        if job["output"] == "fifo":
            own_out = out_fd = os.open(job["ofifo"], os.O_RDONLY | os.O_NONBLOCK)      # before the process starts: its open for writing finds a reader
        p = subprocess.Popen([vlib.CLIDRV] + job["argv"], env=cli_env(job["env"]), stdin=subprocess.DEVNULL,
                             stdout=(subprocess.PIPE if out_fd is None else subprocess.DEVNULL), stderr=errf, start_new_session=True)
        dog = threading.Timer(150, p.kill)
        dog.start()
        in_fd = None
        keep = [] if job.get("keep") else None
        h = hashlib.sha256()
        try:
            if out_fd is None:
                out_fd = p.stdout.fileno()
                fcntl.fcntl(out_fd, fcntl.F_SETFL, fcntl.fcntl(out_fd, fcntl.F_GETFL) | os.O_NONBLOCK)
            data = job.get("data")
            fed = 0
            if job["input"] == "fifo":
                in_fd = self.open_fifo_writer(job["ififo"], lambda: p.poll() is None)
                if in_fd is None:
                    res["stderr"] = "the process never opened its input FIFO; "
                else:
                    fcntl.fcntl(in_fd, fcntl.F_SETFL, fcntl.fcntl(in_fd, fcntl.F_GETFL) | os.O_NONBLOCK)
            try:
                res["cap_out"] = fcntl.fcntl(out_fd, 1032)
            except OSError:
                res["cap_out"] = 65536
            bound = job["bound"]
            D, eof = 0, False

            def feed():
                nonlocal fed, in_fd
                if in_fd is None:
                    return
                try:
                    while fed < len(data):
                        fed += os.write(in_fd, data[fed:fed + (1 << 16)])
                except BlockingIOError:
                    return
                except OSError:
                    pass
                if fed >= len(data) or p.poll() is not None:
                    os.close(in_fd)
                    in_fd = None

            def consumed():
                if job["input"] == "regular":
                    return self.input_pos(p.pid, job["ifile"])
                if in_fd is None:
                    return None            # everything fed and the write end closed: nothing more to learn
                return fed - self.pipe_unread(in_fd)

            def sample():
                c = consumed()
                w = D + self.pipe_unread(out_fd)
                if c is not None:
                    res["samples"] += 1
                    ex = c - w - bound(w)
                    if res["worst"] is None or ex > res["worst"]["excess"]:
                        res["worst"] = {"excess": ex, "input_consumed": c, "output_written": w, "drained_by_the_checker": D, "allowed_lead": bound(w)}
                return c, w
            steps = list(job["steps"])
            t_end = time.time() + 120
            while not eof and time.time() < t_end:
                # let the process run until it rests (blocked on its output, or finished)
                last, same, t0 = None, 0, time.time()
                while time.time() - t0 < 40:
                    feed()
                    cur = sample()
                    same = same + 1 if cur == last else 0
                    last = cur
                    if (same >= 3 and cur[1] > D) or p.poll() is not None:
                        break
                    time.sleep(0.008)
                want = steps.pop(0) if steps else 5 * BIG
                got = 0
                while got < want:
                    try:
                        b = os.read(out_fd, min(want - got, 1 << 20))
                    except BlockingIOError:
                        if p.poll() is not None and self.pipe_unread(out_fd) == 0:
                            eof = True
                        break
                    except OSError:
                        eof = True
                        break
                    if not b:
                        eof = True
                        break
                    got += len(b)
                    D += len(b)
                    h.update(b)
                    if keep is not None:
                        keep.append(b)
                res["steps"] += 1
            res["drained"] = D
        finally:
            for fd in (in_fd, own_out):
                try:
                    if fd is not None:
                        os.close(fd)
                except OSError:
                    pass
            try:
                res["rc"] = p.wait(timeout=30)
            except subprocess.TimeoutExpired:
                p.kill()
                res["rc"] = 124
            if p.stdout:
                p.stdout.close()
            dog.cancel()
            errf.seek(0)
            res["stderr"] += errf.read().decode("utf-8", "replace")[-300:]
            errf.close()
        res["digest"] = h.hexdigest()
        if keep is not None:
            res["out"] = b"".join(keep)
        return res

    def file_argument_streaming(self, ctx):
        rng = ctx.rng
        full = ctx.thorough()
        wd = tempfile.mkdtemp(prefix="kv_c11f_", dir="/tmp")
        try:
            n = (rng.randrange(40, 60) if not full else rng.randrange(300, 400)) * BIG + rng.randrange(1, BIG)
            data = hashlib.shake_256(ctx.rbytes(16)).digest(n)
            P = lambda x: os.path.join(wd, x)
            open(P("plain.bin"), "wb").write(data)
            (s, spk), (r, rpk) = keypairs(ctx, 2)
            kr_text, _ = make_keyring([("fa-sender", s, spk, b"pw-s", ctx.rbytes(32)), ("fa-recipient", r, rpk, b"pw-r", ctx.rbytes(32))])
            open(P("keyring.txt"), "w").write(kr_text)
            envp, envs, envr = {"KESTREL_PASSWORD": "file-arg pw"}, {"KESTREL_PASSWORD": "pw-s"}, {"KESTREL_PASSWORD": "pw-r"}
            keyargs = ["-t", "fa-recipient", "-f", "fa-sender", "-k", P("keyring.txt"), "--env-pass"]
            decargs = ["-t", "fa-recipient", "-k", P("keyring.txt"), "--env-pass"]
            enc_bound = lambda w: 3 * BIG
            dec_bound = lambda hdr: (lambda w: hdr + 3 * (BIG + 32) + 32 * (w // BIG + 1) + 1)

            def steps():
                first = [rng.choice([1, 4, 16, 36, 132]), rng.choice([1, 100, 4096])]
                return first + [rng.choice([1, 4096, BIG // 2, BIG, BIG + 32, 2 * BIG, 3 * BIG + 7, 5 * BIG]) for _ in range(12 if not full else 40)] + [5 * BIG] * 400
            nfifo = [0]

            def job(label, cmd, infile, indata, via, out, env, bound, tail, keep=False):
                j = {"label": label, "env": env, "bound": bound, "steps": steps(), "keep": keep, "output": out, "input": via}
                argv = list(cmd)
                if via == "regular":
                    j["ifile"] = infile
                    argv.append(infile)
                else:
                    nfifo[0] += 1
                    j["ififo"] = P("in_%d.fifo" % nfifo[0])
                    os.mkfifo(j["ififo"])
                    j["data"] = indata
                    argv.append(j["ififo"])
                if out == "fifo":
                    nfifo[0] += 1
                    j["ofifo"] = P("out_%d.fifo" % nfifo[0])
                    os.mkfifo(j["ofifo"])
                    argv += ["-o", j["ofifo"]]
                j["argv"] = argv + tail
                return j
            nrec = -(-n // BIG)
            jobs1 = [
                job("password encrypt <regular file> -> stdout pipe", ["password", "encrypt"], P("plain.bin"), None, "regular", "stdout", envp, enc_bound, ["--env-pass"], keep=True),
                job("password encrypt <regular file> -o <FIFO>", ["password", "encrypt"], P("plain.bin"), None, "regular", "fifo", envp, enc_bound, ["--env-pass"]),
                job("encrypt <regular file> -> stdout pipe", ["encrypt"], P("plain.bin"), None, "regular", "stdout", envs, enc_bound, keyargs, keep=True),
                job("encrypt <regular file> -o <FIFO>", ["encrypt"], P("plain.bin"), None, "regular", "fifo", envs, enc_bound, keyargs),
                job("encrypt <FIFO given as FILE> -> stdout pipe", ["encrypt"], None, data, "fifo", "stdout", envs, enc_bound, keyargs),
                job("password encrypt <FIFO given as FILE> -o <FIFO>", ["password", "encrypt"], None, data, "fifo", "fifo", envp, enc_bound, ["--env-pass"]),
            ]
            for j in jobs1:
                j["dir"], j["in_len"] = "enc", n
            with ThreadPoolExecutor(max_workers=len(jobs1)) as ex:
                r1 = list(ex.map(self.lookahead_job, jobs1))
            jobs2, r2 = [], []
            ctp, ctk = r1[0].get("out"), r1[2].get("out")
            if r1[0]["rc"] == 0 and r1[2]["rc"] == 0 and ctp and ctk:
                open(P("ct_pass.bin"), "wb").write(ctp)
                open(P("ct_key.bin"), "wb").write(ctk)
                jobs2 = [
                    job("password decrypt <regular file> -> stdout pipe", ["password", "decrypt"], P("ct_pass.bin"), None, "regular", "stdout", envp, dec_bound(36), ["--env-pass"]),
                    job("password decrypt <regular file> -o <FIFO>", ["password", "decrypt"], P("ct_pass.bin"), None, "regular", "fifo", envp, dec_bound(36), ["--env-pass"]),
                    job("decrypt <regular file> -> stdout pipe", ["decrypt"], P("ct_key.bin"), None, "regular", "stdout", envr, dec_bound(132), decargs),
                    job("decrypt <regular file> -o <FIFO>", ["decrypt"], P("ct_key.bin"), None, "regular", "fifo", envr, dec_bound(132), decargs),
                    job("decrypt <FIFO given as FILE> -o <FIFO>", ["decrypt"], None, ctk, "fifo", "fifo", envr, dec_bound(132), decargs),
                ]
                for j, ct in zip(jobs2, (ctp, ctp, ctk, ctk, ctk)):
                    j["dir"], j["in_len"] = "dec", len(ct)
                with ThreadPoolExecutor(max_workers=len(jobs2)) as ex:
                    r2 = list(ex.map(self.lookahead_job, jobs2))
            else:
                self.count(ctx, "skipped:file-argument-decrypt(no ciphertext from the encrypt runs)")
            want_digest = hashlib.sha256(data).hexdigest()
            for j, res in zip(jobs1 + jobs2, r1 + r2):
                inp = {"driver": "cli-process", "argv": j["argv"], "env": j["env"],
                       "input": ("a regular file of %d bytes (SHAKE-256 stream from the run's seed%s), named on the command line" % (j["in_len"], "" if j["dir"] == "enc" else ", encrypted by the CLI"))
                                if j["input"] == "regular" else "a named FIFO given as FILE, fed by the checker (%d bytes) as fast as the pipe accepts them" % j["in_len"],
                       "output": "the process's standard-output pipe" if j["output"] == "stdout" else "a named FIFO given with -o",
                       "consumer": "drains the output in steps of %s, ... bytes and looks at the input position while the process is blocked" % ", ".join(str(x) for x in j["steps"][:8])}
                self.ran(ctx, "process-file-arg/%s" % j["label"])
                want_out = (36 if j["label"].startswith("password") else 132) + 32 * nrec + n if j["dir"] == "enc" else n
                ok_len = res["drained"] == want_out if not (j["dir"] == "enc" and j["input"] == "fifo") else res["drained"] >= want_out
                if not self.check(ctx, res["rc"] == 0 and ok_len and (j["dir"] == "enc" or res["digest"] == want_digest), inp,
                                  "the run succeeds and delivers the complete output (%d bytes%s)" % (want_out, ", the original plaintext" if j["dir"] == "dec" else ""),
                                  "rc=%s, %d bytes delivered, %s" % (res["rc"], res["drained"], res["stderr"][-200:])):
                    continue
                w = res["worst"]
                self.count(ctx, "process-file-arg-samples", res["samples"])
                if not self.check(ctx, w is not None and res["samples"] >= 5, inp, "the input position of the process could be observed (at least 5 samples)", "%d samples" % res["samples"]):
                    continue
                self.check(ctx, w["excess"] <= 0, inp,
                           "incremental output: at every sample, input consumed - output written (drained by the checker + waiting in the output pipe of %d bytes) <= %d bytes "
                           "(the chunk being written and two further chunks%s)" % (res.get("cap_out", 0), w["allowed_lead"], "" if j["dir"] == "enc" else ", plus the ciphertext overhead"),
                           "input consumed %d bytes (%d chunks) while %d bytes of output were written, of which the consumer had taken %d: %d bytes (%.1f chunks) ahead"
                           % (w["input_consumed"], w["input_consumed"] // BIG, w["output_written"], w["drained_by_the_checker"],
                              w["input_consumed"] - w["output_written"], (w["input_consumed"] - w["output_written"]) / BIG))
                self.count(ctx, "process-file-arg-lead-KiB:%s=%d" % (j["label"], (w["input_consumed"] - w["output_written"]) // 1024))
                self.sample(ctx, {"gen": "process-file-arg", "label": j["label"], "samples": res["samples"], "steps": res["steps"], "worst": w})
        finally:
            shutil.rmtree(wd, ignore_errors=True)

    def process_streaming(self, ctx):
        MiB = 1 << 20
        LO, HI = 8 * MiB, (256 if ctx.thorough() else 64) * MiB
        GROW = 4 * MiB
        wd = tempfile.mkdtemp(prefix="kv_c11_", dir="/tmp")
        try:
            data = hashlib.shake_256(ctx.rbytes(16)).digest(HI)
            (s, spk), (r, rpk) = keypairs(ctx, 2)
            kr_text, _ = make_keyring([("stream-sender", s, spk, b"pw-s", ctx.rbytes(32)), ("stream-recipient", r, rpk, b"pw-r", ctx.rbytes(32))])
            kr = os.path.join(wd, "keyring.txt")
            open(kr, "w").write(kr_text)
            for n, name in ((LO, "lo"), (HI, "hi")):
                with open(os.path.join(wd, "plain_%s.bin" % name), "wb") as f:
                    f.write(data[:n])
            P = lambda x: os.path.join(wd, x)
            # what /dev/stdin is (a link to /proc/self/fd/0), made inside the scratch directory: the program under test never gets /dev itself
            DEVSTDIN = vlib.private_special(wd, "stdin") or "/proc/self/fd/0"
            enc_need = lambda w, cap: w - cap - 2 * BIG
            dec_need = lambda w, cap: w - cap - 2 * BIG - 132 - 32 * (w // BIG + 2)
            envp, envs, envr = {"KESTREL_PASSWORD": "stream pw"}, {"KESTREL_PASSWORD": "pw-s"}, {"KESTREL_PASSWORD": "pw-r"}
            keyargs = ["-t", "stream-recipient", "-f", "stream-sender", "-k", kr, "--env-pass"]
            # phase 1: encrypt — FIFO as FILE, plain stdin, regular files
            for nm in ("fifo_pass", "fifo_key"):
                os.mkfifo(P(nm))
            feeds = [
                {"label": "password encrypt <FIFO>", "argv": ["password", "encrypt", P("fifo_pass"), "-o", P("o_fifo_pass.bin"), "--env-pass"],
                 "env": envp, "how": "fifo", "fifo": P("fifo_pass"), "out": P("o_fifo_pass.bin"), "need": enc_need, "dir": "enc"},
                {"label": "encrypt <FIFO>", "argv": ["encrypt", P("fifo_key"), "-o", P("o_fifo_key.bin")] + keyargs,
                 "env": envs, "how": "fifo", "fifo": P("fifo_key"), "out": P("o_fifo_key.bin"), "need": enc_need, "dir": "enc"},
                {"label": "password encrypt (stdin)", "argv": ["password", "encrypt", "-o", P("o_stdin_pass.bin"), "--env-pass"],
                 "env": envp, "how": "stdin", "out": P("o_stdin_pass.bin"), "need": enc_need, "dir": "enc"},
                {"label": "encrypt /dev/stdin", "argv": ["encrypt", DEVSTDIN, "-o", P("o_devstdin_key.bin")] + keyargs,
                 "env": envs, "how": "stdin", "out": P("o_devstdin_key.bin"), "need": enc_need, "dir": "enc"},
            ]
            feeds.append({"label": "password encrypt (stdin -> stdout)", "argv": ["password", "encrypt", "--env-pass"],
                          "env": envp, "how": "stdin", "out": None, "need": enc_need, "dir": "enc"})
            # -o names a path that ALREADY EXISTS (a second run over the same output): a non-empty file, an empty file, a symlink to a file
            def pre(name, kind):
                if kind == "symlink":
                    open(P(name + ".target"), "wb").write(ctx.rbytes(ctx.rng.randrange(1, 5000)))
                    os.symlink(P(name + ".target"), P(name))
                else:
                    open(P(name), "wb").write(b"" if kind == "empty" else hashlib.shake_256(ctx.rbytes(8)).digest(ctx.rng.randrange(1, 200000)))
                return P(name)
            os.mkfifo(P("fifo_key_ex"))
            feeds += [
                {"label": "password encrypt (stdin) -o <existing file>", "argv": ["password", "encrypt", "-o", pre("ox_stdin_pass.bin", "file"), "--env-pass"],
                 "env": envp, "how": "stdin", "out": P("ox_stdin_pass.bin"), "need": enc_need, "dir": "enc"},
                {"label": "encrypt <FIFO> -o <existing %s>" % "symlink to a file", "argv": ["encrypt", P("fifo_key_ex"), "-o", pre("ox_fifo_key.bin", "symlink")] + keyargs,
                 "env": envs, "how": "fifo", "fifo": P("fifo_key_ex"), "out": P("ox_fifo_key.bin"), "need": enc_need, "dir": "enc"},
                {"label": "password encrypt /dev/stdin -o <existing empty file>", "argv": ["password", "encrypt", DEVSTDIN, "-o", pre("ox_devstdin_pass.bin", "empty"), "--env-pass"],
                 "env": envp, "how": "stdin", "out": P("ox_devstdin_pass.bin"), "need": enc_need, "dir": "enc"},
            ]
            for j in feeds:
                j.update(data=data, marks=[LO, HI])
            files = []
            # regular input file, output path already holding an earlier output: peak RSS compared with the small fresh run of the same group
            files.append({"label": "password encrypt <regular file hi> -o <existing file>", "size": "hi-existing", "grp": "pass-enc",
                          "argv": ["password", "encrypt", P("plain_hi.bin"), "-o", pre("ctx_pass_hi.bin", "file"), "--env-pass"], "env": envp})
            files.append({"label": "encrypt <regular file hi> -o <existing file>", "size": "hi-existing", "grp": "key-enc",
                          "argv": ["encrypt", P("plain_hi.bin"), "-o", pre("ctx_key_hi.bin", "file")] + keyargs, "env": envs})
            for name in ("lo", "hi"):
                files.append({"label": "password encrypt <regular file %s>" % name, "size": name, "grp": "pass-enc",
                              "argv": ["password", "encrypt", P("plain_%s.bin" % name), "-o", P("ct_pass_%s.bin" % name), "--env-pass"], "env": envp})
                files.append({"label": "encrypt <regular file %s>" % name, "size": name, "grp": "key-enc",
                              "argv": ["encrypt", P("plain_%s.bin" % name), "-o", P("ct_key_%s.bin" % name)] + keyargs, "env": envs})
            with ThreadPoolExecutor(max_workers=len(feeds) + len(files)) as ex:
                f1 = [ex.submit(self.feed_job, j) for j in feeds]
                f2 = [ex.submit(self.file_job, j) for j in files]
                r1, r2 = [f.result() for f in f1], [f.result() for f in f2]
            # phase 2: decrypt the regular-file ciphertexts — /dev/stdin as FILE, plain stdin, regular files
            feeds2, files2 = [], []
            if all(x["rc"] == 0 for x in r2):
                ctp, ctk = open(P("ct_pass_hi.bin"), "rb").read(), open(P("ct_key_hi.bin"), "rb").read()
                dmarks = lambda ct: [LO, len(ct) - BIG]
                feeds2 = [
                    {"label": "password decrypt /dev/stdin", "argv": ["password", "decrypt", DEVSTDIN, "-o", P("d_devstdin_pass.bin"), "--env-pass"],
                     "env": envp, "how": "stdin", "out": P("d_devstdin_pass.bin"), "need": dec_need, "dir": "dec", "data": ctp, "marks": dmarks(ctp)},
                    {"label": "decrypt /dev/stdin", "argv": ["decrypt", DEVSTDIN, "-t", "stream-recipient", "-o", P("d_devstdin_key.bin"), "-k", kr, "--env-pass"],
                     "env": envr, "how": "stdin", "out": P("d_devstdin_key.bin"), "need": dec_need, "dir": "dec", "data": ctk, "marks": dmarks(ctk)},
                    {"label": "password decrypt (stdin)", "argv": ["password", "decrypt", "-o", P("d_stdin_pass.bin"), "--env-pass"],
                     "env": envp, "how": "stdin", "out": P("d_stdin_pass.bin"), "need": dec_need, "dir": "dec", "data": ctp, "marks": dmarks(ctp)},
                ]
                # filters (no -o): the last 100 kB of the ciphertext are withheld at the second pause
                fmarks = lambda ct: [LO, len(ct) - 100000]
                feeds2 += [
                    {"label": "password decrypt (stdin -> stdout)", "argv": ["password", "decrypt", "--env-pass"],
                     "env": envp, "how": "stdin", "out": None, "need": dec_need, "dir": "dec", "data": ctp, "marks": fmarks(ctp)},
                    {"label": "decrypt (stdin -> stdout)", "argv": ["decrypt", "-t", "stream-recipient", "-k", kr, "--env-pass"],
                     "env": envr, "how": "stdin", "out": None, "need": dec_need, "dir": "dec", "data": ctk, "marks": fmarks(ctk)},
                    {"label": "decrypt /dev/stdin -> stdout", "argv": ["decrypt", DEVSTDIN, "-t", "stream-recipient", "-k", kr, "--env-pass"],
                     "env": envr, "how": "stdin", "out": None, "need": dec_need, "dir": "dec", "data": ctk, "marks": fmarks(ctk)},
                ]
                os.mkfifo(P("fifo_dec"))
                feeds2.append({"label": "decrypt <FIFO>", "argv": ["decrypt", P("fifo_dec"), "-t", "stream-recipient", "-o", P("d_fifo_key.bin"), "-k", kr, "--env-pass"],
                               "env": envr, "how": "fifo", "fifo": P("fifo_dec"), "out": P("d_fifo_key.bin"), "need": dec_need, "dir": "dec", "data": ctk, "marks": dmarks(ctk)})
                feeds2 += [
                    {"label": "password decrypt (stdin) -o <existing file>", "argv": ["password", "decrypt", "-o", pre("dx_stdin_pass.bin", "file"), "--env-pass"],
                     "env": envp, "how": "stdin", "out": P("dx_stdin_pass.bin"), "need": dec_need, "dir": "dec", "data": ctp, "marks": dmarks(ctp)},
                    {"label": "decrypt /dev/stdin -o <existing %s>" % "empty file", "argv": ["decrypt", DEVSTDIN, "-t", "stream-recipient", "-o", pre("dx_devstdin_key.bin", "empty"), "-k", kr, "--env-pass"],
                     "env": envr, "how": "stdin", "out": P("dx_devstdin_key.bin"), "need": dec_need, "dir": "dec", "data": ctk, "marks": dmarks(ctk)},
                ]
                files2.append({"label": "password decrypt <regular file hi> -o <existing file>", "size": "hi-existing", "grp": "pass-dec",
                               "argv": ["password", "decrypt", P("ct_pass_hi.bin"), "-o", pre("dx_pass_hi.bin", "file"), "--env-pass"], "env": envp})
                files2.append({"label": "decrypt <regular file hi> -o <existing file>", "size": "hi-existing", "grp": "key-dec",
                               "argv": ["decrypt", P("ct_key_hi.bin"), "-t", "stream-recipient", "-o", pre("dx_key_hi.bin", "symlink"), "-k", kr, "--env-pass"], "env": envr})
                for name in ("lo", "hi"):
                    files2.append({"label": "password decrypt <regular file %s>" % name, "size": name, "grp": "pass-dec",
                                   "argv": ["password", "decrypt", P("ct_pass_%s.bin" % name), "-o", P("d_pass_%s.bin" % name), "--env-pass"], "env": envp})
                    files2.append({"label": "decrypt <regular file %s>" % name, "size": name, "grp": "key-dec",
                                   "argv": ["decrypt", P("ct_key_%s.bin" % name), "-t", "stream-recipient", "-o", P("d_key_%s.bin" % name), "-k", kr, "--env-pass"], "env": envr})
                with ThreadPoolExecutor(max_workers=len(feeds2) + len(files2)) as ex:
                    f1 = [ex.submit(self.feed_job, j) for j in feeds2]
                    f2 = [ex.submit(self.file_job, j) for j in files2]
                    r1 += [f.result() for f in f1]
                    r2 += [f.result() for f in f2]
            seed_note = "input = SHAKE-256 stream from the run's seed; %d bytes, pauses after %d and at the end with the pipe still open" % (HI, LO)
            for j, res in zip(feeds + feeds2, r1):
                inp = {"driver": "cli-process", "argv": j["argv"], "env": j["env"], "input_via": j["how"] + (" (named FIFO given as FILE)" if j["how"] == "fifo" else " pipe"),
                       "note": seed_note + ("; the -o path ALREADY EXISTS when the process starts (%s)" % j["label"].split("<existing ")[1].rstrip(">")
                                            if "<existing " in j["label"] else ""), "marks": j["marks"]}
                self.ran(ctx, "process/%s" % j["label"])
                if not self.check(ctx, res["rc"] == 0 and len(res["marks"]) == len(j["marks"]), inp, "the CLI run succeeds",
                                  "rc=%s %s %s" % (res["rc"], res["stderr"][-200:], res["marks"])):
                    continue
                for m in res["marks"]:
                    self.check(ctx, m["output"] >= m["need"], inp,
                               "incremental output: with %d bytes fed and the input STILL OPEN the output (file, or the stdout pipe of a filter) reaches >= %d bytes "
                               "(fed - pipe capacity - two chunks%s) within 30 s" % (m["written"], m["need"], "" if j["dir"] == "enc" else " - ciphertext overhead"),
                               "output has %d bytes (process %s)" % (m["output"], "alive" if m["alive"] else "exited"))
                a, b = res["marks"][0], res["marks"][-1]
                if a["rss"] and b["rss"]:
                    self.check(ctx, b["rss"] - a["rss"] < GROW and b["hwm"] - a["hwm"] < GROW, inp,
                               "resident memory does not grow with the input: VmRSS / VmHWM after %d bytes within %d bytes of the values after %d bytes"
                               % (b["written"], GROW, a["written"]),
                               "VmRSS %d -> %d, VmHWM %d -> %d" % (a["rss"], b["rss"], a["hwm"], b["hwm"]))
                    self.count(ctx, "process-rss-growth-KiB:%s=%d" % (j["label"], (b["rss"] - a["rss"]) // 1024))
                else:
                    self.count(ctx, "process-memory-not-sampled:" + j["label"])
                if j["dir"] == "dec":
                    self.count(ctx, "process-decrypt-output-complete:%s" % ("yes" if res["final_size"] == HI else "NO"))
                self.sample(ctx, {"gen": "process", "label": j["label"], "marks": res["marks"]})
            grp = collections.defaultdict(dict)
            for j, res in zip(files + files2, r2):
                inp = {"driver": "cli-process", "argv": j["argv"], "env": j["env"], "note": "regular file of %d bytes" % (LO if j["size"] == "lo" else HI)
                       + ("; the -o path already exists (a file / a symlink to a file written before the run)" if j["size"] == "hi-existing" else "")}
                self.ran(ctx, "process/%s" % j["label"])
                if self.check(ctx, res["rc"] == 0, inp, "the CLI run succeeds", "rc=%s %s" % (res["rc"], res["stderr"][-200:])):
                    grp[j["grp"]][j["size"]] = (res["maxrss"], inp)
            for g, d in grp.items():
                if "lo" in d and "hi" in d:
                    self.check(ctx, d["hi"][0] - d["lo"][0] < 2 * GROW, d["hi"][1],
                               "peak resident memory (ru_maxrss) for a %d-byte file within %d bytes of that for a %d-byte file" % (HI, 2 * GROW, LO),
                               "maxrss %d vs %d" % (d["hi"][0], d["lo"][0]))
                    self.count(ctx, "file-maxrss-growth-KiB:%s=%d" % (g, (d["hi"][0] - d["lo"][0]) // 1024))
                if "lo" in d and "hi-existing" in d:
                    self.check(ctx, d["hi-existing"][0] - d["lo"][0] < 2 * GROW, d["hi-existing"][1],
                               "peak resident memory (ru_maxrss) for a %d-byte file written to an -o path that already exists within %d bytes of that for a "
                               "%d-byte file written to a new path" % (HI, 2 * GROW, LO), "maxrss %d vs %d" % (d["hi-existing"][0], d["lo"][0]))
                    self.count(ctx, "file-maxrss-growth-KiB:%s(existing -o)=%d" % (g, (d["hi-existing"][0] - d["lo"][0]) // 1024))
            self.cli_forged(ctx, P, kr, envp, envr, dict((g, d["lo"][0]) for g, d in grp.items() if "lo" in d), GROW)
        finally:
            shutil.rmtree(wd, ignore_errors=True)

    CLI_AS_LIMIT_KIB = 1 << 20          # ulimit -v for the forged-file runs: 1 GiB of address space

    @staticmethod
    def limited_job(job):
        """a complete CLI run under `ulimit -v` (address-space limit): (rc, peak RSS, stderr)"""
        return c11_measured_run(job["argv"], job["env"], as_limit_kib=C11.CLI_AS_LIMIT_KIB)

    def cli_forged(self, ctx, P, kr, envp, envr, base_rss, GROW):
        """process level: the CLI's own ciphertexts (first three chunks) with one chunk header's length field forged, decrypted by the real binary
        under a 1 GiB address-space limit: exit status 1 with an Error line, peak RSS as for a genuine small file"""
        rng = ctx.rng
        jobs = []
        for mode, src, hdr in (("pass", "ct_pass_lo.bin", 36), ("key", "ct_key_lo.bin", 132)):
            if not os.path.exists(P(src)) or ("%s-dec" % mode) not in base_rss:
                self.count(ctx, "skipped:cli-forged-%s(no genuine ciphertext / baseline)" % mode)
                continue
            with open(P(src), "rb") as f:
                head = f.read(hdr + 3 * (BIG + 32))
            picks = [(0, 0xFFFFFFFF), (rng.choice([1, 2]), 1 << 31), (rng.choice([0, 1, 2]), 1 << 24), (rng.choice([0, 1, 2]), rng.randrange(1 << 25, 1 << 32))]
            if ctx.thorough():
                picks += [(k, a) for k in (0, 1, 2) for a in (BIG + 1, 1 << 20, 1 << 28, 1 << 30)]
            for i, (k, a) in enumerate(picks):
                off = hdr + k * (BIG + 32)
                tail = rng.choice(["keep", "cut"])
                blob = head[:off + 12] + a.to_bytes(4, "big") + (head[off + 16:] if tail == "keep" else b"")
                name = "forged_%s_%d.bin" % (mode, i)
                open(P(name), "wb").write(blob)
                if mode == "pass":
                    argv, env = ["password", "decrypt", P(name), "-o", P(name + ".out"), "--env-pass"], envp
                else:
                    argv, env = ["decrypt", P(name), "-t", "stream-recipient", "-o", P(name + ".out"), "-k", kr, "--env-pass"], envr
                jobs.append({"argv": argv, "env": env, "mode": mode, "k": k, "a": a, "tail": tail, "sha": hashlib.sha256(blob).hexdigest(), "len": len(blob),
                             "hdr": hdr})
        if not jobs:
            return
        with ThreadPoolExecutor(max_workers=min(len(jobs), vlib.NPROC)) as ex:
            rs = list(ex.map(self.limited_job, jobs))
        for j, r in zip(jobs, rs):
            inp = {"driver": "cli-process", "argv": j["argv"], "env": j["env"], "address_space_limit_KiB": self.CLI_AS_LIMIT_KIB,
                   "note": "input file = the first %d bytes of the CLI's own %s-mode ciphertext of the seeded 8 MiB stream, the 4-byte length field of chunk %d "
                           "(offset %d) overwritten with %d (big endian), rest of the file %s; %d bytes, sha256 %s"
                           % (j["hdr"] + 3 * (BIG + 32), j["mode"], j["k"], j["hdr"] + j["k"] * (BIG + 32) + 12, j["a"],
                              "kept" if j["tail"] == "keep" else "cut off after the header", j["len"], j["sha"])}
            self.ran(ctx, "process/forged-length/%s" % j["mode"])
            self.check(ctx, r["rc"] == 1 and "Error" in r["stderr"], inp,
                       "a forged announced length is refused with exit status 1 and an Error line under a %d KiB address-space limit (no allocation sized by the header)"
                       % self.CLI_AS_LIMIT_KIB, "rc=%s %s" % (r["rc"], r["stderr"][-200:]))
            b = base_rss["%s-dec" % j["mode"]]
            self.check(ctx, r["maxrss"] - b < 2 * GROW, inp,
                       "peak resident memory (ru_maxrss) while rejecting within %d bytes of that of decrypting a genuine %d-byte file (%d)" % (2 * GROW, 8 << 20, b),
                       "maxrss %d" % r["maxrss"])

    def measure(self, ctx):
        MiB = 1 << 20
        small = [0, 1, BIG - 1, BIG, BIG + 1, 2 * BIG, MiB, 64 * MiB]
        huge = [1024 * MiB, 4096 * MiB + 5] if ctx.thorough() else []
        ops = ["mem_key_enc", "mem_key_dec", "mem_pass_enc", "mem_pass_dec"]
        extra = [(MiB, 4096), (MiB, 100000), (3 * MiB, BIG - 1), (MiB + 17, 1)] if ctx.thorough() else [(MiB, 4096), (MiB, 100000), (3 * MiB, BIG - 1)]
        jobs = []
        for prof, binp in (("dev", ctx.bin), ("release", self.rel)):
            for op in ops:
                lines = ["%s %d %d" % (op, n, BIG) for n in small] + ["%s %d %d" % (op, n, rsz) for n, rsz in extra if not (rsz == 1 and prof == "dev")]
                jobs.append((prof, binp, op, lines))
                for n in huge:
                    if prof == "release":
                        jobs.append((prof, binp, op, ["%s %d %d" % (op, n, BIG)]))
        with ThreadPoolExecutor(max_workers=vlib.NPROC) as ex:
            outs = list(ex.map(lambda j: drv(j[1], j[3], timeout=3000), jobs))
        groups = collections.defaultdict(list)
        for (prof, binp, op, lines), rs in zip(jobs, outs):
            for line, r in zip(lines, rs):
                _, n, rsz = line.split()
                n, rsz = int(n), int(rsz)
                inp = {"driver": "libdrv", "profile": prof, "lines": [line], "oracle": "mem"}
                self.ran(ctx, "measure/%s/%s" % (prof, op))
                self.count(ctx, "size:%s" % ("0" if n == 0 else "<64KiB" if n < BIG else "64KiB..1MiB" if n <= MiB else "64MiB" if n <= 64 * MiB else ">=1GiB"))
                bad = self.mem_oracle(op, n, rsz, r)
                ctx.oracle_checks += 1
                if bad:
                    ctx.violations.append({"input": inp, "expected": bad[0], "observed": bad[1] + "  [" + r["raw"][:400] + "]", "finding_key": None})
                    continue
                if rsz == BIG and n >= 2 * BIG:
                    groups[(prof, op)].append((n, int(r["peak"]), int(r["iopeak"]), line))
                if n > 64 * MiB or (n == 64 * MiB and prof == "release"):
                    self.sample(ctx, {"gen": "measure", "profile": prof, "line": line, "peak": int(r["peak"]), "iopeak": int(r["iopeak"]),
                                      "maxlag": int(r["maxlag"]), "maxgap": int(r["maxgap"]), "written": int(r["written"])})
        for (prof, op), g in groups.items():
            pk, io = [x[1] for x in g], [x[2] for x in g]
            inp = {"driver": "libdrv", "profile": prof, "lines": [x[3] for x in g], "oracle": "indep"}
            self.check(ctx, max(pk) - min(pk) < 4096 and max(io) - min(io) < 4096, inp,
                       "peak heap independent of the input length (within 4096 bytes) over lengths %s" % [x[0] for x in g],
                       "peak %s iopeak %s" % (pk, io))
            self.count(ctx, "peak:%s/%s=%d" % (prof, op, max(pk)))

    @staticmethod
    def mem_oracle(op, n, rsz, r):
        if r.get("outcome") != "ok":
            return ("the operation succeeds", r.get("outcome"))
        g = lambda k: int(r.get(k, "-1"))
        key_mode = "key" in op
        hdr = 132 if key_mode else 36
        eff = min(rsz, BIG)
        nrec = max(1, -(-n // eff)) if op.endswith("enc") else max(1, -(-n // BIG))
        if g("iopeak") > STREAM_BOUND:
            return ("heap held across I/O calls <= %d bytes whatever the length" % STREAM_BOUND, "iopeak=%d" % g("iopeak"))
        lim = STREAM_BOUND + (0 if key_mode else SCRYPT_MEM)
        if g("peak") > lim:
            return ("peak heap during the call <= %d bytes whatever the length" % lim, "peak=%d" % g("peak"))
        if op.endswith("enc"):
            if g("read") != n or g("written") != hdr + 32 * nrec + n:
                return ("reads the whole input (%d) and writes %d + 32*%d + %d bytes" % (n, hdr, nrec, n), "read=%d written=%d" % (g("read"), g("written")))
            if g("maxlag") > 2 * BIG + 32 or g("maxgap") > 2 * BIG:
                return ("each chunk is written before more than two further chunks are read (lag <= %d, gap <= %d)" % (2 * BIG + 32, 2 * BIG),
                        "maxlag=%d maxgap=%d" % (g("maxlag"), g("maxgap")))
        else:
            if r.get("match") != "1" or g("written") != n:
                return ("decryption returns exactly the %d generated bytes" % n, "match=%s written=%d" % (r.get("match"), g("written")))
            gap = BIG + 32 + hdr + 1
            lag = BIG + hdr + 32 * (nrec + 1) + 1
            if g("maxgap") > gap or g("maxlag") > lag:
                return ("at most one record is read between two writes (gap <= %d; read-minus-written <= %d = one chunk + ciphertext overhead so far)" % (gap, lag),
                        "maxlag=%d maxgap=%d" % (g("maxlag"), g("maxgap")))
        return None

    def recheck_mem(self, inp, rs):
        op, n, rsz = inp["lines"][0].split()
        return self.mem_oracle(op, int(n), int(rsz), rs[0]) is None

    # ---------------------------------------------------------------- trace shape vs the model
    def traces(self, ctx):
        rng = ctx.rng
        full = ctx.thorough()
        encs = []
        for cs in ([1, 2, 3, 4] if full else [2, 3]):
            key, aad = ctx.rbytes(32), rng.choice([b"", PASS_MAGIC])
            for n in range(0, 10 if full else 8):
                P = ctx.rbytes(n)
                for parts in all_partitions(n, cs):
                    ws = rng.choice(["-", "c1,c1,c1,c3", "c3,c5,c1", "c100"])
                    encs.append(Case("enc_chunks", key=key, aad=aad, cs=cs, data=P, rs=script_of(parts), ws=ws, tags=["enc-trace", "cs=%d" % cs]))
        if len(encs) > (1200 if full else 300):
            encs = rng.sample(encs, 1200 if full else 300)
        vlib.run_impl(ctx.bin, encs)
        decs = []
        for c in encs:
            if c.result["code"] == 0:
                rs = rng.choice(["-", "c1,c1,c1,c1,c1,c1,c1", "c5,c1,c7,c2", "c16,c1", "c3,c3,c3,c3,c3,c3,c3,c3,c3,c3,c3,c3"])
                decs.append(Case("dec_chunks", key=c.a["key"], aad=c.a["aad"], cs=c.a["cs"], data=c.result["out"], rs=rs,
                                 ws=rng.choice(["-", "c1,c1", "c2,c1,c1"]), tags=["dec-trace", "cs=%d" % c.a["cs"]]))

        def enc_orc(c):
            def f(res):
                cs = c.a["cs"]
                if res["code"] != 0:
                    return ("encryption over a conforming source/sink succeeds", res["outcome"])
                for t in res["trace"]:
                    if t[0] == 1 and t[1] > cs:
                        return ("no read request larger than the chunk size %d" % cs, "read request of %d" % t[1])
                    if t[0] == 3 and t[1] > cs + 16:
                        return ("no write larger than chunk + tag", "write of %d" % t[1])
                la = trace_lookahead(res["trace"])
                if la > 2:
                    return ("at most 2 read calls are outstanding (chunk held + look-ahead) before a record is flushed", "%d outstanding" % la)
                return None
            return f

        def dec_orc(c):
            def f(res):
                cs = c.a["cs"]
                if res["code"] != 0:
                    return ("decryption of the implementation's own file succeeds", res["outcome"])
                since = 0
                for t in res["trace"]:
                    if t[0] == 1:
                        if t[1] > cs + 16:
                            return ("no read request larger than chunk + tag", "read request of %d" % t[1])
                        since += t[2]
                        if since > 16 + cs + 16 + 1:
                            return ("at most one record (+ the 1-byte probe) is read before its plaintext is flushed", "%d bytes read since the last flush" % since)
                    elif t[0] == 3 and t[1] > cs:
                        return ("no write larger than the chunk size", "write of %d" % t[1])
                    elif t[0] == 5:
                        since = 0
                return None
            return f
        for c in encs:
            c.expect_fn = enc_orc(c)
        for c in decs:
            c.expect_fn = dec_orc(c)
        allc = encs + decs
        self.run_cases(ctx, allc, model=True)
        # look-ahead computed on the model's trace = computed on the implementation's trace
        args = lambda c: "[] %s %s %d %s %s %s %s" % (g_bytes(c.a["key"]), g_bytes(c.a["aad"]), c.a["cs"], g_bytes(c.a["data"]),
                                                      g_rscript(c.a.get("rs", "-")), vlib.g_wscript(c.a.get("ws", "-")), vlib.g_fscript(c.a.get("fs", "-")))
        sel = encs if full else encs[::3]
        items = [(i, "(enc_lookahead %s =? %d)" % (args(c), trace_lookahead(c.result["trace"]))) for i, c in enumerate(sel)]
        res, log = coq_eval(ctx.pid + "l", items)
        self.model_results(ctx, "enc-lookahead", items, res, log, dict((i, c.full()) for i, c in enumerate(sel)),
                           dict((i, "lookahead=%d %s" % (trace_lookahead(c.result["trace"]), c.result["raw"][:300])) for i, c in enumerate(sel)))
        if coq_has("Model/Monitors.v"):
            sel = allc if full else allc[::2]
            items = [(i, "mon_%s %s" % ("enc" if c.op == "enc_chunks" else "dec", args(c))) for i, c in enumerate(sel)]
            res, log = coq_eval(ctx.pid + "m", items, preamble=MON_PREAMBLE)
            self.model_results(ctx, "monitors", items, res, log, dict((i, c.full()) for i, c in enumerate(sel)),
                               dict((i, "trace compared separately; the model's monitors must accept") for i, c in enumerate(sel)))
        else:
            self.count(ctx, "skipped:monitors(Model/Monitors.v absent)")


# =========================================================================== C18
SCRYPT_PREAMBLE = """From Kestrel.Spec Require Import Salsa Scrypt Pbkdf2.
From Kestrel.Model Require ScryptImpl.
Definition pb1 (pw s : bytes) (l : nat) : bytes := pbkdf2 pw s 1 l.
(* RFC 7914 transcription (Spec/Scrypt.v) over the Gallina PBKDF2-HMAC-SHA256 *)
Definition run_scrypt_small (pw salt : bytes) (n r p l : N) : obs :=
  pure_obs 0 (Scrypt.scrypt pb1 pw salt (N.to_nat n) (N.to_nat r) (N.to_nat p) (N.to_nat l)).
(* line-by-line model of src/crypto/src/scrypt.rs (Model/ScryptImpl.v) *)
Definition run_scrypt_impl (pw salt : bytes) (n r p l : N) : obs :=
  match ScryptImpl.scrypt pb1 pw salt n r p l with
  | Ok b => pure_obs 0 b | Panic _ => pure_obs 1 [] | _ => pure_obs 2 [] end.
Definition run_romix (r n : N) (b : bytes) : obs := pure_obs 0 (scryptROMix (N.to_nat r) b (N.to_nat n)).
Definition run_blockmix (r : N) (b : bytes) : obs := pure_obs 0 (scryptBlockMix (N.to_nat r) b).
Definition run_salsa (b : bytes) : obs := pure_obs 0 (salsa20_8_bytes b).
"""

M32 = 0xffffffff


def _rotl(x, n):
    return ((x << n) & M32) | (x >> (32 - n))


def py_salsa20_8(b):
    """RFC 7914 section 3 (Salsa20/8 core) on 64 bytes"""
    w = [int.from_bytes(b[4 * i:4 * i + 4], "little") for i in range(16)]
    x = list(w)
    for _ in range(4):
        for (a, bb, c, d) in ((0, 4, 8, 12), (5, 9, 13, 1), (10, 14, 2, 6), (15, 3, 7, 11),
                              (0, 1, 2, 3), (5, 6, 7, 4), (10, 11, 8, 9), (15, 12, 13, 14)):
            x[bb] ^= _rotl((x[a] + x[d]) & M32, 7)
            x[c] ^= _rotl((x[bb] + x[a]) & M32, 9)
            x[d] ^= _rotl((x[c] + x[bb]) & M32, 13)
            x[a] ^= _rotl((x[d] + x[c]) & M32, 18)
    return b"".join(((x[i] + w[i]) & M32).to_bytes(4, "little") for i in range(16))


def _xor(a, b):
    return bytes(x ^ y for x, y in zip(a, b))


def py_blockmix(B, r):
    X = B[(2 * r - 1) * 64:2 * r * 64]
    Y = []
    for i in range(2 * r):
        X = py_salsa20_8(_xor(X, B[64 * i:64 * i + 64]))
        Y.append(X)
    return b"".join(Y[0::2]) + b"".join(Y[1::2])


def py_romix(B, N, r):
    X, V = B, []
    for _ in range(N):
        V.append(X)
        X = py_blockmix(X, r)
    for _ in range(N):
        j = int.from_bytes(X[(2 * r - 1) * 64:(2 * r - 1) * 64 + 64], "little") % N
        X = py_blockmix(_xor(X, V[j]), r)
    return X


def py_scrypt(pw, salt, N, r, p, dklen):
    B = hashlib.pbkdf2_hmac("sha256", pw, salt, 1, p * 128 * r)
    B = b"".join(py_romix(B[128 * r * i:128 * r * (i + 1)], N, r) for i in range(p))
    return hashlib.pbkdf2_hmac("sha256", pw, B, 1, dklen)


def ref_scrypt(pw, salt, N, r, p, dklen):
    if hasattr(hashlib, "scrypt"):
        return hashlib.scrypt(pw, salt=salt, n=N, r=r, p=p, dklen=dklen, maxmem=2 ** 31 - 1)
    return py_scrypt(pw, salt, N, r, p, dklen)


# call sequences through the model of the exported C function (Model/ScryptFfi.v) over ONE abstract memory that is threaded
# through the calls (password at 0, salt at 4096, the 0x5A-prefilled output region at 8192): the model's only state is the memory
FFI_SEQ_PREAMBLE = SCRYPT_PREAMBLE + """From Kestrel.Model Require ScryptFfi.
Definition ffi_step (m : ScryptFfi.mem) (c : bytes * bytes * (N * N * N * N)) : ScryptFfi.mem * bytes :=
  let '(pw, salt, (n, r, p, l)) := c in
  let m1 := ScryptFfi.mem_store (ScryptFfi.mem_store m 0 pw) 4096 salt in
  let m2 := ScryptFfi.mem_store m1 8192 (List.repeat 90 (N.to_nat l)) in
  let m3 := ScryptFfi.ffi_scrypt_mem pb1 m2 0 (N.of_nat (List.length pw)) 4096 (N.of_nat (List.length salt)) n r p 8192 l in
  (m3, ScryptFfi.mem_load m3 8192 l).
Fixpoint ffi_seq (m : ScryptFfi.mem) (cs : list (bytes * bytes * (N * N * N * N))) : list bytes :=
  match cs with
  | [] => []
  | c :: t => let '(m', o) := ffi_step m c in o :: ffi_seq m' t
  end.
Definition run_ffi_seq (cs : list (bytes * bytes * (N * N * N * N))) : list bytes := ffi_seq (fun _ => 0) cs.
(* the same calls, each from the RFC transcription alone: no state at all *)
Definition run_spec_seq (cs : list (bytes * bytes * (N * N * N * N))) : list bytes :=
  map (fun c => let '(pw, salt, (n, r, p, l)) := c in
                Scrypt.scrypt pb1 pw salt (N.to_nat n) (N.to_nat r) (N.to_nat p) (N.to_nat l)) cs.
Definition seq_eqb (a b : list bytes) : bool := list_eqb (list_eqb N.eqb) a b.
"""


# calls with parameters OUTSIDE the documented domain mixed with valid ones (C18.rejected_calls): the model (Model/ScryptImpl.v, the
# function C18_asserts / C18_total characterise) has no state, so every call is classified from its own arguments alone
REJ_SEQ_PREAMBLE = FFI_SEQ_PREAMBLE + """Definition call_code {E : Type} (o : outcome E bytes) : N * bytes :=
  match o with
  | Ok b => (0, b) | Panic PAssert => (1, []) | Panic PArith => (2, []) | Panic PUnwrap => (3, [])
  | Panic PSliceIndex => (4, []) | _ => (5, [])
  end.
Definition run_impl_calls (cs : list (bytes * bytes * (N * N * N * N))) : list (N * bytes) :=
  map (fun c => let '(pw, salt, (n, r, p, l)) := c in call_code (ScryptImpl.scrypt pb1 pw salt n r p l)) cs.
Definition calls_eqb (a b : list (N * bytes)) : bool :=
  list_eqb (fun x y => N.eqb (fst x) (fst y) && list_eqb N.eqb (snd x) (snd y)) a b.
(* the exported C function over one memory: a call that is not Ok ends the process (a panic cannot cross extern "C"),
   so the outputs are those of the calls before it; the flag says whether the sequence was cut short *)
Fixpoint ffi_seq_stop (m : ScryptFfi.mem) (cs : list (bytes * bytes * (N * N * N * N))) : list bytes * bool :=
  match cs with
  | [] => ([], false)
  | c :: t =>
      let '(pw, salt, (n, r, p, l)) := c in
      let m1 := ScryptFfi.mem_store (ScryptFfi.mem_store m 0 pw) 4096 salt in
      let m2 := ScryptFfi.mem_store m1 8192 (List.repeat 90 (N.to_nat l)) in
      match ScryptFfi.ffi_scrypt pb1 m2 0 (N.of_nat (List.length pw)) 4096 (N.of_nat (List.length salt)) n r p 8192 l with
      | Ok m3 => let '(os, st) := ffi_seq_stop m3 t in (ScryptFfi.mem_load m3 8192 l :: os, st)
      | _ => ([], true)
      end
  end.
Definition ffi_stop_eqb (cs : list (bytes * bytes * (N * N * N * N))) (outs : list bytes) (cut : bool) : bool :=
  let '(os, st) := ffi_seq_stop (fun _ => 0) cs in seq_eqb os outs && Bool.eqb st cut.
"""


class C18(MiscProp):
    run_modules = MiscProp.run_modules + ('Spec/Salsa.v', 'Spec/Scrypt.v', 'Spec/Pbkdf2.v', 'Spec/ScryptConcrete.v', 'Spec/Hex.v', 'Model/ScryptImpl.v', 'Model/ScryptFfi.v')
    id = "C18"
    rule = ("library: scrypt(pw, salt, N, r, p, dkLen) for the full grid N in {2,4,..,1024} x r in 1..4 x p in 1..3 x dkLen in "
            "{1,16,31,32,33,64,100,200} (thorough: N up to 2^15, r up to 16, p up to 8; full grid below N = 2048, random sample above), "
            "password/salt lengths 0..70 (incl. 0, 63, 64, 65), compared with OpenSSL's scrypt (hashlib.scrypt) and, for small "
            "parameters, with a pure-Python transcription of RFC 7914 that is itself checked against OpenSSL and the RFC vectors; "
            "the internals (salsa_xor, block_mix, smix hooks) against the RFC's Salsa20/8, BlockMix, ROMix on random and "
            "extreme blocks; when Spec/Scrypt.v and Model/ScryptImpl.v exist also against both Gallina versions (N <= 64, r <= 2). "
            "C ABI: the cdylib built from the working tree called through ctypes with 0xA5 guard zones and a 0x5A-prefilled output "
            "buffer: output = the RFC value, guards intact, exactly dkLen bytes written, for requests with r != p, "
            "|pw| != |salt|, pw != salt, dkLen in {1,31,32,33,64,200}; passwords of 1..100 bytes ending in one / two NUL bytes (library and C ABI); in-place use "
            "(the output region placed inside the salt buffer resp. the password buffer at several offsets and lengths: the value is that of the "
            "ORIGINAL inputs, the rest of the aliased buffer unchanged). call sequences: 2-4 calls made IN ONE PROCESS (C ABI: one process per sequence "
            "and all sequences in one further process; library: all calls in one driver process) whose members share the concatenation password||salt "
            "with the boundary moved, repeat one request with equal / shrinking / growing dkLen, permute or change one of N, r, p, exchange password and "
            "salt, or differ by one byte at either end; every call must return the RFC value of its own arguments (OpenSSL), and for N <= 16, r, p <= 2 "
            "the whole sequence is also evaluated through Model/ScryptFfi.v's ffi_scrypt over one memory threaded through the calls and through "
            "Spec/Scrypt.v. refused calls, then valid ones: sequences IN ONE PROCESS in which calls with parameters outside the domain (N = 0, 1, not a "
            "power of two; r = 0; p = 0; dkLen = 0; r*p >= 2^30), made on the driver's thread (panic caught), on a fresh thread which the panic ends, or "
            "caught on a fresh thread, precede valid calls on the same / another thread (incl. the production parameters): every valid call must return "
            "the RFC value; the outcome of every call (value or panic class) is compared with Model/ScryptImpl.v (C18_asserts / C18_total); the same "
            "sequences through the C ABI in a forked child with the replies handed over call by call (the refused call ends the child: the valid calls "
            "before it, and after it should it return, must be exact; Model/ScryptFfi.v says where the sequence stops). thorough tier: Spec/Scrypt.v's rfc_scrypt itself evaluated by coqc at the production parameters N = 32768, r = 8, p = 1 "
            "(one password/salt, ~50 min, 7 GB, cached) and compared with the library and with OpenSSL. corners of the cost-parameter domain (library and "
            "C ABI): every N in 2048..32768 with r = 1, 2 (thorough: 1, 2, 3, 15, 16) incl. N = 32768 with r = 1, N = 2, 4, 8 with r = 15, 16, p up to 8; C ABI with 64 guard "
            "bytes on both sides for EVERY dkLen 1..100 (thorough 1..300). non-trivial = all; distinct = distinct requests")
    assumptions = ["OpenSSL's EVP scrypt (through Python's hashlib) is the reference RFC 7914 implementation",
                   "what a call with parameters outside the documented domain (N not a power of two or < 2, r = 0, p = 0, dkLen = 0, r*p >= 2^30) itself does is "
                   "not demanded by the property (it is compared with the model's panic class only); such calls are made to see that the valid calls AFTER "
                   "them are exact; parameters that pass the assertions but exceed the machine's memory are not exercised",
                   "the C ABI check sees writes within 64 bytes before / after the output buffer; stray writes elsewhere are not observable"]
    trusted_extra = ["harness/ffidrv/call.py (ctypes caller with guard zones)", "Python hashlib (OpenSSL) scrypt and PBKDF2"]

    def run(self, ctx):
        if not self.selftest(ctx):
            return
        self.library(ctx)
        self.internals(ctx)
        self.ffi(ctx)
        self.call_sequences(ctx)
        self.rejected_calls(ctx)
        if ctx.thorough():
            self.production_gallina(ctx)

    # ---------------------------------------------------------------- the production parameters, evaluated in Gallina itself
    def production_gallina(self, ctx):
        """thorough only: Spec/Scrypt.v's RFC 7914 definition (the right-hand side of C18_impl_refines_rfc) evaluated by coqc
        (vm_compute) at kestrel's own parameters N = 32768, r = 8, p = 1, dkLen = 32 on one password and salt, compared with
        the library's value.  About 50 minutes and 7 GB for one evaluation, so the Gallina value is cached under .cache keyed by
        the input and by the text of the Spec files it is computed from."""
        coqd = os.path.join(vlib.VERIF, "coq")
        if not coq_has("Spec/Scrypt.v", "Spec/ScryptConcrete.v", "Spec/Hex.v"):
            return
        pw, salt = b"password", bytes(range(32))
        h = hashlib.sha256()
        for f in ("Bytes.v", "Spec/Sha256.v", "Spec/Hmac.v", "Spec/Pbkdf2.v", "Spec/Salsa.v", "Spec/Scrypt.v", "Spec/ScryptConcrete.v"):
            fp = os.path.join(coqd, f)
            h.update(open(fp, "rb").read() if os.path.exists(fp) else b"-")
        h.update(pw + b"|" + salt)
        cache = os.path.join(vlib.CACHE, "c18_prod_%s.hex" % h.hexdigest()[:24])
        gal = None
        if os.path.exists(cache):
            gal = open(cache).read().strip()
            self.count(ctx, "production-gallina:cached")
        else:
            d = tempfile.mkdtemp(prefix="c18prod_", dir=vlib.CACHE)
            try:
                with open(os.path.join(d, "prod.v"), "w") as f:
                    f.write("From Kestrel Require Import Bytes.\nFrom Coq Require Import String.\n"
                            "From Kestrel.Spec Require Import Scrypt ScryptConcrete Hex.\nLocal Open Scope string_scope.\n"
                            "Eval vm_compute in (rfc_scrypt (hx \"%s\") (hx \"%s\") 32768 8 1 32).\n" % (pw.hex(), salt.hex()))
                try:
                    r = subprocess.run(["coqc", "-q", "-noglob", "-Q", coqd, "Kestrel", "prod.v"], cwd=d, capture_output=True, text=True, timeout=4 * 3600)
                    m = re.search(r"= \[(.*?)\]\s*:\s*bytes", r.stdout, re.S)
                    if r.returncode == 0 and m:
                        gal = bytes(int(x) for x in re.findall(r"(\d+)%N", m.group(1))).hex()
                        os.makedirs(vlib.CACHE, exist_ok=True)
                        open(cache, "w").write(gal + "\n")
                except subprocess.TimeoutExpired:
                    pass
            finally:
                shutil.rmtree(d, ignore_errors=True)
            self.count(ctx, "production-gallina:evaluated" if gal else "production-gallina:not-evaluated")
        if gal is None:
            return
        line = "scrypt %s %s 32768 8 1 32" % (hexs(pw), hexs(salt))
        r_ = drv(ctx.bin, [line], timeout=600)[0]
        inp = {"driver": "libdrv", "lines": [line], "oracle": "scrypt-gallina-production"}
        self.ran(ctx, "library/production-parameters-vs-gallina")
        got = r_.get("out", "-") if r_.get("outcome") == "ok" else None
        self.check(ctx, got == gal, inp, "Spec/Scrypt.v rfc_scrypt evaluated by coqc at N=32768 r=8 p=1: " + gal, r_["raw"][:300])
        ctx.agreed += 1 if got == gal else 0
        if ref_scrypt(pw, salt, 32768, 8, 1, 32).hex() != gal:
            self.machinery(ctx, "Gallina rfc_scrypt and OpenSSL disagree at the production parameters")

    # ---------------------------------------------------------------- call sequences in ONE process (C ABI and library)
    def gen_sequences(self, ctx):
        """families of call sequences whose members differ in where a boundary lies or in one argument only; (family, [request, ...])"""
        rng = ctx.rng
        full = ctx.thorough()
        DKS = [1, 16, 31, 32, 33, 64]

        def prm(small):
            if small:
                return rng.choice([2, 4, 8, 16]), rng.choice([1, 1, 2]), rng.choice([1, 1, 2])
            return rng.choice([2, 16, 64, 256, 1024]), rng.choice([1, 2, 3, 8]), rng.choice([1, 2, 3])

        def dks(k, small):
            pool = [d for d in DKS if d <= 64] if small else DKS + [100, 200]
            how = rng.choice(["same", "down", "up", "any"])
            if how == "same":
                return [rng.choice(pool)] * k
            ds = [rng.choice(pool) for _ in range(k)]
            return sorted(ds, reverse=True) if how == "down" else sorted(ds) if how == "up" else ds

        def req(pw, salt, n, r, p, dk):
            return {"pw": pw.hex(), "salt": salt.hex(), "n": n, "r": r, "p": p, "dklen": dk, "guard": rng.choice([16, 64])}

        seqs = []
        reps = 6 if full else 2
        for small in (True, False):
            for _ in range(reps):
                # A. the password/salt boundary moves over one and the same concatenation
                n, r, p = prm(small)
                s_ = ctx.rbytes(rng.randrange(2, 25)) if rng.random() < 0.8 else rng.choice([b"hunter2NaCl", b"abc", b"\x00\x00\x00"])
                cuts = rng.sample(range(0, len(s_) + 1), min(len(s_) + 1, rng.choice([2, 3])))
                if rng.random() < 0.3:
                    cuts[-1] = rng.choice([0, len(s_)])
                    cuts = list(dict.fromkeys(cuts))
                    if len(cuts) < 2:
                        cuts = [0, len(s_)]
                calls = [req(s_[:c], s_[c:], n, r, p, dk) for c, dk in zip(cuts, dks(len(cuts), small))]
                if rng.random() < 0.4:      # an unrelated call in between
                    calls.insert(1, req(ctx.rbytes(rng.randrange(0, 9)), ctx.rbytes(rng.randrange(0, 9)), *prm(small), rng.choice(DKS)))
                seqs.append(("boundary-shift", calls))
                # B. the identical request repeated, output lengths equal / shrinking / growing
                n, r, p = prm(small)
                pw, salt = ctx.rbytes(self.plen(ctx) % 40), ctx.rbytes(self.plen(ctx) % 40)
                k = rng.choice([2, 3])
                seqs.append(("repeat", [req(pw, salt, n, r, p, dk) for dk in dks(k, small)]))
                # C. same password and salt, the cost parameters permuted / one of them changed
                n, r, p = prm(small)
                pw, salt = ctx.rbytes(rng.randrange(0, 20)), ctx.rbytes(rng.randrange(0, 20))
                trip = [(n, r, p), (n, p, r) if r != p else (n, r + 1, p), (n * 2, r, p), (n, r, p + 1), (max(2, n // 2), r, p)]
                trip = [trip[0]] + rng.sample(trip[1:], rng.choice([1, 2]))
                rng.shuffle(trip)
                dk = rng.choice(DKS)
                seqs.append(("parameters-change", [req(pw, salt, a, b, c, dk) for (a, b, c) in trip]))
                # D. password and salt exchanged, then back
                n, r, p = prm(small)
                a, b = ctx.rbytes(rng.randrange(1, 12)), ctx.rbytes(rng.randrange(1, 12))
                dk = rng.choice(DKS)
                seqs.append(("exchange", [req(a, b, n, r, p, dk), req(b, a, n, r, p, dk)] + ([req(a, b, n, r, p, dk)] if rng.random() < 0.5 else [])))
                # E. one side extended / truncated by a byte, or emptied into the other
                n, r, p = prm(small)
                a, b = ctx.rbytes(rng.randrange(1, 12)), ctx.rbytes(rng.randrange(1, 12))
                ext = rng.choice([b"\x00", b"\x01", ctx.rbytes(1)])
                var = rng.sample([(a + ext, b), (a, b + ext), (a[:-1], b), (a, b[:-1]), (a + b, b""), (b"", a + b), (a, ext + b), (a[:-1], a[-1:] + b)], 2)
                dl = dks(3, small)
                seqs.append(("one-byte-apart", [req(a, b, n, r, p, dl[0])] + [req(x, y, n, r, p, d) for (x, y), d in zip(var, dl[1:])]))
        # the concatenation classic, fixed
        seqs.append(("boundary-shift", [req(b"ab", b"c", 4, 1, 1, 32), req(b"a", b"bc", 4, 1, 1, 32), req(b"abc", b"", 4, 1, 1, 16), req(b"", b"abc", 4, 1, 1, 16)]))
        return seqs

    @staticmethod
    def seq_is_small(calls):
        return all(q["n"] <= 16 and q["r"] <= 2 and q["p"] <= 2 and q["dklen"] <= 64 and len(q["pw"]) <= 80 and len(q["salt"]) <= 80 for q in calls)

    def call_sequences(self, ctx):
        if not os.path.exists(vlib.FFI_SO):
            return
        seqs = self.gen_sequences(ctx)
        # C ABI: one process per sequence, and ALL sequences one after the other in one further process
        batch = [{"seq": [dict(q) for q in calls]} for _, calls in seqs]
        batch.append({"seq": [dict(q) for _, calls in seqs for q in calls]})
        outs = ffi_call(batch)
        # library: all calls in order in one driver process
        flat = [q for _, calls in seqs for q in calls]
        lib = drv(ctx.bin, ["scrypt %s %s %d %d %d %d" % (q["pw"] or "-", q["salt"] or "-", q["n"], q["r"], q["p"], q["dklen"]) for q in flat])
        wants = [ref_scrypt(bytes.fromhex(q["pw"]), bytes.fromhex(q["salt"]), q["n"], q["r"], q["p"], q["dklen"]) for q in flat]
        pos = 0
        items, inputs, impls = [], {}, {}
        allrep = outs[-1].get("seq") if isinstance(outs[-1], dict) else None
        for si, ((fam, calls), o) in enumerate(zip(seqs, outs)):
            reps = o.get("seq")
            self.ran(ctx, "sequence/ffi/%s" % fam)
            self.count(ctx, "sequence-length=%d" % len(calls))
            inp_all = {"driver": "ffidrv/call.py", "ffi_seq": calls, "note": "the calls are made in this order in ONE process"}
            if not self.check(ctx, isinstance(reps, list) and len(reps) == len(calls), inp_all, "every call of the sequence returns", json.dumps(o)[:400]):
                pos += len(calls)
                continue
            for ci, (q, rep) in enumerate(zip(calls, reps)):
                want = wants[pos + ci]
                inp = dict(inp_all, failing_call=ci)
                self.check(ctx, rep.get("out") == want.hex() and rep.get("guard_ok") is True, inp,
                           "call %d of the sequence writes the RFC 7914 value of ITS OWN arguments, %s, whatever was computed before; guards intact"
                           % (ci, want.hex()[:128]), json.dumps(rep)[:400])
                if allrep and len(allrep) == len(flat):
                    self.check(ctx, allrep[pos + ci].get("out") == want.hex(), {"driver": "ffidrv/call.py", "ffi_seq": flat[:pos + ci + 1], "failing_call": pos + ci,
                                                                                  "note": "the calls are made in this order in ONE process"},
                               "call %d of the long sequence writes the RFC 7914 value of its own arguments %s" % (pos + ci, want.hex()[:128]),
                               json.dumps(allrep[pos + ci])[:400])
                l = lib[pos + ci]
                self.check(ctx, l.get("outcome") == "ok" and l.get("out") == want.hex(),
                           {"driver": "libdrv", "lines": ["scrypt %s %s %d %d %d %d" % (x["pw"] or "-", x["salt"] or "-", x["n"], x["r"], x["p"], x["dklen"])
                                                          for x in flat[:pos + ci + 1]], "oracle": "scrypt_seq"},
                           "library: the last call of this driver script returns the RFC 7914 value " + want.hex()[:128], l["raw"][:300])
            if self.seq_is_small(calls):
                g = "[" + "; ".join("(%s, %s, (%d, %d, %d, %d))" % (g_bytes(bytes.fromhex(q["pw"])), g_bytes(bytes.fromhex(q["salt"])), q["n"], q["r"], q["p"], q["dklen"])
                                    for q in calls) + "]"
                obs = "[" + "; ".join(g_bytes(bytes.fromhex(rep.get("out", ""))) for rep in reps) + "]"
                items.append((si, "seq_eqb (run_ffi_seq %s) %s && seq_eqb (run_spec_seq %s) %s" % (g, obs, g, obs), 2 * sum(q["n"] * q["r"] * q["p"] + 4 for q in calls)))
                inputs[si], impls[si] = inp_all, json.dumps(reps)[:600]
            pos += len(calls)
        self.check(ctx, allrep is not None and len(allrep) == len(flat), {"driver": "ffidrv/call.py", "ffi_seq": flat}, "the long sequence (all calls in one process) returns",
                   json.dumps(outs[-1])[:300])
        if coq_has("Spec/Scrypt.v", "Model/ScryptImpl.v", "Model/ScryptFfi.v", "Spec/Salsa.v", "Spec/Pbkdf2.v"):
            if not ctx.thorough() and len(items) > 14:
                items = ctx.rng.sample(items[:-1], 13) + [items[-1]]
            res_m, log = coq_eval(ctx.pid + "q", items, preamble=FFI_SEQ_PREAMBLE)
            self.model_results(ctx, "gallina-ffi-call-sequences(ScryptFfi over one memory + RFC spec)", items, res_m, log, inputs, impls)
        else:
            self.count(ctx, "skipped:gallina-ffi-call-sequences(Model/ScryptFfi.v absent)")
        self.sample(ctx, {"gen": "sequence", "sequences": len(seqs), "calls": len(flat), "example": seqs[-1][1][:2]})

    def recheck_scrypt_seq(self, inp, rs):
        _, pw, salt, N, r, p, dk = inp["lines"][-1].split()
        return rs[-1].get("outcome") == "ok" and unhex(rs[-1]["out"]) == ref_scrypt(unhex(pw), unhex(salt), int(N), int(r), int(p), int(dk))

    def replay(self, ctx, payload):
        inp = payload.get("input", {})
        if isinstance(inp, dict) and inp.get("ffi_rej_seq"):
            calls = [dict(q) for q in inp["ffi_rej_seq"]]
            rep = ffi_call([{"seq": calls, "partial": True}])[0]
            verdicts = self.judge_ffi_rej(calls, rep)
            return {"holds": all(v[0] for v in verdicts), "expected": payload.get("expected"), "implementation": rep,
                    "failed": [v[1:] for v in verdicts if not v[0]]}
        if isinstance(inp, dict) and inp.get("ffi_seq"):
            calls = [dict(q) for q in inp["ffi_seq"]]
            rep = ffi_call([{"seq": calls}])[0]
            out = {"holds": False, "expected": payload.get("expected"), "implementation": rep}
            reps = rep.get("seq")
            if isinstance(reps, list) and len(reps) == len(calls):
                out["holds"] = all(r_.get("guard_ok") is True and r_.get("out") == ref_scrypt(bytes.fromhex(q["pw"]), bytes.fromhex(q["salt"]), q["n"], q["r"], q["p"],
                                                                                                q["dklen"]).hex() for q, r_ in zip(calls, reps))
            return out
        return super().replay(ctx, payload)

    # ---------------------------------------------------------------- rejected calls, then valid calls, in ONE process
    @staticmethod
    def in_domain(n, r, p, dk):
        """the property's domain (N a power of two > 1, r, p >= 1, r*p < 2^30, dkLen >= 1); the memory bound is the generator's business"""
        return n > 1 and n & (n - 1) == 0 and r >= 1 and p >= 1 and r * p < (1 << 30) and dk >= 1

    def gen_rejected(self, ctx):
        """cost parameters / output length OUTSIDE the documented domain, all of which the library refuses in its parameter
        assertions before it allocates anything (dkLen = 0: at the very end of a small computation): (kind, (n, r, p, dk))"""
        rng = ctx.rng
        kind = rng.choice(["n=0", "n=1", "n-not-a-power-of-two", "n-not-a-power-of-two", "r=0", "p=0", "r=p=0", "dkLen=0", "r*p>=2^30"])
        n, r, p, dk = rng.choice([2, 4, 8, 16]), rng.choice([1, 2]), rng.choice([1, 2]), rng.choice([1, 16, 32, 33, 64])
        if kind == "n=0":
            n = 0
        elif kind == "n=1":
            n = 1
        elif kind == "n-not-a-power-of-two":
            n = rng.choice([3, 3, 5, 6, 7, 12, 15, 17, 24, 1000, 1023, 32767, 32769, 65535, 3 << rng.randrange(1, 30), 2 ** 31 + 1, 2 ** 32 - 1,
                            rng.randrange(3, 2 ** 32) | 1, (1 << rng.randrange(2, 32)) - 1, (1 << rng.randrange(2, 31)) + 1])
        elif kind == "r=0":
            r = 0
        elif kind == "p=0":
            p = 0
        elif kind == "r=p=0":
            r = p = 0
        elif kind == "dkLen=0":
            dk = 0
        else:
            r, p = rng.choice([(32768, 32768), (1 << 30, 1), (1, 1 << 30), (65536, 65536), (2 ** 32 - 1, 2 ** 32 - 1), (1 << 20, 1 << 10), (2 ** 32 - 1, 1),
                               (3, 1 << 29), (1 << 15, 1 << 16)])
        assert not self.in_domain(n, r, p, dk)
        return kind, (n, r, p, dk)

    def gen_rejected_sequences(self, ctx):
        """(family, [(where, request)]): where = main (the driver's thread, panic caught there), thr (a fresh thread which the
        panic ends), thrc (a fresh thread, panic caught on it).  Requests outside the domain carry "rejected": kind."""
        rng = ctx.rng

        def val(prod=False, small=False):
            if prod:
                n, r, p, dk = 32768, 8, 1, 32
            elif small:      # within what the Gallina model evaluates quickly
                n, r, p, dk = rng.choice([2, 4, 8, 16]), rng.choice([1, 1, 2]), rng.choice([1, 1, 2]), rng.choice([1, 16, 31, 32, 33, 64])
            else:
                n, r, p, dk = rng.choice([2, 4, 8, 16, 16, 64, 1024]), rng.choice([1, 1, 2, 3]), rng.choice([1, 1, 2, 3]), rng.choice([1, 16, 31, 32, 33, 64])
                if n > 16:
                    r, p = rng.choice([(1, 1), (8, 1), (2, 3)])
            return {"pw": ctx.rbytes(rng.randrange(0, 20)).hex(), "salt": ctx.rbytes(rng.randrange(0, 20)).hex(), "n": n, "r": r, "p": p, "dklen": dk,
                    "guard": rng.choice([16, 64])}

        def rej():
            kind, (n, r, p, dk) = self.gen_rejected(ctx)
            return {"pw": ctx.rbytes(rng.randrange(0, 12)).hex(), "salt": ctx.rbytes(rng.randrange(0, 12)).hex(), "n": n, "r": r, "p": p, "dklen": dk,
                    "guard": 16, "rejected": kind}

        seqs = []
        for rep in range(8 if ctx.thorough() else 2):
            sm = rep % 2 == 0
            v1 = val(small=sm)
            seqs.append(("same-thread", [("main", v1), ("main", rej()), ("main", dict(v1)), ("main", val(small=sm))]))
            seqs.append(("rejected-first/valid-on-another-thread", [("main", rej()), ("thr", val(small=sm)), ("main", val(small=sm))]))
            v1 = val(small=sm)
            seqs.append(("rejected-call-ends-a-worker-thread", [("thr", v1), ("thr", rej()), ("main", dict(v1)), ("thr", val(small=sm))]))
            seqs.append(("rejected-call-caught-on-a-worker-thread", [("thrc", rej()), ("main", val(small=sm)), ("thrc", val(small=sm))]))
            seqs.append(("several-rejections", [(rng.choice(["main", "thr", "thrc"]), rej()) for _ in range(rng.choice([2, 3]))] +
                         [(rng.choice(["main", "thr"]), val(small=sm)), (rng.choice(["main", "thr"]), val(small=sm))]))
        seqs.append(("production-parameters-after-a-rejection", [(rng.choice(["main", "thr"]), rej()), ("main", val(prod=True))]))
        # the documented refusal itself, fixed: "n must be larger than 1 and a power of 2"
        seqs.append(("same-thread", [("main", {"pw": "70617373776f7264", "salt": "4e61436c", "n": 3, "r": 1, "p": 1, "dklen": 32, "guard": 16,
                                              "rejected": "n-not-a-power-of-two"}),
                                     ("main", {"pw": "", "salt": "", "n": 16, "r": 1, "p": 1, "dklen": 64, "guard": 16})]))
        return seqs

    @staticmethod
    def rej_line(where, q):
        body = "scrypt %s %s %d %d %d %d" % (q["pw"] or "-", q["salt"] or "-", q["n"], q["r"], q["p"], q["dklen"])
        return {"main": "pc ", "thr": "thr ", "thrc": "thr pc "}[where] + body

    @staticmethod
    def rej_parse(line):
        t = line.split()
        t = t[t.index("scrypt") + 1:]
        return unhex(t[0]), unhex(t[1]), int(t[2]), int(t[3]), int(t[4]), int(t[5])

    PANIC_CODE = {"assert": 1, "arith": 2, "unwrap": 3, "index": 4}

    def rejected_calls(self, ctx):
        """The property quantifies over valid parameters of EVERY call, whatever the process did before: here a call outside the
        domain (which the library documents to refuse, by a panic) comes first, on the same or on another thread, and the valid
        calls after it must still return the RFC 7914 value.  What the rejected call itself does is not demanded by the property;
        it is compared with Model/ScryptImpl.v (the panic classes C18_asserts / C18_total give) as a correspondence."""
        seqs = self.gen_rejected_sequences(ctx)
        scripts = [[self.rej_line(w, q) for (w, q) in els] for _, els in seqs]
        with ThreadPoolExecutor(max_workers=vlib.NPROC) as ex:
            outs = list(ex.map(lambda ls: drv(ctx.bin, ls, timeout=900), scripts))
        have_model = coq_has("Spec/Scrypt.v", "Model/ScryptImpl.v", "Model/ScryptFfi.v", "Spec/Salsa.v", "Spec/Pbkdf2.v")
        items, inputs, impls = [], {}, {}

        def g_call(q):
            return "(%s, %s, (%d, %d, %d, %d))" % (g_bytes(bytes.fromhex(q["pw"])), g_bytes(bytes.fromhex(q["salt"])), q["n"], q["r"], q["p"], q["dklen"])

        def g_ob(r_):     # (0, value) | (1..4 = the model's panic tags PAssert, PArith, PUnwrap, PSliceIndex; 9 = another panic; 8 = no reply, [])
            if r_.get("outcome") == "ok":
                return "(0, %s)" % g_bytes(unhex(r_.get("out", "-")))
            return "(%d, [])" % (self.PANIC_CODE.get(r_.get("class"), 9) if r_.get("outcome") == "panic" else 8)

        def small(q):
            return "rejected" in q and q["rejected"] != "dkLen=0" or (q["n"] <= 16 and q["r"] <= 2 and q["p"] <= 2 and q["dklen"] <= 64)

        for si, ((fam, els), lines, rs) in enumerate(zip(seqs, scripts, outs)):
            self.ran(ctx, "rejected-then-valid/library/%s" % fam)
            obs = []
            for i, ((w, q), r_) in enumerate(zip(els, rs)):
                if "rejected" in q:
                    self.count(ctx, "rejected:%s@%s->%s" % (q["rejected"], w, r_.get("outcome") + ("/" + r_["class"] if "class" in r_ else "")))
                    obs.append(g_ob(r_))
                    continue
                want = ref_scrypt(bytes.fromhex(q["pw"]), bytes.fromhex(q["salt"]), q["n"], q["r"], q["p"], q["dklen"])
                got = r_.get("out") if r_.get("outcome") == "ok" else None
                self.check(ctx, got == want.hex(), {"driver": "libdrv", "lines": lines[:i + 1], "oracle": "scrypt_after_rejected",
                                                    "note": "ONE driver process; 'pc' = on the driver's thread under catch_unwind, 'thr' = on a fresh thread; "
                                                            "the line(s) with parameters outside the domain are expected to be refused"},
                           "the last line has valid parameters: it returns the RFC 7914 value (OpenSSL) %s whatever calls were refused before it in this process"
                           % want.hex()[:128], r_["raw"][:400])
                obs.append(g_ob(r_))
            if have_model:
                # a sequence whose valid calls are small: every call; otherwise the refused calls only (the model refuses before it computes)
                keep = [True] * len(els) if all(small(q) for _, q in els) else ["rejected" in q and small(q) for _, q in els]
                g = "[" + "; ".join(g_call(q) for (_, q), k_ in zip(els, keep) if k_) + "]"
                vq = [q for (_, q), k_ in zip(els, keep) if k_ and "rejected" not in q]
                vo = [o for (_, q), o, k_ in zip(els, rs, keep) if k_ and "rejected" not in q]
                term = "calls_eqb (run_impl_calls %s) [%s]" % (g, "; ".join(o_ for o_, k_ in zip(obs, keep) if k_))
                if vq and all(o.get("outcome") == "ok" for o in vo):
                    term += " && seq_eqb (run_spec_seq [%s]) [%s]" % ("; ".join(g_call(q) for q in vq), "; ".join(g_bytes(unhex(o.get("out", "-"))) for o in vo))
                items.append((si, term, 2 * sum(q["n"] * q["r"] * q["p"] + 4 for q in vq) + 8))
                inputs[si], impls[si] = {"driver": "libdrv", "lines": lines}, json.dumps([o["raw"][:200] for o in rs])[:900]
        self.sample(ctx, {"gen": "rejected-then-valid", "sequences": len(seqs), "example": scripts[0], "replies": [o["raw"][:120] for o in outs[0]]})
        # ---- the C ABI: the same sequences, each in its own forked child, replies handed over call by call.  A panic cannot cross
        # extern "C": the refused call ends the child, so the after-effect is observable at library level only; here the calls
        # BEFORE the refused one must have returned the RFC value, and should the refused call return, the valid ones after it too
        fitems, finputs, fimpls = [], {}, {}
        if os.path.exists(vlib.FFI_SO):
            fseqs = [(fam, [dict((k, v) for k, v in q.items()) for _, q in els]) for fam, els in seqs if fam != "production-parameters-after-a-rejection"]
            fseqs += [("valid-calls-before-the-rejected-one", [dict(q) for _, q in els if "rejected" not in q] + [dict(q) for _, q in els if "rejected" in q][:1])
                      for fam, els in seqs[:4]]
            frep = ffi_call([{"seq": [dict(q) for q in calls], "partial": True} for _, calls in fseqs])
            for fi, ((fam, calls), o) in enumerate(zip(fseqs, frep)):
                self.ran(ctx, "rejected-then-valid/ffi/%s" % fam)
                inp = {"driver": "ffidrv/call.py", "ffi_rej_seq": calls, "note": "the calls are made in this order in ONE forked child (\"partial\": true); "
                                                                                  "requests with \"rejected\" are outside the domain"}
                for (ok, exp, ob) in self.judge_ffi_rej(calls, o):
                    self.check(ctx, ok, inp, exp, ob)
                first = min(i for i, q in enumerate(calls) if "rejected" in q)
                self.count(ctx, "ffi-rejected-call:%s" % ("process-ended" if "crash" in o and len(o.get("seq_partial", [])) == first else
                                                         "returned" if "seq" in o or len(o.get("seq_partial", [])) > first else "other"))
                if have_model and all(small(q) for q in calls):
                    part = o.get("seq") if "seq" in o else o.get("seq_partial", [])
                    fitems.append((fi, "ffi_stop_eqb [%s] [%s] %s" % ("; ".join(g_call(q) for q in calls),
                                                                     "; ".join(g_bytes(bytes.fromhex(r_.get("out", ""))) for r_ in part),
                                                                     "true" if "crash" in o else "false"),
                                   2 * sum(q["n"] * q["r"] * q["p"] + 4 for q in calls[:first]) + 8))
                    finputs[fi], fimpls[fi] = inp, json.dumps(o)[:900]
        if have_model:
            res_m, log = coq_eval(ctx.pid + "r", items, preamble=REJ_SEQ_PREAMBLE)
            self.model_results(ctx, "gallina-rejected-then-valid(ScryptImpl panic classes + RFC spec)", items, res_m, log, inputs, impls)
            if fitems:
                res_m, log = coq_eval(ctx.pid + "f", fitems, preamble=REJ_SEQ_PREAMBLE)
                self.model_results(ctx, "gallina-ffi-rejected(ScryptFfi: a refused call ends the process)", fitems, res_m, log, finputs, fimpls)
        else:
            self.count(ctx, "skipped:gallina-rejected-then-valid(Model/ScryptImpl.v absent)")

    def judge_ffi_rej(self, calls, o):
        """[(ok, expected, observed)] for one C-ABI sequence with refused calls in it (reply o of ffidrv/call.py, "partial" mode)"""
        out = []
        part = o.get("seq") if isinstance(o.get("seq"), list) else o.get("seq_partial")
        if not isinstance(part, list) or ("seq" not in o and "crash" not in o):
            return [(False, "the sequence runs (the child returns its replies, or is killed by the library in a refused call)", json.dumps(o)[:400])]
        for i, (q, r_) in enumerate(zip(calls, part)):
            if "rejected" in q:
                continue
            want = ref_scrypt(bytes.fromhex(q["pw"]), bytes.fromhex(q["salt"]), q["n"], q["r"], q["p"], q["dklen"]).hex()
            out.append((r_.get("out") == want and r_.get("guard_ok") is True,
                        "call %d has valid parameters: the C function writes the RFC 7914 value %s, guards intact, whatever was called before" % (i, want[:128]),
                        json.dumps(r_)[:400]))
        if "crash" in o and len(part) < len(calls):
            k = len(part)
            out.append(("rejected" in calls[k], "the process may end only in a call whose parameters are outside the domain; call %d has valid parameters "
                                                 "(calls before it: %s)" % (k, ["rejected" if "rejected" in q else "valid" for q in calls[:k]]),
                        json.dumps(dict((a, b) for a, b in o.items() if a != "seq_partial"))[:400]))
        return out

    def recheck_scrypt_after_rejected(self, inp, rs):
        ok = True
        for line, r_ in zip(inp["lines"], rs):
            pw, salt, n, r, p, dk = self.rej_parse(line)
            if self.in_domain(n, r, p, dk):
                ok = ok and r_.get("outcome") == "ok" and unhex(r_["out"]) == ref_scrypt(pw, salt, n, r, p, dk)
        return ok

    def selftest(self, ctx):
        ok = True
        try:
            v = py_scrypt(b"", b"", 16, 1, 1, 64).hex()
            ok = v.startswith("77d6576238657b203b19ca42c18a0497f16b4844e3074ae8dfdffa3fede21442")
            ok = ok and py_scrypt(b"password", b"NaCl", 64, 2, 2, 40) == ref_scrypt(b"password", b"NaCl", 64, 2, 2, 40)
            ok = ok and ref_scrypt(b"password", b"NaCl", 1024, 8, 16, 64).hex().startswith("fdbabe1c9d3472007856e7190d01e9fe7c6ad7cbc8237830e77376634b373162")
            sal = bytes.fromhex("7e879a214f3ec9867ca940e641718f26baee555b8c61c1b50df846116dcd3b1dee24f319df9b3d8514121e4b5ac5aa3276021d2909c74829edebc68db8b8c25e")
            ok = ok and py_salsa20_8(sal).hex().startswith("a41f859c6608cc993b81cacb020cef05044b2181a2fd337dfd7b1c6396682f29")
        except Exception as ex:   # noqa
            ok = False
            self.machinery(ctx, "reference scrypt unavailable: %r" % ex)
            return False
        if not ok:
            self.machinery(ctx, "the reference implementations (hashlib.scrypt / pure-Python RFC 7914) fail the RFC 7914 vectors")
        self.count(ctx, "reference:" + ("hashlib.scrypt(OpenSSL)" if hasattr(hashlib, "scrypt") else "pure-python"))
        return ok

    def plen(self, ctx):
        return ctx.rng.choice([0, 0, 1, 2, 8, 31, 32, 33, 55, 56, 63, 64, 65, 70, ctx.rng.randrange(0, 71)])

    def library(self, ctx):
        rng = ctx.rng
        full = ctx.thorough()
        DK = [1, 16, 31, 32, 33, 64, 100, 200]
        grid = []
        Ns = [2 ** k for k in range(1, 11)]
        if full:
            for N in Ns:
                for r in range(1, 17):
                    for p in range(1, 9):
                        for dk in (DK if r <= 4 and p <= 3 else [rng.choice(DK)]):
                            grid.append((N, r, p, dk))
            for N in (2048, 4096, 8192, 16384, 32768):
                for _ in range(60):
                    r, p = rng.randrange(1, 17), rng.randrange(1, 9)
                    if N * r * p > 32768 * 16 * 2 and rng.random() < 0.7:
                        p = 1
                    grid.append((N, r, p, rng.choice(DK)))
                grid.append((N, 8, 1, 32))
            grid += [(32768, 16, 8, 33), (32768, 1, 8, 200), (32768, 16, 1, 1)]
        else:
            for N in Ns:
                for r in range(1, 5):
                    for p in range(1, 4):
                        for dk in DK:
                            grid.append((N, r, p, dk))
            grid += [(32768, 8, 1, 32), (16384, 3, 2, 33), (4096, 16, 1, 31), (2048, 5, 8, 200)]
        grid += self.r7_corner_grid(ctx)
        cases = []
        for (N, r, p, dk) in grid:
            pw, salt = ctx.rbytes(self.plen(ctx)), ctx.rbytes(self.plen(ctx))
            cases.append((pw, salt, N, r, p, dk))
        # passwords around and above the 64-byte HMAC block, ending in a NUL byte and not (above 64 bytes the key is hashed
        # first, so a dropped / added trailing NUL changes the result; up to 64 bytes zero padding hides it)
        for ln in (63, 64, 65, 80, 100):
            for last in (b"\x00", b"\x00\x00", b"z"):
                pw = ctx.rbytes(ln - len(last)) + last
                cases.append((pw, ctx.rbytes(rng.choice([0, 8, 32])), rng.choice([2, 16, 64]), rng.choice([1, 2]), rng.choice([1, 2]), rng.choice([16, 32, 33])))
        cases += [(b"", b"", 16, 1, 1, 64), (b"password", b"NaCl", 1024, 8, 16, 64), (b"pleaseletmein", b"SodiumChloride", 16384, 8, 1, 64),
                  (b"x" * 65, b"y" * 129, 4, 1, 1, 200), (b"\x00" * 64, b"\x00", 2, 1, 1, 1)]
        lines = ["scrypt %s %s %d %d %d %d" % (hexs(pw), hexs(salt), N, r, p, dk) for (pw, salt, N, r, p, dk) in cases]
        # split over several driver processes (wall time)
        nsh = vlib.NPROC
        shards = [list(range(k, len(lines), nsh)) for k in range(nsh)]
        with ThreadPoolExecutor(max_workers=nsh) as ex:
            outs = list(ex.map(lambda idx: drv(ctx.bin, [lines[i] for i in idx], timeout=3000), shards))
            refs = list(ex.map(lambda c: ref_scrypt(*c), cases))
        res = [None] * len(lines)
        for idx, rs in zip(shards, outs):
            for i, r_ in zip(idx, rs):
                res[i] = r_
        small = []
        for i, (c, line, r_, want) in enumerate(zip(cases, lines, res, refs)):
            pw, salt, N, r, p, dk = c
            inp = {"driver": "libdrv", "lines": [line], "oracle": "scrypt"}
            self.ran(ctx, "library/N=%d" % N)
            self.count(ctx, "r=%d" % r)
            self.count(ctx, "p=%d" % p)
            self.count(ctx, "dkLen=%d" % dk)
            self.count(ctx, "pwlen:%s" % ("0" if not pw else "1..63" if len(pw) < 64 else "64" if len(pw) == 64 else ">64"))
            got = unhex(r_.get("out", "-")) if r_.get("outcome") == "ok" else None
            self.check(ctx, got == want, inp, "RFC 7914 value (OpenSSL): " + want.hex(), r_["raw"][:500])
            if N <= 16 and r <= 2 and p <= 2 and dk <= 64:
                ctx.oracle_checks += 1
                if py_scrypt(*c) != want:
                    self.machinery(ctx, "pure-Python RFC 7914 and OpenSSL disagree on %s" % line)
            if N <= 64 and r <= 2 and got is not None:
                small.append((i, c, r_))
            if i % max(1, len(cases) // 5) == 0:
                self.sample(ctx, {"gen": "library", "line": line[:160], "implementation": r_.get("out", r_.get("outcome"))[:80], "reference": want.hex()[:80]})
        if coq_has("Spec/Scrypt.v", "Model/ScryptImpl.v", "Spec/Salsa.v", "Spec/Pbkdf2.v"):
            if not full and len(small) > 160:
                small = rng.sample(small, 160)
            items, inputs, impls = [], {}, {}
            for (i, (pw, salt, N, r, p, dk), r_) in small:
                a = "%s %s %d %d %d %d" % (g_bytes(pw), g_bytes(salt), N, r, p, dk)
                o = "(O_ 0 %s 0 [] [])" % g_bytes(unhex(r_["out"]))
                items.append((i, "obs_eqb (run_scrypt_small %s) %s && obs_eqb (run_scrypt_impl %s) %s" % (a, o, a, o), N * r * p + 4))
                inputs[i] = {"driver": "libdrv", "lines": [lines[i]]}
                impls[i] = r_["raw"][:300]
            res_m, log = coq_eval(ctx.pid + "g", items, preamble=SCRYPT_PREAMBLE)
            self.model_results(ctx, "gallina-scrypt(spec+impl)", items, res_m, log, inputs, impls)
        else:
            self.count(ctx, "skipped:gallina-scrypt(Spec/Scrypt.v or Model/ScryptImpl.v absent)")

    def r7_corner_grid(self, ctx):
        """the corners and edges of the property's cost-parameter domain (N = 2 .. 2^15, r = 1 .. 16): the largest N with the smallest r
        (RFC 7914 section 2 bounds N by 2^(128*r/8): N = 32768 with r = 1 is the largest N that bound allows for r = 1), the smallest N with
        the largest r, and every N above the full grid with r = 1, 2; (N, r, p, dkLen)"""
        rng = ctx.rng
        DK = [1, 16, 31, 32, 33, 64, 100, 200]
        g = []
        for N in (2048, 4096, 8192, 16384, 32768):
            for r in ((1, 2, 3, 15, 16) if ctx.thorough() else (1, 2)):
                g.append((N, r, 1 if N * r > 32768 else rng.choice([1, 1, 2, 3]), rng.choice(DK)))
        g += [(32768, 1, 1, 32), (32768, 1, 3, rng.choice(DK)), (16384, 1, 1, rng.choice(DK))]
        for N in (2, 4, 8):
            for r in ((13, 14, 15, 16) if ctx.thorough() else (15, 16)):
                g.append((N, r, rng.choice([1, 2, 8]), rng.choice(DK)))
        g += [(2, 16, 8, 33), (2, 1, 8, 1), (1024, 16, 1, rng.choice(DK)), (1024, 1, 8, rng.choice(DK)), (512, 9, 1, 64)]
        return g

    def r7_ffi_requests(self, ctx):
        """C ABI: EVERY output length 1..100 (thorough: 1..300) with 64 guard bytes on both sides (small cost parameters), and the corners of
        the N / r domain"""
        rng = ctx.rng
        reqs = []
        for dk in range(1, 301 if ctx.thorough() else 101):
            reqs.append({"pw": ctx.rbytes(rng.randrange(0, 12)).hex(), "salt": ctx.rbytes(rng.randrange(0, 12)).hex(), "n": rng.choice([2, 4, 8]),
                         "r": rng.choice([1, 2]), "p": rng.choice([1, 2, 3]), "dklen": dk, "guard": 64})
        for (N, r, p) in ((32768, 1, 1), (32768, 2, 1), (16384, 1, 2), (8192, 1, 1), (2, 16, 1), (2, 16, 3), (4, 15, 2), (2, 1, 8), (1024, 16, 1)):
            reqs.append({"pw": ctx.rbytes(self.plen(ctx)).hex(), "salt": ctx.rbytes(self.plen(ctx)).hex(), "n": N, "r": r, "p": p,
                         "dklen": rng.choice([1, 16, 31, 32, 33, 64, 77]), "guard": 64})
        return reqs

    def recheck_scrypt(self, inp, rs):
        _, pw, salt, N, r, p, dk = inp["lines"][0].split()
        return rs[0].get("outcome") == "ok" and unhex(rs[0]["out"]) == ref_scrypt(unhex(pw), unhex(salt), int(N), int(r), int(p), int(dk))

    def internals(self, ctx):
        rng = ctx.rng
        full = ctx.thorough()
        lines, want, kind = [], [], []
        blocks = [bytes(64), b"\xff" * 64, bytes(range(64))] + [ctx.rbytes(64) for _ in range(400 if full else 60)]
        for b in blocks:
            tmp = rng.choice([bytes(64), b"\xff" * 64, ctx.rbytes(64)])
            lines.append("salsa_xor %s %s" % (hexs(tmp), hexs(b)))
            o = py_salsa20_8(_xor(tmp, b))
            want.append(o + o)          # tmp after || out
            kind.append("salsa_xor")
        for r in range(1, 17 if full else 5):
            for _ in range(6 if full else 4):
                b = ctx.rbytes(128 * r) if rng.random() < 0.9 else bytes(128 * r)
                lines.append("block_mix %d %s" % (r, hexs(b)))
                want.append(py_blockmix(b, r))
                kind.append("block_mix")
        for (r, N) in ([(1, 2), (1, 4), (1, 16), (2, 2), (2, 8), (3, 4), (4, 16), (1, 64), (2, 32)] +
                       ([(r, N) for r in (1, 2, 3, 5, 8) for N in (2, 4, 8, 16, 32, 64, 128)] + [(16, 8), (1, 512)] if full else [])):
            for _ in range(2):
                b = ctx.rbytes(128 * r)
                lines.append("smix %d %d %s" % (r, N, hexs(b)))
                want.append(py_romix(b, N, r))
                kind.append("smix")
        res = drv(ctx.bin, lines)
        items, inputs, impls = [], {}, {}
        for i, (line, w, k, r_) in enumerate(zip(lines, want, kind, res)):
            inp = {"driver": "libdrv", "lines": [line], "oracle": None}
            self.ran(ctx, "internals/" + k)
            got = unhex(r_.get("out", "-")) if r_.get("outcome") == "ok" else None
            self.check(ctx, got == w, inp, {"salsa_xor": "tmp' = out = Salsa20/8(tmp xor in)", "block_mix": "scryptBlockMix (RFC 7914 section 4)",
                                            "smix": "scryptROMix (RFC 7914 section 5)"}[k] + ": " + w.hex()[:160], r_["raw"][:400])
            if got is None:
                continue
            t = line.split()
            if k == "salsa_xor":
                term = "obs_eqb (run_salsa %s) (O_ 0 %s 0 [] [])" % (g_bytes(_xor(unhex(t[1]), unhex(t[2]))), g_bytes(got[64:]))
            elif k == "block_mix":
                term = "obs_eqb (run_blockmix %s %s) (O_ 0 %s 0 [] [])" % (t[1], g_bytes(unhex(t[2])), g_bytes(got))
            else:
                if int(t[1]) * int(t[2]) > 128:
                    continue
                term = "obs_eqb (run_romix %s %s %s) (O_ 0 %s 0 [] [])" % (t[1], t[2], g_bytes(unhex(t[3])), g_bytes(got))
            items.append((i, term, len(term)))
            inputs[i], impls[i] = inp, r_["raw"][:300]
        if coq_has("Spec/Scrypt.v", "Model/ScryptImpl.v", "Spec/Salsa.v"):
            res_m, log = coq_eval(ctx.pid + "i", items, preamble=SCRYPT_PREAMBLE)
            self.model_results(ctx, "gallina-internals", items, res_m, log, inputs, impls)

    def ffi(self, ctx):
        rng = ctx.rng
        full = ctx.thorough()
        if not os.path.exists(vlib.FFI_SO):
            ctx.broken.append({"kind": "correspondence", "what": "the FFI library was not built: " + vlib.FFI_SO})
            return
        reqs = []
        for dk in (1, 31, 32, 33, 64, 200):
            for k in range(6 if full else 3):
                while True:
                    r, p = rng.randrange(1, 9 if full else 5), rng.randrange(1, 9 if full else 4)
                    lp, ls = self.plen(ctx), self.plen(ctx)
                    if r != p and lp != ls:
                        break
                N = rng.choice([2, 4, 16, 64, 256, 1024] + ([4096, 32768] if full else []))
                if N >= 4096:
                    r, p = (8, 1) if N == 32768 else (r, p)
                reqs.append({"pw": ctx.rbytes(lp).hex(), "salt": ctx.rbytes(ls).hex(), "n": N, "r": r, "p": p, "dklen": dk, "guard": rng.choice([16, 64])})
        # arguments whose exchange would go unnoticed by random data alone: equal lengths but different content; empty one side
        reqs += [{"pw": "aa" * 7, "salt": "bb" * 7, "n": 8, "r": 3, "p": 2, "dklen": 32, "guard": 64},
                 {"pw": "", "salt": "cc" * 9, "n": 8, "r": 2, "p": 3, "dklen": 33, "guard": 64},
                 {"pw": "dd" * 9, "salt": "", "n": 4, "r": 1, "p": 5, "dklen": 31, "guard": 64},
                 {"pw": "70617373776f7264", "salt": "4e61436c", "n": 1024, "r": 8, "p": 16, "dklen": 64, "guard": 64}]
        # passwords ending in NUL (and salts), at and above the HMAC block size
        for ln in (1, 8, 64, 65, 80, 100):
            for last in ("00", "0000", "7a"):
                pw = ctx.rbytes(ln - len(last) // 2).hex() + last
                reqs.append({"pw": pw, "salt": ctx.rbytes(rng.choice([4, 65])).hex() + rng.choice(["", "00"]), "n": rng.choice([2, 16]), "r": 2, "p": 1,
                             "dklen": rng.choice([16, 33]), "guard": 32})
        # in-place use: the output region lies inside the salt / the password buffer; the result must be that of the ORIGINAL inputs
        for which in ("salt", "pw"):
            for (ln, off, dk) in ((32, 0, 32), (32, 0, 16), (16, 0, 64), (40, 8, 32), (64, 0, 64), (100, 36, 64), (5, 3, 1)):
                src, other = ctx.rbytes(ln).hex(), ctx.rbytes(rng.choice([0, 9, 70])).hex()
                reqs.append({"pw": src if which == "pw" else other, "salt": src if which == "salt" else other, "n": rng.choice([2, 16, 256]),
                             "r": rng.choice([1, 3]), "p": 2, "dklen": dk, "guard": 32, "alias": which, "alias_off": off})
        reqs += self.r7_ffi_requests(ctx)
        outs = ffi_call([dict(r) for r in reqs])
        lib = drv(ctx.bin, ["scrypt %s %s %d %d %d %d" % (r["pw"] or "-", r["salt"] or "-", r["n"], r["r"], r["p"], r["dklen"]) for r in reqs])
        for r, o, l in zip(reqs, outs, lib):
            inp = {"driver": "ffidrv/call.py", "ffi": r}
            self.ran(ctx, "ffi/dkLen=%d" % r["dklen"])
            want = ref_scrypt(bytes.fromhex(r["pw"]), bytes.fromhex(r["salt"]), r["n"], r["r"], r["p"], r["dklen"])
            self.check(ctx, o.get("out") == want.hex(), inp, "the C function writes the RFC 7914 value " + want.hex()[:128], json.dumps(o)[:500])
            self.check(ctx, o.get("guard_ok") is True, inp, "nothing outside the dkLen output bytes is written (guard zones intact)", json.dumps(o)[:300])
            if r.get("alias"):
                self.count(ctx, "ffi-output-aliases-%s" % r["alias"])
                self.check(ctx, o.get("rest_ok") is True, inp, "in-place use: the bytes of the aliased %s buffer outside the output range are unchanged" % r["alias"],
                           json.dumps(o)[:300])
            if len(r["pw"]) >= 2 and r["pw"].endswith("00"):
                self.count(ctx, "ffi-password-ends-in-NUL/len%s64" % ("<=" if len(r["pw"]) // 2 <= 64 else ">"))
            self.check(ctx, l.get("outcome") == "ok" and l.get("out") == o.get("out"), inp, "C ABI value = library value", "library: " + l["raw"][:200])
            # a swapped argument pair must give a different reference value, else the request could not expose the swap
            alt = ref_scrypt(bytes.fromhex(r["salt"]), bytes.fromhex(r["pw"]), r["n"], r["r"], r["p"], r["dklen"])
            alt2 = ref_scrypt(bytes.fromhex(r["pw"]), bytes.fromhex(r["salt"]), r["n"], r["p"], r["r"], r["dklen"])
            self.count(ctx, "ffi-discriminates-swaps", 1 if (alt != want and alt2 != want) else 0)
        self.sample(ctx, {"gen": "ffi", "requests": len(reqs), "example": reqs[0], "reply": outs[0]})


# =========================================================================== C20
Z32 = bytes(32)


def interleavings(k, roots=1):
    """all histories of clone (c<i>) / clone_from (f<i>:<j>, i != j) / drop (d<i>) operations over `roots` initial
    containers of one kind with at most k allocating operations (clones + clone_froms): every index choice, every
    prefix; the containers still live at the end are dropped by the driver"""
    out = []

    def rec(seq, n, used):
        out.append(list(seq))
        if n == 0:
            return
        if used < k:
            for i in range(n):
                seq.append("c%d" % i)
                rec(seq, n + 1, used + 1)
                seq.pop()
            for i in range(n):
                for j in range(n):
                    if i != j:
                        seq.append("f%d:%d" % (i, j))
                        rec(seq, n, used + 1)
                        seq.pop()
        for i in range(n):
            seq.append("d%d" % i)
            rec(seq, n - 1, used)
            seq.pop()
    rec([], roots, 0)
    return out


def z_translate(toks, keys):
    """driver history -> what the driver must report and the Model/Zeroize.v history.
    The model has no clone_from.  For a PrivateKey, `a.clone_from(&b)` (derived Clone: *a = b.clone()) allocates the
    clone's block and then drops a's old value: model ops OClone j; ODrop i — the model appends the clone at the END of
    its container list while the driver keeps it at position i, so the positions are tracked here (driver position ->
    container id -> model position).  For the boxed PayloadKey the assignment happens inside the box: no block is
    allocated or released, the model is not stepped (block contents are irrelevant to the journal of the model with
    zeroize; such histories are excluded from the comparison with the model WITHOUT zeroize).
    Returns dict(ops, fin (final drops in the driver's order), n_first, n_second, exact)."""
    ks = list(keys) if isinstance(keys, list) else [keys]
    ki = 0
    dl, ml, kind = [], [], {}          # driver order, model order (container ids), id -> 'P' | 'K'
    nid = 0
    ops, n_first, exact = [], 0, True
    for t in toks:
        if t in ("x", "xl"):
            continue            # only HOW the survivors are released (by unwinding): the model's drops are the same
        if t[0] == "n":
            b = ks[ki] if ki < len(ks) and ks[ki] is not None else bytes([1]) * 32
            if not (ki < len(ks) and ks[ki] is not None):
                exact = False
            ki += 1
            ops.append("ONew %s" % g_bytes(b))
            kind[nid] = "K" if t.startswith("nk") else "P"
            dl.append(nid)
            ml.append(nid)
            nid += 1
        elif t[0] == "c":
            src = dl[int(t[1:])]
            ops.append("OClone %d%%nat" % ml.index(src))
            kind[nid] = kind[src]
            dl.append(nid)
            ml.append(nid)
            nid += 1
        elif t[0] == "d":
            x = dl.pop(int(t[1:]))
            ops.append("ODrop %d%%nat" % ml.index(x))
            ml.remove(x)
            n_first += 1
        elif t[0] == "f":
            i, j = [int(x) for x in t[1:].split(":")]
            dst, src = dl[i], dl[j]
            if kind[dst] != kind[src]:
                raise ValueError("clone_from between different kinds")
            if kind[dst] == "P":
                ops.append("OClone %d%%nat" % ml.index(src))
                ml.append(nid)
                ops.append("ODrop %d%%nat" % ml.index(dst))
                ml.remove(dst)
                kind[nid] = "P"
                dl[i] = nid
                nid += 1
                n_first += 1
            else:
                exact = False
    fin = []
    ml2 = list(ml)
    for x in dl:
        fin.append("ODrop %d%%nat" % ml2.index(x))
        ml2.remove(x)
    return {"ops": "[" + "; ".join(ops) + "]", "fin": "[" + "; ".join(fin) + "]", "n_first": n_first, "n_second": len(dl), "exact": exact}


def parse_freed(s):
    def sec(x):
        return [] if x in ("-", "") else [bytes.fromhex(h) for h in x.split(",")]
    a, _, b = s.partition("|")
    return sec(a), sec(b)


# ---- C20: placement variety (driver op z_place, harness/libdrv/src/zplace.rs)
ZP_WRAPS = ("bare", "opt", "after1", "after3", "tup", "enum", "mixed", "arr")
ZP_RELS = ("drop", "zeroize", "clear", "unwind")
ZP_CLONES = ("none", "ofirst", "cfirst")
ZP_FILL = 0xEE
ZP_FIELDS = ("kind", "ctor", "wrap", "rel", "clone", "store", "offa", "offb", "skew", "key")


def zp_line(c):
    return "z_place %s %s %s %s %s %s %d %d %d %s" % (c["kind"], c["ctor"], c["wrap"], c["rel"], c["clone"], c["store"],
                                                       c["offa"], c["offb"], c["skew"], c["key"].hex())


def zp_parse_line(line):
    a = line.split()
    c = dict(zip(ZP_FIELDS, a[1:11]))
    for k in ("offa", "offb", "skew"):
        c[k] = int(c[k])
    c["key"] = bytes.fromhex(c["key"])
    return c


def zp_window(hay, key, w):
    """first position in `hay` where w consecutive bytes of `key` (any alignment inside the key) are found, or None"""
    for i in range(0, 32 - w + 1):
        if 2 * sum(1 for b in key[i:i + w] if b) < w:
            continue        # a (mostly) zero window of a structured key cannot be told from erased storage / the zero bytes of a length or address
        at = hay.find(key[i:i + w])
        if at >= 0:
            return at, i
    return None


def zp_eval(c, r):
    """direct oracle for one z_place case: c = the case (zp_parse_line), r = the driver's reply.
    Returns dict(fails=[(expected, observed)], mach=[text], checks=int, journal=[bytes] (contents of every key's
    storage right after its release, release order), total=int (containers), kmods=[address mod 8 / mod 16], vacuous=bool)"""
    out = {"fails": [], "mach": [], "checks": 0, "journal": [], "total": 0, "kmods": [], "ran": False}
    out["checks"] += 1
    if r.get("outcome") != "ok" or r.get("overflow", "0") != "0" or "snaps" not in r:
        out["fails"].append(("the placement case runs", r["raw"][:300]))
        return out
    out["ran"] = True
    key, kind = c["key"], c["kind"]
    n, size, offa, offb = int(r["n"]), int(r["size"]), int(r["offa"]), int(r["offb"])
    has_b = c["clone"] != "none"
    lst = lambda x: [] if x in ("-", "") else [int(t) for t in x.split(",")]
    kpos = {"A": lst(r.get("ka", "-")), "B": lst(r.get("kb", "-"))}
    off = {"A": offa, "B": offb}
    present = ["A"] + (["B"] if has_b else [])
    out["total"] = n * len(present)
    snaps = []
    for t in r["snaps"].split(";"):
        f = t.split(":")
        if len(f) != 6:
            out["mach"].append("z_place: malformed snapshot " + t[:80])
            return out
        heap = lambda x: [] if x == "-" else x.split(",")
        snaps.append({"label": f[0], "A": bytes.fromhex(f[1]), "B": bytes.fromhex(f[2]), "hA": heap(f[3]), "hB": heap(f[4]), "nrec": int(f[5])})
    if not snaps or snaps[0]["label"] != "pre" or len(kpos["A"]) != n or (has_b and len(kpos["B"]) != n):
        out["mach"].append("z_place: no initial snapshot / key positions missing: " + r["raw"][:200])
        return out
    pre = snaps[0]
    where = lambda X, i: ("%s key %d of %s<%s> (value at offset %d of a 16-byte aligned %s block, %s)"
                          % ("clone's" if X == "B" else "original's", i, c["wrap"], "PayloadKey" if kind == "K" else "PrivateKey",
                             off[X], c["store"],
                             ("key bytes at offset %d, address = %d mod 8" % (kpos[X][i], kpos[X][i] % 8)) if kind == "K"
                             else ("key heap block at address = %d mod 16" % kpos[X][i])))
    # --- self-test of the placement: the key IS where the driver says, the rest of the block is filler
    for X in present:
        for i in range(n):
            if kind == "K":
                o = kpos[X][i]
                if not (off[X] <= o and o + 32 <= off[X] + size and pre[X][o:o + 32] == key):
                    out["mach"].append("z_place self-test: before the release the %s does not hold the key: %s" % (where(X, i), pre[X].hex()))
                    return out
            else:
                if i >= len(pre["h" + X]) or pre["h" + X][i] != key.hex():
                    out["mach"].append("z_place self-test: before the release the %s does not hold the key: %s" % (where(X, i), pre["h" + X]))
                    return out
            out["kmods"].append((kind, kpos[X][i] % (8 if kind == "K" else 16)))
    for sn in snaps:
        for X in ("A", "B"):
            blk = sn[X]
            lo, hi = (off[X], off[X] + size) if X in present else (0, 0)
            if any(b != ZP_FILL for b in blk[:lo] + blk[hi:]):
                out["mach"].append("z_place self-test: bytes outside the value changed (%s, block %s): %s" % (sn["label"], X, blk.hex()))
                return out
    # --- the oracle: after every release step the key's bytes are zero (all 32, wherever the value lives)
    released, nrel = set(), 0
    for sn in snaps[1:]:
        step, X = sn["label"][:-1], sn["label"][-1]
        if step == "drop":
            released.add(X)
            nrel += n
        for Y in present:
            if not (Y == X or Y in released):
                continue
            for i in range(n):
                if kind == "K":
                    got = sn[Y][kpos[Y][i]:kpos[Y][i] + 32]
                    out["checks"] += 1
                    if got != Z32:
                        surv = [j for j in range(32) if got[j] == key[j]]
                        out["fails"].append(("after '%s' (release mode %s) all 32 bytes of the %s are zero" % (sn["label"], c["rel"], where(Y, i)),
                                             "%s: %d of 32 key bytes survive at positions %s" % (got.hex(), len(surv), surv)))
                    if step == "drop" and Y == X:
                        out["journal"].append(got)
                else:
                    got = sn["h" + Y][i] if i < len(sn["h" + Y]) else "?"
                    out["checks"] += 1
                    if got != "x" and got != Z32.hex():       # x: released, the allocator's record is checked below
                        out["fails"].append(("after '%s' (release mode %s) the heap block of the %s holds 32 zero bytes (or has been released wiped)"
                                             % (sn["label"], c["rel"], where(Y, i)), got))
        if kind == "P" and step == "drop":
            out["checks"] += 1
            if sn["nrec"] != nrel:
                out["fails"].append(("after '%s' %d key heap blocks have been released (one per PrivateKey, clones own their own block)" % (sn["label"], nrel),
                                     "%d records" % sn["nrec"]))
    # --- nothing of the key remains ANYWHERE in the storage (all bytes of both blocks)
    w = 4 if kind == "K" else 8        # P: the blocks hold pointers; 8-byte windows cannot match by chance
    last = snaps[-1]
    for X in present:
        out["checks"] += 1
        hit = zp_window(last[X], key, w)
        if hit:
            out["fails"].append(("after all releases no %d consecutive key bytes remain anywhere in the %d bytes of storage block %s" % (w, len(last[X]), X),
                                 "key bytes %d.. found at offset %d: %s" % (hit[1], hit[0], last[X].hex())))
    if kind == "P":
        recs = [] if r.get("freed", "-") in ("-", "") else [bytes.fromhex(h) for h in r["freed"].split(",")]
        out["checks"] += 2
        if not all(x == Z32 for x in recs):
            out["fails"].append(("every released key heap block holds 32 zero bytes at the moment of release", r.get("freed", "-")[:600]))
        if len(recs) != out["total"]:
            out["fails"].append(("one allocator record per PrivateKey: %d" % out["total"], "%d records" % len(recs)))
        out["journal"] = recs
    return out


def zp_model(c, n, total):
    """the Model/Zeroize.v history of a z_place case: the value holds n keys (key, clone, clone: Arr) and may be cloned
    as a whole; every in-place release is n ODrops (explicit zeroize / clear before it do not change the journal)"""
    ops = ["ONew %s" % g_bytes(c["key"])] + ["OClone %d%%nat" % (i - 1) for i in range(1, n)]
    if c["clone"] != "none":
        ops += ["OClone %d%%nat" % i for i in range(n)]
    fin = []
    if c["clone"] == "cfirst":
        fin += ["ODrop %d%%nat" % n] * n
    fin += ["ODrop 0%nat"] * (total - len(fin))
    return "[" + "; ".join(ops) + "]", "[" + "; ".join(fin) + "]"


class C20(MiscProp):
    run_modules = MiscProp.run_modules + ('Model/Zeroize.v',)
    id = "C20"
    rule = ("histories over a list of live key containers in the driver (np = PrivateKey::try_from, ng = PrivateKey::generate with "
            "and without an installed random stream, nk = boxed PayloadKey::new, c<i> = clone, f<i>:<j> = container i .clone_from(container j) (for the boxed PayloadKey on "
            "the value inside the box), d<i> = drop; the containers still live at the end are dropped too): EVERY interleaving (every "
            "index choice, every prefix) of clones, clone_froms and drops with at most 2 (thorough 3) allocating operations, starting "
            "from one key (each constructor) and from two different keys of one kind, plus random histories of up to 12 operations over "
            "several keys; the same histories with the surviving containers released by UNWINDING (x: a closure owning them panics; "
            "xl: the library's own panic, PayloadKey::new on 31 bytes, with them live); keys whose 32 bytes XOR to zero for every "
            "constructor (always, not by chance); the model has no clone_from: a PrivateKey clone_from is translated to OClone j; ODrop i with the container "
            "positions tracked (tools/props_misc.py::z_translate), a PayloadKey clone_from frees nothing; a global allocator records the bytes of each container's heap block at the moment dealloc is entered; oracle: "
            "every record is 32 zero bytes, one record per container, in release order; the journal is compared with "
            "Model/Zeroize.v (run true ops, observe) and must differ from the model without the zeroize call; whole-API scans "
            "(z_api noise_enc / key_enc / key_dec): no released block contains the caller's private key; dev and release profile. "
            "controls: a plain Vec and an un-wiped copy ARE seen by the observer. non-trivial = histories with >= 1 container. "
            "PLACEMENT VARIETY (driver op z_place, harness/libdrv/src/zplace.rs): every key type (PayloadKey::new; PrivateKey::try_from / generate) is constructed IN PLACE at every "
            "offset 0..15 of a 16-byte aligned heap or stack block the driver keeps, as itself and as a part of Option<key>, repr(C) {u8, key}, "
            "repr(C) {[u8;3], key}, (u8, key), enum {A(u16), B(key)}, {bool, Option<key>, u64} (the shape of the Noise CipherState) and "
            "repr(C) {u8, [key;3]}; optionally cloned as a whole into a second block at another offset (original or clone released first); "
            "released by ptr::drop_in_place, by Zeroize::zeroize() followed by drop_in_place, by assigning None to the Option inside, or by a "
            "destructor that runs while a panic unwinds; for PrivateKey the global allocator additionally hands out the key's 32-byte Vec "
            "buffer at every address 0..15 mod 16; ALL bytes of both storage blocks (and every still allocated key heap block) are read "
            "back before the first and after every release step; oracle: all 32 bytes of every released / zeroized key are zero, no 4 "
            "(PrivateKey blocks: 8) consecutive key bytes remain anywhere in the storage, one wiped allocator record per PrivateKey; the "
            "journal (contents of each key's storage right after its release) is compared with Model/Zeroize.v as above. "
            "FIRST ERASURE OF A PROCESS: each constructor x each way of release (drop in the script, at the end, clone before / after its original, clone_from, "
            "unwinding), each key type placed in a block x each release mode, and each z_api scan, every case in a driver process of its own so that the watched "
            "container is the first key value that process ever releases. STRUCTURED KEY CONTENTS: keys with all-zero aligned 8-byte words at every position "
            "(single, prefixes, suffixes, alternating), one non-zero byte at each position, zero runs across word boundaries, big-/little-endian small numbers, "
            "repeated bytes: every constructor, short clone/drop/unwind histories, clone_from between two such keys, and in-place placements")
    assumptions = ["the observation is of heap blocks (PrivateKey's Vec buffer; PayloadKey boxed by the driver); stack copies and registers are not observed",
                   "PayloadKey is an inline array: in the histories its erasure is observed through Box<PayloadKey>; in the placement cases the value lives in a block owned by the driver (heap or the driver's stack frame) and is released in place (no move), so the bytes read back are the value's own storage",
                   "residue of the payload key in a released temporary Vec inside key_decrypt (not a key container) is recorded in the distribution as payload_residue_in_temporary, not flagged"]
    trusted_extra = ["harness/libdrv/src/zero.rs observing allocator"]

    def build(self, ctx):
        super().build(ctx)
        self.rel = None
        if ctx.harness_ok:
            ok, p, out = release_libdrv()
            self.rel = p if ok else None
            if not ok:
                ctx.harness_ok = False
                ctx.broken.append({"kind": "correspondence", "what": "libdrv does not build in the release profile: " + out[-300:].replace("\n", " ")})

    def key(self, ctx):
        while True:
            k = ctx.rbytes(32)
            if k.count(0) < 4:
                return k

    def xor_zero_key(self, ctx):
        """a key whose 32 bytes XOR to zero (looks "already wiped" to a checksum-style shortcut)"""
        while True:
            k = ctx.rbytes(31)
            x = 0
            for b in k:
                x ^= b
            k += bytes([x])
            if k.count(0) < 4:
                return k

    def histories(self, ctx):
        rng = ctx.rng
        k = 3 if ctx.thorough() else 2
        hs = []     # (generator, stream | "none" | None, driver tokens, ONew keys in order (None = unknown))
        for ctor in ("np", "nk", "ng", "ng-os"):
            for seq in interleavings(k, 1):
                key = self.key(ctx)
                if ctor == "ng":
                    first, stream = "ng", key + ctx.rbytes(rng.choice([0, 5]))
                elif ctor == "ng-os":
                    first, stream = "ng", None
                else:
                    first, stream = "%s:%s" % (ctor, key.hex()), "none"
                hs.append(("interleave/%s/allocs<=%d" % (ctor, k), stream, [first] + seq, key if ctor != "ng-os" else None))
        # keys whose bytes XOR to zero, every constructor, all short interleavings (always present, not left to chance)
        for ctor in ("np", "nk", "ng"):
            for seq in interleavings(2, 1):
                key = self.xor_zero_key(ctx)
                if ctor == "ng":
                    first, stream = "ng", key
                else:
                    first, stream = "%s:%s" % (ctor, key.hex()), "none"
                hs.append(("xor-zero-key/%s" % ctor, stream, [first] + seq, key))
        # the survivors are released by UNWINDING: a closure owning them panics (x), or the library itself panics (xl)
        for (gen, stream, toks, keys) in list(hs):
            if not gen.startswith("interleave/") or (gen.startswith("interleave/ng-os") and len(toks) > 3):
                continue
            hs.append((gen.replace("interleave/", "unwind/x/"), stream, toks + ["x"], keys))
            hs.append((gen.replace("interleave/", "unwind/xl/"), stream, toks + ["xl"], keys))
        # two DIFFERENT keys of one kind: clone_from replaces a live key by another one
        two = interleavings(2, 2)
        if ctx.thorough():
            big = interleavings(3, 2)          # 40775 histories: the complete set up to 2, a sample of 3000 of those with 3
            two = two + rng.sample([x for x in big if len([t for t in x if t[0] in "cf"]) == 3], 3000)
        for c1, c2 in (("np", "np"), ("nk", "nk"), ("ng", "np")):
            for seq in two:
                k1, k2 = self.key(ctx), self.key(ctx)
                heads, stream = [], b""
                for c, kk in ((c1, k1), (c2, k2)):
                    if c == "ng":
                        heads.append("ng")
                        stream += kk
                    else:
                        heads.append("%s:%s" % (c, kk.hex()))
                hs.append(("interleave2/%s+%s" % (c1, c2), stream if stream else "none", heads + seq, [k1, k2]))
                if len(hs) % 3 == 0:
                    hs.append(("unwind2/%s+%s" % (c1, c2), stream if stream else "none", heads + seq + [rng.choice(["x", "xl"])], [k1, k2]))
        for _ in range(1500 if ctx.thorough() else 250):
            n = rng.randrange(1, 13)
            toks, kinds, stream = [], [], b""
            keys = []
            for _ in range(n):
                ch = rng.random()
                pairs = [(i, j) for i in range(len(kinds)) for j in range(len(kinds)) if i != j and kinds[i] == kinds[j]]
                if not kinds or ch < 0.25:
                    c = rng.choice(["np", "nk", "ng"])
                    key = self.key(ctx)
                    keys.append(key)
                    if c == "ng":
                        stream += key
                        toks.append("ng")
                    else:
                        toks.append("%s:%s" % (c, key.hex()))
                    kinds.append("K" if c == "nk" else "P")
                elif ch < 0.5:
                    i = rng.randrange(len(kinds))
                    toks.append("c%d" % i)
                    kinds.append(kinds[i])
                elif ch < 0.7 and pairs:
                    toks.append("f%d:%d" % rng.choice(pairs))
                else:
                    i = rng.randrange(len(kinds))
                    toks.append("d%d" % i)
                    kinds.pop(i)
            if rng.random() < 0.3:
                toks.append(rng.choice(["x", "xl"]))
            hs.append(("random/len=%d" % n, stream if stream else "none", toks, keys))
        hs.append(("empty", "none", [], []))
        return hs

    def run(self, ctx):
        hs = self.histories(ctx)
        profiles = [("dev", ctx.bin), ("release", self.rel)]
        for prof, binp in profiles:
            self.controls(ctx, prof, binp)
            self.run_histories(ctx, prof, binp, hs, model=(prof == "dev" or ctx.thorough()))
            self.api(ctx, prof, binp)
        pcs = self.placements(ctx)
        for prof, binp in profiles:
            self.run_placements(ctx, prof, binp, pcs, model=(prof == "dev" or ctx.thorough()))
        for prof, binp in profiles:
            self.r7_first_wipes(ctx, prof, binp)
            self.r7_structured_contents(ctx, prof, binp)

    def controls(self, ctx, prof, binp):
        K = self.key(ctx)
        rs = drv(binp, ["setrand none", "z_hist nv:%s,c0" % K.hex(), "z_api control %s" % K.hex(), "z_api control0 %s" % K.hex()])
        a, b = parse_freed(rs[1].get("freed", "-"))
        if not (rs[1].get("outcome") == "ok" and a + b == [K, K]):
            self.machinery(ctx, "observer self-test (%s): a plain Vec holding K must be seen un-wiped twice: %s" % (prof, rs[1]["raw"][:200]))
        if rs[2].get("leaks") != "1" or rs[3].get("leaks") != "0":
            self.machinery(ctx, "scanner self-test (%s): control must report leaks=1 and control0 leaks=0: %s / %s" % (prof, rs[2]["raw"], rs[3]["raw"]))
        self.count(ctx, "controls-passed/" + prof)

    def run_histories(self, ctx, prof, binp, hs, model):
        bodies, idx = [], []
        cur = "none"
        for hi, (gen, stream, toks, keys) in enumerate(hs):
            want = "none" if stream is None else (stream if stream == "none" else stream.hex())
            bodies.append("setrand %s" % want)          # always set: ng must find exactly its own stream
            idx.append(None)
            bodies.append("z_hist %s" % (",".join(toks) if toks else "-"))
            idx.append(hi)
        bodies.append("setrand none")
        idx.append(None)
        res = drv(binp, bodies)
        items, inputs, impls, shows, nv_items = [], {}, {}, {}, []
        for bi, (hi, r) in enumerate(zip(idx, res)):
            if hi is None:
                continue
            gen, stream, toks, keys = hs[hi]
            inp = {"driver": "libdrv", "profile": prof, "lines": [bodies[bi - 1], bodies[bi], "setrand none"], "oracle": "zhist"}
            self.ran(ctx, "%s/%s" % (prof, gen), nontrivial=bool(toks))
            tr = z_translate(toks, keys)
            for t in toks:
                if t[0] == "f":
                    self.count(ctx, "clone_from-ops/" + prof)
                elif t in ("x", "xl"):
                    self.count(ctx, "released-by-unwinding(%s)/%s" % (t, prof))
            if not self.check(ctx, r.get("outcome") == "ok" and "overflow" not in r, inp, "the history runs", r["raw"][:300]):
                continue
            first, second = parse_freed(r.get("freed", "-"))
            self.check(ctx, all(x == Z32 for x in first + second), inp,
                       "every released container block holds 32 zero bytes at the moment of release "
                       "(drop, and the replaced value of clone_from)",
                       "released contents: " + r.get("freed", "-")[:600])
            self.check(ctx, len(first) == tr["n_first"] and len(second) == tr["n_second"] and r.get("live") == str(tr["n_second"]), inp,
                       "one record per released container block: %d during the script (drops and PrivateKey clone_froms), %d at the end"
                       % (tr["n_first"], tr["n_second"]),
                       "%d | %d live=%s" % (len(first), len(second), r.get("live")))
            self.count(ctx, "containers-released/" + prof, len(first) + len(second))
            if model:
                lst = lambda xs: "[" + "; ".join(g_bytes(x) for x in xs) + "]"
                a_ = "%s %s %s %s %s" % (tr["ops"], tr["fin"], lst(first), lst(second), r.get("live", "0"))
                items.append((hi, "z_chk_x true " + a_, len(toks) + 1))
                inputs[hi], impls[hi], shows[hi] = inp, r["raw"][:400], "z_show_x %s %s" % (tr["ops"], tr["fin"])
                if tr["n_first"] + tr["n_second"] > 0 and tr["exact"] and len(nv_items) < 400:
                    nv_items.append((hi, "negb (z_chk_x false %s)" % a_, len(toks) + 1))
        if model:
            pre = "From Kestrel.Model Require Import Zeroize.\n"
            res_m, log = coq_eval(ctx.pid + "z", items, preamble=pre)
            self.model_results(ctx, "zeroize-journal/" + prof, items, res_m, log, inputs, impls, shows, preamble=pre)
            res_n, log = coq_eval(ctx.pid + "n", nv_items, preamble=pre)
            nbad = len([1 for it in nv_items if res_n.get(str(it[0])) is not True])
            self.count(ctx, "journal-differs-from-model-without-zeroize/" + prof, len(nv_items) - nbad)
            if nbad:
                ctx.broken.append({"kind": "correspondence", "what": "C20/%s: %d of %d journals are ALSO explained by the model WITHOUT the zeroize call "
                                   "(the comparison does not discriminate)%s" % (prof, nbad, len(nv_items), (" [" + log[-200:] + "]") if log else "")})
        self.sample(ctx, {"gen": "histories", "profile": prof, "count": len(hs), "example": bodies[3][:200], "reply": res[3]["raw"][:200]})

    # ---- placement variety: keys constructed / cloned / released IN PLACE at every alignment (z_place)
    def place_key(self, ctx, xor_zero=False):
        """32 key bytes, none of them 0x00 / 0x01 / the filler (so that a surviving byte cannot be mistaken for a zero,
        an Option / enum tag or filler); xor_zero: the bytes XOR to zero"""
        bad = (0, 1, ZP_FILL)
        while True:
            k = bytes(ctx.rng.choice([b for b in range(256) if b not in bad]) for _ in range(31 if xor_zero else 32))
            if xor_zero:
                x = 0
                for b in k:
                    x ^= b
                if x in bad:
                    continue
                k += bytes([x])
            return k

    def placements(self, ctx):
        rng = ctx.rng
        cs = []

        def add(gen, kind, wrap, rel, clone=None, store=None, offa=None, offb=None, skew=None, ctor=None, xz=False):
            cs.append({"gen": gen, "kind": kind, "wrap": wrap, "rel": rel,
                       "ctor": "new" if kind == "K" else (ctor or rng.choice(["try", "gen"])),
                       "clone": clone or rng.choice(ZP_CLONES), "store": store or rng.choice(["heap", "stack"]),
                       "offa": rng.randrange(16) if offa is None else offa, "offb": rng.randrange(16) if offb is None else offb,
                       "skew": (rng.randrange(16) if kind == "P" else 0) if skew is None else skew,
                       "key": self.place_key(ctx, xz)})
        if ctx.thorough():
            for wrap in ZP_WRAPS:
                for rel in ZP_RELS:
                    for clone in ZP_CLONES:
                        for off in range(16):
                            for store in ("heap", "stack"):
                                add("every-offset", "K", wrap, rel, clone=clone, store=store, offa=off)
                            add("every-heap-skew", "P", wrap, rel, clone=clone, skew=off)
        else:
            for wrap in ZP_WRAPS:
                for off in range(16):
                    for rel in ("drop", "zeroize"):
                        add("every-offset", "K", wrap, rel, offa=off)
                    add("every-heap-skew", "P", wrap, ZP_RELS[(off + ZP_WRAPS.index(wrap)) % 4], skew=off, ctor=("try", "gen")[off % 2])
                for rel in ("clear", "unwind"):
                    for clone in ZP_CLONES:
                        add("every-release-mode", "K", wrap, rel, clone=clone)
        for wrap in ZP_WRAPS:
            for kind in ("K", "P"):
                add("xor-zero-key", kind, wrap, rng.choice(ZP_RELS), xz=True)
        for _ in range(600 if ctx.thorough() else 80):
            add("random", rng.choice(["K", "K", "P"]), rng.choice(ZP_WRAPS), rng.choice(ZP_RELS))
        return cs

    def run_placements(self, ctx, prof, binp, cs, model):
        bodies, idx = [], []
        for ci, c in enumerate(cs):
            bodies.append("setrand %s" % (c["key"].hex() if c["ctor"] == "gen" else "none"))
            idx.append(None)
            bodies.append(zp_line(c))
            idx.append(ci)
        bodies.append("setrand none")
        idx.append(None)
        res = drv(binp, bodies)
        items, inputs, impls, shows, nv_items = [], {}, {}, {}, []
        for bi, (ci, r) in enumerate(zip(idx, res)):
            if ci is None:
                continue
            c = cs[ci]
            inp = {"driver": "libdrv", "profile": prof, "lines": [bodies[bi - 1], bodies[bi], "setrand none"], "oracle": "zplace"}
            self.ran(ctx, "%s/place/%s/%s" % (prof, c["gen"], c["kind"]))
            self.count(ctx, "place-shape=%s/%s" % (c["wrap"], prof))
            ev = zp_eval(c, r)
            for m in ev["mach"]:
                self.machinery(ctx, "C20/%s: %s [%s]" % (prof, m[:500], bodies[bi][:120]))
            ctx.oracle_checks += ev["checks"] - len(ev["fails"])
            for exp, obs in ev["fails"][:3]:
                self.check(ctx, False, inp, exp, obs)
            ctx.oracle_checks += max(0, len(ev["fails"]) - 3)
            if not ev["ran"] or ev["mach"]:
                continue
            self.count(ctx, "place-release-mode=%s/%s" % (r.get("rel"), prof))
            self.count(ctx, "place-keys-released/" + prof, ev["total"])
            for kind, m in ev["kmods"]:
                self.count(ctx, ("place-PayloadKey-address-mod-8=%d/%s" if kind == "K" else "place-PrivateKey-heap-block-address-mod-16=%d/%s") % (m, prof))
            if model:
                ops, fin = zp_model(c, int(r["n"]), ev["total"])
                lst = lambda xs: "[" + "; ".join(g_bytes(x) for x in xs) + "]"
                a_ = "%s %s [] %s %d" % (ops, fin, lst(ev["journal"]), ev["total"])
                hid = "9%05d" % ci
                items.append((hid, "z_chk_x true " + a_, ev["total"] + 1))
                inputs[hid], impls[hid], shows[hid] = inp, "journal: " + ",".join(x.hex() for x in ev["journal"]), "z_show_x %s %s" % (ops, fin)
                if len(nv_items) < 200:
                    nv_items.append((hid, "negb (z_chk_x false %s)" % a_, ev["total"] + 1))
        if model:
            pre = "From Kestrel.Model Require Import Zeroize.\n"
            res_m, log = coq_eval(ctx.pid + "zp", items, preamble=pre)
            self.model_results(ctx, "zeroize-journal-in-place/" + prof, items, res_m, log, inputs, impls, shows, preamble=pre)
            res_n, log = coq_eval(ctx.pid + "np", nv_items, preamble=pre)
            nbad = len([1 for it in nv_items if res_n.get(str(it[0])) is not True])
            self.count(ctx, "in-place-journal-differs-from-model-without-zeroize/" + prof, len(nv_items) - nbad)
            if nbad:
                ctx.broken.append({"kind": "correspondence", "what": "C20/%s: %d of %d in-place journals are ALSO explained by the model WITHOUT the zeroize call "
                                   "(the comparison does not discriminate)%s" % (prof, nbad, len(nv_items), (" [" + log[-200:] + "]") if log else "")})
        self.sample(ctx, {"gen": "placements", "profile": prof, "count": len(cs), "example": bodies[1][:200], "reply": res[1]["raw"][:300]})

    # ---- the FIRST erasure of a process; key contents with structure (the property holds for every value at every moment)
    def r7_first_wipes(self, ctx, prof, binp):
        """every case in a driver process OF ITS OWN in which the watched container is the first key value the process ever releases:
        each constructor x each way a container is released (dropped in the script, dropped at the end, as a clone before / after its
        original, replaced by clone_from, by unwinding) as z_hist histories, each key type placed in a block (z_place) x each release mode,
        and each whole-API scan (z_api) as the first thing a process does"""
        rng = ctx.rng
        hs = []
        for ctor in ("np", "nk", "ng", "ng-os"):
            for tail in ([], ["d0"], ["c0", "d1"], ["c0", "d0"], ["x"], ["xl"], ["c0", "x"]):
                key = self.key(ctx)
                if ctor == "ng":
                    first, stream = "ng", key
                elif ctor == "ng-os":
                    first, stream = "ng", None
                else:
                    first, stream = "%s:%s" % (ctor, key.hex()), "none"
                hs.append(("first-wipe-of-the-process/%s/%s" % (ctor, "+".join(tail) or "end"), stream, [first] + tail, key if ctor != "ng-os" else None))
        for c1 in ("np", "nk"):      # the first release is the value clone_from replaces (PrivateKey), resp. the first drop after it (PayloadKey)
            k1, k2 = self.key(ctx), self.key(ctx)
            hs.append(("first-wipe-of-the-process/%s/clone_from" % c1, "none", ["%s:%s" % (c1, k1.hex()), "%s:%s" % (c1, k2.hex()), "f0:1"], [k1, k2]))
        for h in hs:
            # one history = one fresh driver process (the empty history after it keeps run_histories' sample line in range)
            self.run_histories(ctx, prof, binp, [h, ("empty", "none", [], [])], model=False)
        pcs = []
        for kind in ("K", "P"):
            for rel in ZP_RELS:
                for wrap in (("bare", "opt", "mixed", "arr") if ctx.thorough() else ("bare", rng.choice(["opt", "mixed", "arr", "after1", "tup", "enum"]))):
                    pcs.append({"gen": "first-wipe-of-the-process/" + rel, "kind": kind, "wrap": wrap, "rel": rel,
                                "ctor": "new" if kind == "K" else rng.choice(["try", "gen"]), "clone": rng.choice(ZP_CLONES),
                                "store": rng.choice(["heap", "stack"]), "offa": rng.randrange(16), "offb": rng.randrange(16),
                                "skew": rng.randrange(16) if kind == "P" else 0, "key": self.place_key(ctx)})
        for c in pcs:
            self.run_placements(ctx, prof, binp, [c], model=False)       # one placement = one fresh driver process
        for which in ("noise_enc", "key_enc", "key_dec"):
            sk = self.key(ctx)
            b = "z_api %s %s" % (which, sk.hex())
            r = drv(binp, ["setrand none", b])[1]
            inp = {"driver": "libdrv", "profile": prof, "lines": ["setrand none", b], "oracle": "zapi"}
            self.ran(ctx, "%s/first-wipe-of-the-process/z_api/%s" % (prof, which))
            if int(r.get("blocks", "0") or 0) == 0 or r.get("outcome") != "ok":
                self.machinery(ctx, "z_api (%s, fresh process) scanned nothing or the call failed: %s" % (prof, r["raw"][:200]))
                continue
            self.check(ctx, r.get("leaks") == "0", inp,
                       "no block released during %s, the first call of this process, still contains the caller's private key" % which, r["raw"][:300])

    def r7_structured_keys(self, ctx):
        """(family, 32 key bytes): contents must not matter to the erasure.  Aligned 8-byte words that are all zero (each position, prefixes,
        alternating), one non-zero byte at every position, zero runs that straddle word boundaries, small numbers big- and little-endian,
        repeated bytes.  (The all-zero key is left out: its erasure cannot be observed.)"""
        rng = ctx.rng
        nz = lambda n: bytes(rng.randrange(1, 256) for _ in range(n))      # noqa: E731
        ks = []
        for w in range(4):
            k = bytearray(nz(32))
            k[8 * w:8 * w + 8] = bytes(8)
            ks.append(("zero-word-%d" % w, bytes(k)))
        for w in (1, 2, 3):
            ks.append(("zero-prefix-%d-words" % w, bytes(8 * w) + nz(32 - 8 * w)))
            ks.append(("zero-suffix-%d-words" % w, nz(32 - 8 * w) + bytes(8 * w)))
        ks += [("zero-words-0-and-2", bytes(8) + nz(8) + bytes(8) + nz(8)), ("zero-words-1-and-3", nz(8) + bytes(8) + nz(8) + bytes(8)),
               ("zero-words-1-and-2", nz(8) + bytes(16) + nz(8)), ("big-endian-9", bytes(31) + b"\x09"), ("little-endian-9", b"\x09" + bytes(31)),
               ("big-endian-small", bytes(28) + nz(4)), ("all-ff", b"\xff" * 32), ("one-byte-repeated", nz(1) * 32), ("all-01", b"\x01" * 32),
               ("alternating-zero", bytes(b if i % 2 else 0 for i, b in enumerate(nz(32)))), ("zero-halfwords", b"".join(bytes(4) + nz(4) for _ in range(4)))]
        for i in (range(32) if ctx.thorough() else sorted(set([0, 7, 8, 15, 16, 23, 24, 31] + rng.sample(range(32), 6)))):
            b = bytearray(32)
            b[i] = rng.choice([1, 9, 0x80, 0xff, rng.randrange(1, 256)])
            ks.append(("single-non-zero-byte", bytes(b)))
        for o in (range(1, 24) if ctx.thorough() else rng.sample(range(1, 24), 5)):
            k = bytearray(nz(32))
            ln = rng.choice([8, 8, 9, 12, 16])
            k[o:o + ln] = bytes(min(ln, 32 - o))
            ks.append(("zero-run-at-%s-offset" % ("aligned" if o % 8 == 0 else "unaligned"), bytes(k)))
        return ks

    def r7_structured_contents(self, ctx, prof, binp):
        rng = ctx.rng
        ks = self.r7_structured_keys(ctx)
        hs = []
        tails = [[], ["c0"], ["c0", "d0"], ["c0", "d1"], ["d0"], ["x"], ["c0", "xl"], ["c0", "c1", "d0"]]
        for fam, key in ks:
            for ctor in ("np", "nk", "ng"):
                for tail in ([[], ["c0"]] + [rng.choice(tails[2:])] if not ctx.thorough() else tails):
                    if ctor == "ng":
                        first, stream = "ng", key
                    else:
                        first, stream = "%s:%s" % (ctor, key.hex()), "none"
                    hs.append(("structured-key/%s/%s" % (fam, ctor), stream, [first] + tail, key))
        # two structured keys of one kind: clone_from replaces one by the other
        for c1 in ("np", "nk"):
            for _ in range(12 if ctx.thorough() else 4):
                (_, k1), (_, k2) = rng.sample(ks, 2)
                hs.append(("structured-key/two-keys/%s" % c1, "none", ["%s:%s" % (c1, k1.hex()), "%s:%s" % (c1, k2.hex()), rng.choice(["f0:1", "f1:0"])] +
                           rng.choice([[], ["d0"], ["c1", "d0"]]), [k1, k2]))
        self.run_histories(ctx, prof, binp, hs, model=(prof == "dev"))
        # the same contents placed in a block at every alignment (PayloadKey inline; PrivateKey's heap block at a skewed address).  The
        # "no 4 consecutive key bytes remain" scan skips all-zero windows of the key (zp_window); the wrappers whose tag / padding bytes
        # are 0 or 1 are avoided so that the placement self-test cannot confuse a key byte with them
        pcs = []
        for fam, key in ks:
            if ZP_FILL in key:
                continue
            for kind in ("K", "P"):
                pcs.append({"gen": "structured-key/" + fam.split("-at-")[0], "kind": kind, "wrap": rng.choice(["bare", "after1", "after3", "arr"]), "rel": rng.choice(ZP_RELS),
                            "ctor": "new" if kind == "K" else rng.choice(["try", "gen"]), "clone": rng.choice(ZP_CLONES),
                            "store": rng.choice(["heap", "stack"]), "offa": rng.randrange(16), "offb": rng.randrange(16),
                            "skew": rng.randrange(16) if kind == "P" else 0, "key": key})
        self.run_placements(ctx, prof, binp, pcs, model=False)

    def recheck_zplace(self, inp, rs):
        ev = zp_eval(zp_parse_line(inp["lines"][1]), rs[1])
        return ev["ran"] and not ev["fails"] and not ev["mach"]

    def recheck_zhist(self, inp, rs):
        r = rs[1]
        a, b = parse_freed(r.get("freed", "-"))
        return r.get("outcome") == "ok" and all(x == Z32 for x in a + b)

    def api(self, ctx, prof, binp):
        n = 12 if ctx.thorough() else 4
        bodies, meta = ["setrand none"], [None]
        for _ in range(n):
            sk = self.key(ctx)
            for which in ("noise_enc", "key_enc", "key_dec"):
                bodies.append("z_api %s %s" % (which, sk.hex()))
                meta.append((which, "sk"))
        sk = self.xor_zero_key(ctx)
        for which in ("noise_enc", "key_enc", "key_dec"):
            bodies.append("z_api %s %s" % (which, sk.hex()))
            meta.append((which, "sk"))
        sk = self.key(ctx)
        for which in ("noise_enc", "key_enc", "key_dec"):
            for pat, nm in (("11" * 32, "ephemeral"), ("22" * 32, "payload")):
                bodies.append("z_api %s %s %s" % (which, sk.hex(), pat))
                meta.append((which, nm))
        res = drv(binp, bodies)
        for b, m, r in zip(bodies, meta, res):
            if m is None:
                continue
            which, pat = m
            inp = {"driver": "libdrv", "profile": prof, "lines": ["setrand none", b], "oracle": "zapi"}
            self.ran(ctx, "%s/z_api/%s/%s" % (prof, which, pat))
            if int(r.get("blocks", "0") or 0) == 0 or r.get("outcome") != "ok":
                self.machinery(ctx, "z_api (%s) scanned nothing or the call failed: %s" % (prof, r["raw"][:200]))
                continue
            if pat == "sk":
                self.check(ctx, r.get("leaks") == "0", inp,
                           "no block released during %s still contains the caller's private key (its clones are wiped before release)" % which,
                           r["raw"][:300])
            else:
                lk = int(r.get("leaks", "0"))
                name = "payload_residue_in_temporary" if (pat == "payload" and lk) else "%s_residue" % pat
                self.count(ctx, "%s/%s/%s=%d" % (name, prof, which, lk))

    def recheck_zapi(self, inp, rs):
        return rs[1].get("leaks") == "0"
