#!/usr/bin/env python3
"""ptyrun — runs ONE command on a pseudo-terminal and reports what arrived on every stream.

Used by the C08 check (tools/props_misc.py, C08.pty_part) to put the real CLI into the situations in which it talks to
a person: a terminal on standard input (and possibly as the controlling terminal, so that /dev/tty opens) while
standard output and standard error are, independently, a pipe, a regular file or that terminal.

job (one JSON object on stdin):
  argv      list of str      program and arguments
  env       dict             complete environment of the child
  ctty      bool             true: the pty becomes the child's controlling terminal (/dev/tty opens);
                             false: the child is a session leader WITHOUT a controlling terminal (/dev/tty fails)
  stdin     "pty" | "null"
  stdout    "pipe" | "file" | "pty"      ("file": stdout_path is created / truncated)
  stderr    "pipe" | "file" | "pty"      ("file": stderr_path)
  typed     list of str      lines typed on the terminal, one per password prompt: line i is written to the pty master when
                             the child has switched the terminal's ECHO flag off for the i-th time (which is what a password
                             prompt does, wherever it prints its prompt); fallback: 5 s without any ECHO-off
  timeout   seconds
reply (one JSON object on stdout): rc, timed_out, sent (number of typed lines delivered), stdout / stderr / pty (hex of the
bytes that arrived on the pipe resp. the terminal; for "file" streams the caller reads the file)
"""
import errno, fcntl, json, os, select, signal, sys, termios, time


def main():
    job = json.load(sys.stdin)
    master, slave = os.openpty()           # the slave is opened with O_NOCTTY: it is nobody's controlling terminal yet
    fds = {}
    pipes = {}
    for name in ("stdout", "stderr"):
        kind = job.get(name, "pipe")
        if kind == "pipe":
            r, w = os.pipe()
            fds[name] = w
            pipes[name] = r
        elif kind == "file":
            fds[name] = os.open(job[name + "_path"], os.O_WRONLY | os.O_CREAT | os.O_TRUNC, 0o600)
        else:
            fds[name] = slave
    if job.get("stdin", "pty") == "pty":
        fds["stdin"] = slave
    else:
        fds["stdin"] = os.open("/dev/null", os.O_RDONLY)
    pid = os.fork()
    if pid == 0:
        try:
            os.setsid()
            if job.get("ctty"):
                fcntl.ioctl(slave, termios.TIOCSCTTY, 0)
            os.dup2(fds["stdin"], 0)
            os.dup2(fds["stdout"], 1)
            os.dup2(fds["stderr"], 2)
            os.closerange(3, 256)
            if job.get("cwd"):
                os.chdir(job["cwd"])
            os.execve(job["argv"][0], job["argv"], job.get("env") or {})
        except BaseException as e:          # noqa
            os.write(2, ("ptyrun: child setup failed: %r\n" % (e,)).encode())
        os._exit(127)
    for name in ("stdout", "stderr", "stdin"):
        if fds[name] != slave:
            os.close(fds[name])
    os.close(slave)
    got = {"stdout": b"", "stderr": b"", "pty": b""}
    watch = {master: "pty"}
    for name, r in pipes.items():
        watch[r] = name
    typed = [t.encode("utf-8") + b"\n" for t in job.get("typed", [])]
    sent, last_send, seen_on = 0, 0.0, True
    t0 = time.time()
    deadline = t0 + float(job.get("timeout", 120))
    rc, timed_out = None, False
    while True:
        if rc is None:
            try:
                p, st = os.waitpid(pid, os.WNOHANG)
            except ChildProcessError:
                p, st = pid, 0
            if p == pid:
                rc = os.waitstatus_to_exitcode(st)
        # password prompts: the ECHO flag of the terminal
        if rc is None and sent < len(typed):
            try:
                echo = bool(termios.tcgetattr(master)[3] & termios.ECHO)
            except (termios.error, OSError):
                echo = True
            now = time.time()
            if echo:
                seen_on = True
            if (not echo and (seen_on or now - last_send > 0.3)) or (now - max(t0, last_send) > 5.0):
                try:
                    os.write(master, typed[sent])
                except OSError:
                    pass
                sent += 1
                last_send, seen_on = now, False
        try:
            ready, _, _ = select.select(list(watch), [], [], 0.004 if rc is None else 0.05)
        except (OSError, ValueError):
            ready = []
        for fd in ready:
            try:
                data = os.read(fd, 1 << 16)
            except OSError as e:
                data = b"" if e.errno in (errno.EIO, errno.EBADF) else None
            if data:
                got[watch[fd]] += data
            elif data is not None:
                os.close(fd)
                del watch[fd]
        if rc is not None and (not ready or not watch):
            # the child is gone; a pipe still held open by nobody else is at EOF by now
            break
        if time.time() > deadline and rc is None:
            timed_out = True
            try:
                os.killpg(pid, signal.SIGKILL)
            except OSError:
                pass
            try:
                os.waitpid(pid, 0)
            except OSError:
                pass
            rc = 124
            break
    json.dump({"rc": rc, "timed_out": timed_out, "sent": sent, "stdout": got["stdout"].hex(), "stderr": got["stderr"].hex(),
               "pty": got["pty"].hex()}, sys.stdout)
    return 0


if __name__ == "__main__":
    sys.exit(main())
