"""rustfn — reading ONE function body: call sites, let bindings, origin tracing (see rustlite.py)."""
from rustlite import (ExtractError, NotConst, Lin, Eval, OPEN, split_top, ceval, bytes_of_str, INT_TYPES)

KEYWORDS = {"if", "while", "match", "return", "for", "in", "let", "else", "loop", "fn", "as", "break", "continue",
            "mut", "ref", "move", "unsafe", "where", "impl", "pub", "use", "mod", "struct", "enum", "const", "static"}

PASS_METHODS = {"as_slice", "as_bytes", "as_ref", "as_str", "as_mut_slice", "as_mut", "clone", "cloned", "to_vec",
                "to_owned", "into", "try_into", "unwrap", "deref", "borrow", "expect", "map_err", "iter", "copied"}
PASS_CTORS = {("Zeroizing", "new"), ("Box", "new"), ("Vec", "from"), ("Rc", "new"), ("Arc", "new")}

BINOPS = {"+", "-", "*", "/", "%", "<<", ">>", "|", "^", "&", "==", "!=", "<", ">", "<=", ">=", "&&", "||", "..", "..="}


class Let:
    def __init__(self, name, mut, ty, init, i_let, i_end, line, tuple_idx=None, ctx=None):
        self.name, self.mut, self.ty, self.init, self.i_let, self.i_end, self.line = name, mut, ty, init, i_let, i_end, line
        self.tuple_idx = tuple_idx
        self.ctx = ctx

    def where(self):
        return {"file": self.ctx.f.rel, "line": self.line}

    def atom(self):
        return self.ctx.prefix + "L%d" % self.i_let + ("" if self.tuple_idx is None else ".%d" % self.tuple_idx)


class IfLet:
    def __init__(self, name, ctor, init, i_pos, i_open):
        self.name, self.ctor, self.init, self.i_pos, self.i_open = name, ctor, init, i_pos, i_open


class Call:
    """a call site; ctx is the function context (the analysed function, or a private helper entered from it)
    in which its token indices are valid"""
    def __init__(self, path, i_name, op, cl, args, method, start, macro=False, ctx=None):
        self.path, self.i_name, self.op, self.cl, self.args, self.method, self.start, self.macro = \
            path, i_name, op, cl, args, method, start, macro
        self.ctx = ctx

    def origin(self, i):
        return self.ctx.origin(*self.args[i])

    def const(self, i, item):
        return self.ctx.const(self.args[i][0], self.args[i][1], item)

    def lin(self, i, item):
        return self.ctx.lin(self.args[i][0], self.args[i][1], item)

    def is_const_expr(self, i):
        return self.ctx.is_const_expr(*self.args[i])

    def text(self, i):
        return self.ctx.text(*self.args[i])

    def where(self):
        return self.ctx.where(self.i_name)

    def recv_origin(self):
        """origin of the receiver of a method call"""
        return self.ctx.origin(self.start, self.i_name - 1)


class Origin:
    """where a value comes from.  ctx: the function context in which a, b (token range of the defining expression)
    and the ranges in the other attributes are valid; lets: the let bindings followed on the way, outermost first"""
    def __init__(self, kind, a, b, **kw):
        self.kind, self.a, self.b = kind, a, b
        self.lets = []
        self.unwrapped = False
        self.ctx = None
        self.__dict__.update(kw)

    def text(self):
        return self.ctx.text(self.a, self.b)

    def deflet(self):
        return self.lets[-1] if self.lets else None

    def __repr__(self):
        d = {k: v for k, v in self.__dict__.items() if k not in ("a", "b", "lets")}
        return "Origin(%r)" % d


# functions the items look for by name: never entered as helpers (their bodies are analysed on their own)
ANCHORS = {
    "chapoly_encrypt_noise", "chapoly_decrypt_noise", "chapoly_encrypt_ietf", "chapoly_decrypt_ietf", "try_from",
    "generate", "x25519", "x25519_derive_public", "hkdf_noise", "hkdf_sha256", "hmac_sha256", "sha256", "scrypt",
    "secure_random", "noise_encrypt", "noise_decrypt", "new", "init_x", "read_message", "write_message", "set_nonce",
    "encrypt_with_ad", "decrypt_with_ad", "key_encrypt", "pass_encrypt", "encrypt_chunks", "decrypt_chunks",
    "valid_file_format", "key_decrypt", "pass_decrypt", "lock_private_key", "unlock_private_key", "decode_public_key",
    "encode_public_key", "valid_key_name", "parse_config", "serialize_key", "add_key", "main", "try_main", "parse_key",
    "parse_password", "parse_encrypt", "parse_decrypt", "parse_pass_encrypt", "parse_pass_decrypt",
    "print_usage_error", "format_parse_decrypt_error", "gen_key", "change_pass", "encrypt", "decrypt", "extract_pub",
    "smix", "block_mix", "salsa_xor", "open_input", "open_output", "open_keyring", "ask_pass", "confirm_password",
}
MAX_HELPER_DEPTH = 3


class FnCtx:
    """one function body.  parent/call: set when this is a private helper ENTERED from a call site of `parent`:
    its parameters are then bound to the argument expressions of that call (origin tracing, evaluation and the
    call lists see through the helper as if it were written in place)."""
    def __init__(self, crate, fn, parent=None, call=None):
        self.crate, self.fn, self.f = crate, fn, fn.f
        self.T, self.m = fn.f.toks, fn.f.m
        self.ba, self.bb = fn.ba + 1, fn.bb     # inside the braces
        self.parent, self.call = parent, call
        self.depth = 0 if parent is None else parent.depth + 1
        self.prefix = "" if parent is None else "%s@%d." % (fn.name, call.i_name)
        self.lets, self.iflets = [], []
        self._scan_lets()
        for L in self.lets:
            L.ctx = self
        self._calls = None
        self._tree = None
        self._inst = {}

    def root(self):
        return self if self.parent is None else self.parent.root()

    def on_stack(self, fn):
        c = self
        while c is not None:
            if c.fn is fn:
                return True
            c = c.parent
        return False

    def helper_of(self, c):
        """the private helper function a call enters, or None"""
        if c.method or c.macro or self.depth >= MAX_HELPER_DEPTH:
            return None
        name = self.f.alias.get(c.path[-1], c.path[-1])
        if name in ANCHORS or len(c.path) > 2:
            return None
        cands = [g for g in self.crate.fns if g.name == name and not g.is_pub]
        if len(c.path) == 2 and c.path[0] not in ("Self", "self", "crate", "super"):
            cands = [g for g in cands if g.impl.split(" for ")[-1].strip() == c.path[0] or g.impl == ""]
        if len(cands) != 1:
            return None
        g = cands[0]
        if self.on_stack(g) or (g.params and g.params[0][0] == "self"):
            return None
        if len(g.params) != len(c.args):
            return None
        return g

    def enter(self, c):
        """the context of the helper entered by call c (None if c does not enter a helper)"""
        if c.i_name in self._inst:
            return self._inst[c.i_name]
        g = self.helper_of(c)
        G = FnCtx(self.crate, g, self, c) if g is not None else None
        self._inst[c.i_name] = G
        return G

    def tail_range(self):
        """the expression the function returns: what follows the last top-level `;`, else the last `return e;`"""
        T, m = self.T, self.m
        i, last = self.ba, self.ba
        while i < self.bb:
            if T[i].s in OPEN:
                j = m[i]
                # a block statement (if/loop/match ... {}) at statement level ends a statement too
                if T[i].s == "{" and j + 1 < self.bb and T[j + 1].s not in (".", "?", ";", ")", ",", "else") \
                        and not (T[j + 1].k == "id" and T[j + 1].s in ("else", "as")):
                    last = j + 1
                i = j + 1
                continue
            if T[i].s == ";":
                last = i + 1
            i += 1
        if last < self.bb:
            return (last, self.bb)
        rs = [k for k in range(self.ba, self.bb) if T[k].k == "id" and T[k].s == "return"]
        if rs:
            k = rs[-1] + 1
            e = k
            while e < self.bb and T[e].s != ";":
                if T[e].s in OPEN:
                    e = m[e]
                e += 1
            return (k, e)
        return None

    # ------------------------------------------------------------ text / where
    def text(self, a, b):
        return self.f.text(a, b)

    def where(self, i):
        return {"file": self.f.rel, "line": self.T[i].line}

    # ------------------------------------------------------------ lets
    def _scan_lets(self):
        T, m = self.T, self.m
        i = self.ba
        while i < self.bb:
            t = T[i]
            if t.k == "id" and t.s == "let":
                prev = T[i - 1]
                if prev.k == "id" and prev.s in ("if", "while") or prev.s in ("&&", "||"):
                    # if let PAT(name) = EXPR {
                    j = i + 1
                    names, ctor = [], None
                    while T[j].s != "=":
                        if T[j].s in OPEN and T[j].s != "(":
                            j = m[j]
                        if T[j].k == "id" and T[j].s not in ("mut", "ref"):
                            if T[j + 1].s in ("(", "::", "{"):
                                ctor = T[j].s
                            else:
                                names.append(T[j].s)
                        j += 1
                    k = j + 1
                    while k < self.bb and T[k].s != "{":
                        if T[k].s in ("(", "["):
                            k = m[k]
                        k += 1
                    for nm in names:
                        self.iflets.append(IfLet(nm, ctor, (j + 1, k), i, k))
                    i += 1
                    continue
                j = i + 1
                mut = False
                names = []
                if T[j].s == "(":
                    e = m[j]
                    idx = 0
                    for (a, b) in split_top(self.f, j + 1, e):
                        nm = [x.s for x in T[a:b] if x.k == "id" and x.s not in ("mut", "ref")]
                        names.append((nm[-1] if nm else "_", any(x.s == "mut" for x in T[a:b]), idx))
                        idx += 1
                    j = e + 1
                else:
                    if T[j].s == "mut":
                        mut = True
                        j += 1
                    if T[j].k != "id":
                        i += 1
                        continue
                    names.append((T[j].s, mut, None))
                    j += 1
                ty = None
                if T[j].s == ":":
                    k = j + 1
                    ang = 0
                    while k < self.bb and not (T[k].s in ("=", ";") and ang == 0):
                        if T[k].s in OPEN:
                            k = m[k]
                        elif T[k].s == "<":
                            ang += 1
                        elif T[k].s == ">":
                            ang -= 1
                        elif T[k].s == ">>":
                            ang -= 2
                        k += 1
                    ty = (j + 1, k)
                    j = k
                init = None
                e = j
                if T[j].s == "=":
                    e = j + 1
                    while e < self.bb and T[e].s != ";":
                        if T[e].s in OPEN:
                            e = m[e]
                        e += 1
                    init = (j + 1, e)
                for (nm, mu, idx) in names:
                    self.lets.append(Let(nm, mu, ty, init, i, e, t.line, idx))
            i += 1

    def let_before(self, name, pos):
        best = None
        for L in self.lets:
            if L.name == name and L.i_end < pos:
                best = L
        return best

    def iflet_before(self, name, pos):
        best = None
        for L in self.iflets:
            if L.name == name and L.i_open < pos:
                best = L
        return best

    def param_index(self, name):
        for i, (nm, _, _) in enumerate(self.fn.params):
            if nm == name:
                return i
        return None

    def is_assigned(self, L, ops=("=", "+=", "-=")):
        """positions where the variable of let L is assigned after its definition: [(index_of_name, op)]"""
        out = []
        T = self.T
        for i in range(L.i_end, self.bb):
            if T[i].k == "id" and T[i].s == L.name and T[i + 1].s in ops and T[i - 1].s not in (".", "::", "let", "mut") \
                    and self.let_before(L.name, i) is L:
                out.append((i, T[i + 1].s))
        return out

    # ------------------------------------------------------------ calls
    def all_calls(self):
        if self._calls is not None:
            return self._calls
        T, m = self.T, self.m
        out = []
        for i in range(self.ba, self.bb):
            t = T[i]
            if t.k != "id" or t.s in KEYWORDS:
                continue
            nxt = T[i + 1]
            macro = False
            op = None
            if nxt.s == "(":
                op = i + 1
            elif nxt.s == "!" and T[i + 2].s in ("(", "["):
                op, macro = i + 2, True
            elif nxt.s == "::" and T[i + 2].s == "<":
                # turbofish call  name::<T>(..)
                k, ang = i + 2, 0
                while k < self.bb:
                    if T[k].s == "<":
                        ang += 1
                    elif T[k].s == ">":
                        ang -= 1
                    elif T[k].s == ">>":
                        ang -= 2
                    k += 1
                    if ang <= 0:
                        break
                if k < self.bb and T[k].s == "(":
                    op = k
            if op is None:
                continue
            if T[i - 1].k == "id" and T[i - 1].s == "fn":
                continue
            cl = m[op]
            method = T[i - 1].s == "."
            path = [t.s]
            start = i
            if not method:
                j = i
                while T[j - 1].s == "::" and T[j - 2].k == "id":
                    path.insert(0, T[j - 2].s)
                    j -= 2
                start = j
            else:
                start = self.chain_start(i - 2)
            out.append(Call(path, i, op, cl, split_top(self.f, op + 1, cl), method, start, macro, ctx=self))
        self._calls = out
        return out

    def tree_calls(self):
        """the calls of this function in textual order, each private helper's calls spliced in after the call
        that enters it (every Call knows its ctx)"""
        if self._tree is not None:
            return self._tree
        out = []
        for c in self.all_calls():
            out.append(c)
            G = self.enter(c)
            if G is not None:
                out.extend(G.tree_calls())
        self._tree = out
        return out

    def _in(self, c, a, b):
        """is call c (of this context or of a helper entered from it) inside toks[a:b] of THIS context?"""
        x = c
        ctx = c.ctx
        while ctx is not self:
            if ctx is None or ctx.parent is None:
                return False
            x, ctx = ctx.call, ctx.parent
        return a <= x.i_name < b

    def _resolved(self, name):
        return self.f.alias.get(name, name)

    def calls(self, name, a=None, b=None):
        a = self.ba if a is None else a
        b = self.bb if b is None else b
        return [c for c in self.tree_calls()
                if not c.method and not c.macro and self._in(c, a, b)
                and (c.path[-1] == name or c.ctx.f.alias.get(c.path[-1], c.path[-1]) == name)]

    def mcalls(self, name, a=None, b=None):
        a = self.ba if a is None else a
        b = self.bb if b is None else b
        return [c for c in self.tree_calls() if c.method and self._in(c, a, b) and c.path[-1] == name]

    def macros(self, name):
        return [c for c in self.tree_calls() if c.macro and c.path[-1] == name]

    def one_call(self, name, item, nth=0, count=None):
        cs = self.calls(name)
        if count is not None and len(cs) != count:
            raise ExtractError("%s:call %s (%d calls, expected %d)" % (item, name, len(cs), count))
        if len(cs) <= nth:
            raise ExtractError("%s:call %s" % (item, name))
        return cs[nth]

    def chain_start(self, p):
        """first token of the postfix expression whose last token is p"""
        T, m = self.T, self.m
        i = p
        while True:
            t = T[i]
            if t.s == "?":
                i -= 1
                continue
            if t.s in (")", "]"):
                o = m[i]
                pv = T[o - 1]
                if T[o].s == "(":
                    if pv.k == "id" and pv.s not in KEYWORDS:
                        i = o - 1
                        continue
                    if pv.s == ">" :      # turbofish call: give up following, treat as start
                        return o
                    if pv.s == "!":
                        return o - 2
                    return o
                # "["
                if pv.s == "!":
                    return o - 2
                if (pv.k == "id" and pv.s not in KEYWORDS) or pv.s in (")", "]", "?"):
                    i = o - 1
                    continue
                return o
            if t.k == "id":
                pv = T[i - 1]
                if pv.s == "." and T[i - 2].s not in ("..",):
                    i -= 2
                    continue
                if pv.s == "::":
                    i -= 2
                    continue
                return i
            return i

    # ------------------------------------------------------------ evaluation
    def canon(self, a, b):
        T = self.T
        out = []
        for k in range(a, b):
            t = T[k]
            if t.k == "id" and T[k - 1].s not in (".", "::") and not (k + 1 < b and T[k + 1].s == "::"):
                out.append(self.canon_ident(t.s, k))
            else:
                out.append(t.s)
        return " ".join(out)

    def bound_arg(self, idx):
        """(parent ctx, a, b) of the argument bound to parameter idx, for an entered helper"""
        if self.parent is None or self.call is None or idx >= len(self.call.args):
            return None
        a, b = self.call.args[idx]
        return (self.parent, a, b)

    def canon_ident(self, name, pos, depth=0):
        L = self.let_before(name, pos)
        if L is not None:
            if not L.mut and L.init is not None and depth < 20:
                a, b = self.strip(*L.init)
                if b - a == 1 and self.T[a].k == "id":
                    return self.canon_ident(self.T[a].s, a, depth + 1)
            return L.atom()
        p = self.param_index(name)
        if p is not None:
            ba = self.bound_arg(p)
            if ba is not None:
                P, a, b = ba
                a, b = P.strip(a, b)
                if b - a == 1 and P.T[a].k == "id":
                    return P.canon_ident(P.T[a].s, a, depth + 1)
                return "( " + P.canon(a, b) + " )"
            return "p%d" % p
        return name

    def resolve_ident(self, a, stack):
        name = self.T[a].s
        L = self.let_before(name, a)
        if L is not None:
            if L.mut or L.init is None or L.tuple_idx is not None:
                return Lin(0, {L.atom(): 1})
            key = ("let", id(L))
            if key in stack or len(stack) > 30:
                raise NotConst("cyclic let")
            try:
                v = Eval(self.crate, self.f, L.init[0], L.init[1], self, stack + (key,)).run()
                if v is not None:
                    return v
            except NotConst:
                pass
            return Lin(0, {L.atom(): 1})
        p = self.param_index(name)
        if p is not None:
            ba = self.bound_arg(p)
            if ba is not None:
                P, x, y = ba
                if len(stack) > 30:
                    raise NotConst("too deep")
                try:
                    v = Eval(P.crate, P.f, x, y, P, stack + (("arg", id(self), p),)).run()
                    if v is not None:
                        return v
                except NotConst:
                    pass
                return Lin(0, {self.canon_ident(name, a): 1})
            return Lin(0, {"p%d" % p: 1})
        return None

    def lin_of_let(self, L):
        """the value the evaluator gives to a use of the variable bound by let L"""
        C = L.ctx
        if L.mut or L.init is None or L.tuple_idx is not None:
            return Lin(0, {L.atom(): 1})
        try:
            v = Eval(C.crate, C.f, L.init[0], L.init[1], C, (("let", id(L)),)).run()
            if v is not None:
                return v
        except NotConst:
            pass
        return Lin(0, {L.atom(): 1})

    def lin(self, a, b, item):
        try:
            v = Eval(self.crate, self.f, a, b, self).run()
        except NotConst as e:
            raise ExtractError("%s:expression `%s` (%s)" % (item, self.text(a, b), e))
        if v is None:
            raise ExtractError("%s:expression `%s`" % (item, self.text(a, b)))
        return v

    def const(self, a, b, item):
        v = self.lin(a, b, item)
        if not v.is_const():
            raise ExtractError("%s:`%s` is not a compile-time constant" % (item, self.text(a, b)))
        return v.c

    def is_const_expr(self, a, b):
        """compile-time constant: evaluates without any local/parameter atom"""
        try:
            ceval(self.crate, self.f, a, b)
            return True
        except NotConst:
            return False

    # ------------------------------------------------------------ origin tracing
    def strip(self, a, b):
        T, m = self.T, self.m
        changed = True
        while changed and a < b:
            changed = False
            if T[a].s == "(" and m[a] == b - 1 and len(split_top(self.f, a + 1, b - 1)) == 1 \
                    and T[b - 2].s != ",":
                a, b = a + 1, b - 1
                changed = True
                continue
            if T[a].s in ("&", "*", "&&"):
                a += 1
                if a < b and T[a].s == "mut":
                    a += 1
                changed = True
                continue
            if T[b - 1].s == "?":
                b -= 1
                changed = True
                continue
            if T[b - 1].s == ")" and m[b - 1] - 2 >= a and T[m[b - 1] - 1].k == "id" and T[m[b - 1] - 2].s == "." \
                    and T[m[b - 1] - 1].s in PASS_METHODS:
                b = m[b - 1] - 2
                changed = True
                continue
            if T[b - 1].s == "]" and m[b - 1] > a and b - 1 - m[b - 1] == 2 and T[b - 2].s == "..":
                b = m[b - 1]
                changed = True
                continue
            # Zeroizing::new(x)
            if T[b - 1].s == ")" and m[b - 1] - 3 == a and T[a].k == "id" and T[a + 1].s == "::" \
                    and (T[a].s, T[a + 2].s) in PASS_CTORS:
                a, b = m[b - 1] + 1, b - 1
                changed = True
                continue
        return a, b

    def top_ops(self, a, b):
        """top-level binary operators / `as` in toks[a:b]: list of (index, op)"""
        T, m = self.T, self.m
        out = []
        i = a
        while i < b:
            t = T[i]
            if t.k == "p" and t.s in OPEN:
                i = m[i] + 1
                continue
            if t.k == "id" and t.s == "as":
                out.append((i, "as"))
            elif t.k == "p" and t.s in BINOPS and i > a:
                pv = T[i - 1]
                operand_end = pv.k in ("id", "int", "str", "char", "bstr") and pv.s not in KEYWORDS or pv.s in (")", "]", "?")
                if t.s in ("..", "..="):
                    out.append((i, t.s))
                elif operand_end:
                    # `<`/`>` of a turbofish are not operators
                    if t.s == "<" and pv.s == "::":
                        pass
                    else:
                        out.append((i, t.s))
            i += 1
        return out

    def array_literal(self, a, b, item="array"):
        """toks[a] == '[' and m[a] == b-1 : returns Origin empty / fill / arr"""
        T = self.T
        if b - a == 2:
            return Origin("empty", a, b)
        parts = split_top(self.f, a + 1, b - 1, sep=";")
        if len(parts) == 2:
            try:
                v = self.lin(parts[0][0], parts[0][1], item)
                n = self.lin(parts[1][0], parts[1][1], item)
            except ExtractError:
                return Origin("expr", a, b)
            if v.is_const() and n.is_const() and n.c == 0:
                return Origin("empty", a, b)
            return Origin("fill", a, b, value=v.c if v.is_const() else None, size=n, size_rng=parts[1])
        vals = []
        for (x, y) in split_top(self.f, a + 1, b - 1):
            try:
                vals.append(ceval(self.crate, self.f, x, y))
            except NotConst:
                return Origin("arrexpr", a, b, elems=split_top(self.f, a + 1, b - 1))
        return Origin("arr", a, b, values=vals)

    def const_bytes(self, d, depth=0):
        """value of a crate constant that is a byte array / byte string, or None"""
        T, f = d.f.toks, d.f
        a, b = d.ea, d.eb
        while a < b and T[a].s in ("&", "*"):
            a += 1
        if b - a == 1 and T[a].k == "bstr":
            return list(T[a].v)
        if T[a].s == "[" and f.m[a] == b - 1:
            parts = split_top(f, a + 1, b - 1, sep=";")
            try:
                if len(parts) == 2:
                    return [ceval(self.crate, f, *parts[0])] * ceval(self.crate, f, *parts[1])
                return [ceval(self.crate, f, x, y) for (x, y) in split_top(f, a + 1, b - 1)]
            except NotConst:
                return None
        if all(T[k].k == "id" or T[k].s == "::" for k in range(a, b)) and depth < 10:
            d2 = self.crate.find_const(T[b - 1].s, f)
            if d2 is not None:
                return self.const_bytes(d2, depth + 1)
        return None

    def origin(self, a, b, depth=0):
        """where the value of toks[a:b] comes from (see Origin); follows local lets, parameters bound at the call
        site of an entered helper, and the returned expression of private helpers"""
        o = self._origin(a, b, depth)
        if o.ctx is None:
            o.ctx = self
        # the result of a private helper: continue with the expression it returns
        if o.kind == "call" and o.ctx is self and depth < 40:
            cs = [c for c in self.all_calls() if c.start == o.a and c.cl == o.b - 1 and not c.method]
            G = self.enter(cs[0]) if cs else None
            if G is not None:
                tr = G.tail_range()
                if tr is not None:
                    r = G.origin(tr[0], tr[1], depth + 1)
                    r.via = o
                    return r
        if o.kind == "tuplefield" and o.base.kind == "tuple" and o.idx < len(o.base.elems):
            x, y = o.base.elems[o.idx]
            r = o.base.ctx.origin(x, y, depth + 1)
            return r
        return o

    def _origin(self, a, b, depth=0):
        if depth > 40:
            raise ExtractError("origin:too deep at `%s`" % self.text(a, b))
        T, m = self.T, self.m
        a, b = self.strip(a, b)
        if a >= b:
            return Origin("expr", a, b)
        t = T[a]
        if t.s == "(" and m[a] == b - 1:
            return Origin("tuple", a, b, elems=split_top(self.f, a + 1, b - 1))
        # ---- single token
        if b - a == 1:
            if t.k == "int":
                return Origin("const_int", a, b, value=t.v[0], cdef=None)
            if t.k in ("str", "bstr"):
                return Origin("str", a, b, value=bytes_of_str(t))
            if t.k == "char":
                return Origin("const_int", a, b, value=t.v, cdef=None)
            if t.k == "id":
                if t.s in ("true", "false"):
                    return Origin("bool", a, b, value=(t.s == "true"))
                if t.s == "None":
                    return Origin("none", a, b)
                L = self.let_before(t.s, a)
                IL = self.iflet_before(t.s, a)
                if IL is not None and (L is None or L.i_end < IL.i_pos):
                    o = self.origin(IL.init[0], IL.init[1], depth + 1)
                    o.unwrapped = True
                    return o
                if L is not None:
                    if L.init is None:
                        o = Origin("uninit", a, b)
                    elif L.tuple_idx is not None:
                        o = Origin("tuplefield", a, b, base=self.origin(L.init[0], L.init[1], depth + 1), idx=L.tuple_idx)
                    else:
                        o = self.origin(L.init[0], L.init[1], depth + 1)
                    o.lets.insert(0, L)
                    return o
                p = self.param_index(t.s)
                if p is not None:
                    ba = self.bound_arg(p)
                    if ba is not None:
                        return ba[0].origin(ba[1], ba[2], depth + 1)
                    return Origin("param", a, b, idx=p, name=t.s)
                return self._const_origin(a, b)
        # ---- Some(x)
        if t.k == "id" and t.s == "Some" and T[a + 1].s == "(" and m[a + 1] == b - 1:
            return Origin("some", a, b, inner=self.origin(a + 2, b - 1, depth + 1))
        # ---- array literal / vec!
        if t.s == "[" and m[a] == b - 1:
            return self.array_literal(a, b)
        if t.k == "id" and t.s == "vec" and T[a + 1].s == "!" and m.get(a + 2) == b - 1:
            o = self.array_literal(a + 2, b)
            o.vec = True
            return o
        # ---- if / if let ... else
        if t.k == "id" and t.s == "if":
            k = a + 1
            while k < b and T[k].s != "{":
                if T[k].s in ("(", "["):
                    k = m[k]
                k += 1
            if k < b:
                e1 = m[k]
                if e1 + 1 < b and T[e1 + 1].s == "else" and T[e1 + 2].s == "{" and m[e1 + 2] == b - 1:
                    return Origin("ifelse", a, b, cond=(a + 1, k), then=(k + 1, e1), els=(e1 + 3, b - 1))
            return Origin("expr", a, b)
        # ---- whole thing a compile-time constant?
        ops = self.top_ops(a, b)
        try:
            v = ceval(self.crate, self.f, a, b)
            o = self._const_origin(a, b)
            if o.kind == "const_int":
                return o
            return Origin("const_int", a, b, value=v, cdef=None)
        except NotConst:
            pass
        if ops:
            if all(op == "as" for (_, op) in ops):
                i0 = ops[0][0]
                return Origin("cast", a, b, inner=self.origin(a, i0, depth + 1), ty=T[ops[-1][0] + 1].s, inner_rng=(a, i0))
            return Origin("expr", a, b, ops=ops)
        # ---- postfix, from the right
        last = T[b - 1]
        if last.s == ")":
            o = m[b - 1]
            nm = T[o - 1]
            if nm.k == "id" and nm.s not in KEYWORDS:
                if T[o - 2].s == ".":
                    return Origin("method", a, b, base=self.origin(a, o - 2, depth + 1), name=nm.s,
                                  args=split_top(self.f, o + 1, b - 1), base_rng=(a, o - 2))
                j = o - 1
                path = [nm.s]
                while T[j - 1].s == "::" and T[j - 2].k == "id" and j - 2 >= a:
                    path.insert(0, T[j - 2].s)
                    j -= 2
                if j == a:
                    return Origin("call", a, b, path=path, name=self.f.alias.get(path[-1], path[-1]),
                                  args=split_top(self.f, o + 1, b - 1))
            return Origin("expr", a, b)
        if last.s == "]":
            o = m[b - 1]
            base = self.origin(a, o, depth + 1)
            parts = None
            for i in range(o + 1, b - 1):
                if T[i].s in ("..", "..=") :
                    # top-level?
                    d = 0
                    ok = True
                    for k in range(o + 1, i):
                        if T[k].s in OPEN:
                            d += 1
                        elif T[k].s in (")", "]", "}"):
                            d -= 1
                    if d == 0:
                        parts = ((o + 1, i), (i + 1, b - 1), T[i].s == "..=")
                        break
            if parts is None:
                return Origin("index", a, b, base=base, idx=(o + 1, b - 1), base_rng=(a, o))
            return Origin("slice", a, b, base=base, lo=parts[0], hi=parts[1], incl=parts[2], base_rng=(a, o))
        if last.k == "id" and T[b - 2].s == ".":
            return Origin("field", a, b, base=self.origin(a, b - 2, depth + 1), name=last.s)
        if last.k == "int" and T[b - 2].s == ".":
            return Origin("field", a, b, base=self.origin(a, b - 2, depth + 1), name=str(last.v[0]))
        if all(T[k].k == "id" or T[k].s == "::" for k in range(a, b)):
            return self._const_origin(a, b)
        return Origin("expr", a, b)

    def _const_origin(self, a, b):
        T = self.T
        name = T[b - 1].s
        d = self.crate.find_const(name, self.f)
        if d is None:
            return Origin("path", a, b, path=[T[k].s for k in range(a, b) if T[k].k == "id"])
        bs = self.const_bytes(d)
        tytxt = d.f.text(*d.ty)
        if bs is not None and ("[" in tytxt):
            return Origin("const_bytes", a, b, values=bs, cdef=d)
        if d.eb - d.ea == 1 and d.f.toks[d.ea].k == "str":
            return Origin("str", a, b, value=bytes_of_str(d.f.toks[d.ea]), cdef=d)
        try:
            v = ceval(self.crate, self.f, a, b)
            return Origin("const_int", a, b, value=v, cdef=d)
        except NotConst:
            return Origin("path", a, b, path=[name])

    # ------------------------------------------------------------ helpers on origins
    def slice_bounds(self, o, item, size=None):
        """(lo, hi) of a slice origin as Lin values (evaluated where the slice is written); an open end is `size`
        (a Lin) or None"""
        C = o.ctx
        lo = Lin(0) if o.lo[0] == o.lo[1] else C.lin(o.lo[0], o.lo[1], item)
        if o.hi[0] == o.hi[1]:
            hi = size
        else:
            hi = C.lin(o.hi[0], o.hi[1], item)
            if o.incl:
                hi = hi + Lin(1)
        return lo, hi

    def fills_of(self, L, methods=("read_exact",)):
        """indices k (textual order among the calls of these methods in this fn) whose `&mut X` argument is let L"""
        out = []
        k = 0
        for c in self.root().tree_calls():
            if c.method and c.path[-1] in methods:
                for i in range(len(c.args)):
                    o = c.origin(i)
                    if o.deflet() is L or (o.kind == "slice" and o.base.deflet() is L):
                        out.append((k, c))
                k += 1
        return out

    def copies_into(self, L):
        """statements  X[lo..hi].copy_from_slice(src)  on the buffer bound by let L (also when they are made by a
        private helper the buffer is passed to), in textual order: [(slice Origin, src range, call)];
        src range and the slice's ranges are valid in call.ctx"""
        out = []
        for c in self.root().mcalls("copy_from_slice"):
            o = c.recv_origin()
            if o.kind == "slice" and o.base.deflet() is L and len(c.args) == 1:
                out.append((o, c.args[0], c))
        return out
