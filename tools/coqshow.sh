#!/bin/bash
# usage: coqshow.sh <file.v relative to /verif/coq> <line>  — shows the proof state after that line
f=$1; n=$2
cd /verif/coq
tmp=$(dirname $f)/Tmp_show_$$.v
head -n $n $f > $tmp
echo "Show. " >> $tmp
timeout 300 coqc -Q . Kestrel $tmp 2>&1 | head -${3:-60}
rm -f $tmp $(dirname $f)/Tmp_show_$$.* $(dirname $f)/.Tmp_show_$$.aux
