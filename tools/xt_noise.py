"""translator items: src/crypto/src noise.rs and scrypt.rs"""
from rustlite import ExtractError, Lin, split_top, NotConst, ceval
from xt_common import (need, arg, zero_fill_size, where_of, named_const_int, bytes_value, if_conditions, comparisons,
                       len_comparand, Roles, Tokens, CMP_FLIP)
from xt_crypto import takes_no_u32

TOKS = ("E", "S", "EE", "ES", "SE", "SS")


def chain(F, a, b, op):
    """split toks[a:b] at top-level `op`; each piece -> int (constant) or canonical text"""
    cuts = [i for (i, o) in F.top_ops(a, b) if o == op]
    out, st = [], a
    for c in cuts + [b]:
        try:
            out.append(ceval(F.crate, F.f, st, c))
        except NotConst:
            x, y = F.strip(st, c)
            v = None
            try:
                v = F.lin(x, y, "chain")
            except ExtractError:
                pass
            if v is not None and v.c == 0 and len(v.t) == 1 and list(v.t.values()) == [1]:
                out.append(list(v.t)[0])
            else:
                out.append(F.canon(x, y))
        st = c + 1
    return out


def noise_items(S):
    C = S.crypto

    # ---- HASH_LEN
    def hash_role():
        item = "noise.rs:SymmetricState::new:length test"
        F = S.fn(C, "new", item, impl=r"^SymmetricState$")
        for cond in if_conditions(F):
            r = len_comparand(F, cond, lambda s: s == "p0 . len ( )", item)
            if len(r) == 1 and r[0][0] in ("<=", "<"):
                return r[0][1] - (1 if r[0][0] == "<" else 0), r[0][2]
        raise ExtractError(item)
    S.try_item("noise_hash_len", ("role:`<protocol_name>.len() <= N` of SymmetricState::new", hash_role),
           ("name:const HASH_LEN", lambda: named_const_int(S, C, "HASH_LEN", "noise.rs:HASH_LEN")))

    def hash_buf():
        item = "noise.rs:SymmetricState::new:hash_output"
        F = S.fn(C, "new", item, impl=r"^SymmetricState$")
        for c in F.calls("new"):
            if len(c.args) == 1 and c.path[0] in ("Key", "PayloadKey"):
                o = c.origin(0)
                if o.kind == "fill":
                    return zero_fill_size(F, o, item), where_of(F, o)
        raise ExtractError(item)
    S.try_item("noise_hash_output_len", ("role:zeroed array given to Key::new in SymmetricState::new", hash_buf))

    # ---- protocol name, pattern
    def proto():
        item = "noise.rs:init_x:protocol name"
        F = S.fn(C, "init_x", item)
        for c in F.calls("new"):
            if len(c.path) >= 2 and c.path[-2] == "SymmetricState" and len(c.args) == 1:
                o = c.origin(0)
                need(o.kind == "str", item + ":not a string constant")
                return list(o.value), c.where()
        raise ExtractError(item)
    S.try_item("noise_protocol_name", ("role:string given to SymmetricState::new in init_x", proto))

    def pattern_of(F, o, item):
        need(o.kind == "arrexpr", item + ":not a list of tokens")
        out = []
        F = o.ctx
        for (a, b) in o.elems:
            T = F.T
            need(b - a == 3 and T[a].s == "Token" and T[a + 1].s == "::" and T[a + 2].s in TOKS,
                 item + ":pattern token " + F.text(a, b))
            out.append(T[a + 2].s)
        return Tokens(out)

    def pattern_role():
        item = "noise.rs:init_x:pattern"
        F = S.fn(C, "init_x", item)
        ms = F.mcalls("push_back")
        need(len(ms) == 1 and len(ms[0].args) == 1, "%s:%d push_back calls" % (item, len(ms)))
        o = ms[0].origin(0)
        return pattern_of(F, o, item), where_of(F, o)

    def pattern_name():
        item = "noise.rs:init_x:pattern"
        F = S.fn(C, "init_x", item)
        for L in F.lets:
            if L.name == "pattern" and L.init:
                o = F.origin(*L.init)
                return pattern_of(F, o, item), L.where()
        raise ExtractError(item + ":let pattern")
    S.try_item("noise_pattern", ("role:vector pushed onto message_patterns in init_x", pattern_role),
           ("name:let pattern = vec![..]", pattern_name))

    # ---- read_message: guard, DH_LEN, tag
    def guard():
        item = "noise.rs:read_message:length guard"
        F = S.fn(C, "read_message", item)
        for cond in if_conditions(F):
            cmps, conn = comparisons(cond[4], cond[0], cond[1])
            r = len_comparand(F, cond, lambda s: s == "p1 . len ( )", item)
            if len(r) == 2 and len(cmps) == 2 and conn == ["||"]:
                mn = mx = None
                for (op, c, _) in r:
                    if op == "<":
                        mn = c
                    elif op == "<=":
                        mn = c + 1
                    elif op == ">":
                        mx = c
                    elif op == ">=":
                        mx = c - 1
                need(mn is not None and mx is not None, item + ":not a lower and an upper bound")
                body = cond[4].text(cond[2], cond[3])
                is_err = 1 if "return Err" in body and "panic" not in body else 0
                return {"noise_guard_min": mn, "noise_guard_max": mx, "noise_guard_is_error": is_err}, r[0][2]
        raise ExtractError(item)
    S.try_group(["noise_guard_min", "noise_guard_max", "noise_guard_is_error"],
            ("role:`if <message>.len() < A || <message>.len() > B` of read_message", guard))

    def dh_role():
        item = "noise.rs:read_message:slices of the message"
        F = S.fn(C, "read_message", item)
        widths = []
        for L in F.lets:
            if L.init is None:
                continue
            o = F.origin(*L.init)
            if o.kind == "slice" and o.base.kind == "param" and o.base.idx == 1 and o.hi[0] != o.hi[1]:
                lo, hi = o.ctx.slice_bounds(o, item)
                widths.append((hi - lo, L))
        need(len(widths) >= 2, item + ":fewer than two bounded slices")
        w0, L0 = widths[0]
        need(w0.is_const(), item + ":width of the first slice is not constant")
        w1, L1 = widths[1]
        need(w1.c == 0 and len(w1.t) == 1, item + ":width of the second slice")
        atom = list(w1.t)[0]
        need(atom.startswith("L"), item + ":width of the second slice is not a local")
        LL = [x for x in F.lets if x.atom() == atom]
        need(len(LL) == 1 and LL[0].init, item)
        o = F.origin(*LL[0].init)
        need(o.kind == "ifelse" and "has_key" in F.text(*o.cond), item + ":no has_key() choice")
        neg = F.T[o.cond[0]].s == "!"
        keyed = F.const(o.then[0], o.then[1], item)
        plain = F.const(o.els[0], o.els[1], item)
        if neg:
            keyed, plain = plain, keyed
        d = {"noise_dh_len": w0.c, "noise_s_len_keyed": keyed, "noise_s_len_plain": plain}
        return d, L0.where()

    def dh_name():
        v, w = named_const_int(S, C, "DH_LEN", "noise.rs:DH_LEN")
        raise ExtractError("noise.rs:DH_LEN found by name (%d) but the S-token lengths were not" % v)
    S.try_group(["noise_dh_len", "noise_s_len_keyed", "noise_s_len_plain"],
            ("role:widths of the slices of <message> in read_message", dh_role), ("name:const DH_LEN", dh_name))

    # ---- set_nonce assert, nonce step
    def set_nonce():
        item = "noise.rs:set_nonce"
        F = S.fn(C, "set_nonce", item)
        ok = 0
        for c in F.macros("assert"):
            if not c.args:
                continue
            cmps, conn = comparisons(c.ctx, c.args[0][0], c.args[0][1])
            if len(cmps) == 1 and cmps[0][1] is not None:
                (l, op, r) = cmps[0]
                for (subj, other, o2) in ((l, r, op), (r, l, CMP_FLIP[op])):
                    try:
                        v = c.ctx.lin(subj[0], subj[1], item)
                        k = c.ctx.const(other[0], other[1], item)
                    except ExtractError:
                        continue
                    if v == Lin(0, {"p1": 1}) and k == (1 << 64) - 1 and o2 in ("<", "!="):
                        ok = 1
        return ok, {"file": F.f.rel, "line": F.fn.line}
    S.try_item("noise_set_nonce_assert_max", ("role:assert!(<nonce> < u64::MAX) of set_nonce", set_nonce))

    def step(fname):
        def th():
            item = "noise.rs:%s:nonce step" % fname
            F = S.fn(C, fname, item)
            ms = F.mcalls("set_nonce")
            need(len(ms) == 1 and len(ms[0].args) == 1, item + ":set_nonce call")
            v = ms[0].lin(0, item)
            need(len(v.t) == 1 and list(v.t.values()) == [1], item + ":not <nonce> + constant")
            return v.c, ms[0].where()
        return th
    S.try_item("noise_nonce_step_enc", ("role:set_nonce(<nonce> + N) of encrypt_with_ad", step("encrypt_with_ad")))
    S.try_item("noise_nonce_step_dec", ("role:set_nonce(<nonce> + N) of decrypt_with_ad", step("decrypt_with_ad")))


def scrypt_items(S):
    C = S.crypto
    item = "scrypt.rs:scrypt"

    def asserts():
        F = S.fn(C, "scrypt", item, pick=takes_no_u32)
        need(len(F.fn.params) == 6, item + ":signature changed")
        As = F.macros("assert")
        need(len(As) == 6, "%s:%d assert! calls, expected 6" % (item, len(As)))
        d = {}
        shape = True
        # 1: n > A
        def one_cmp(c):
            cmps, conn = comparisons(F, c.args[0][0], c.args[0][1])
            need(len(cmps) == 1 and cmps[0][1] is not None, item + ":assert `%s`" % c.text(0))
            return cmps[0]
        (l, op, r) = one_cmp(As[0])
        shape &= chain(F, l[0], l[1], "+") == ["p2"] and op == ">"
        d["scrypt_n_gt"] = F.const(r[0], r[1], item)
        (l, op, r) = one_cmp(As[1])
        shape &= F.canon(l[0], l[1]) == "p2 & ( p2 - 1 )" and op == "==" and F.const(r[0], r[1], item) == 0
        (l, op, r) = one_cmp(As[2])
        shape &= chain(F, l[0], l[1], "*") == ["p3", "p4"] and op == "<"
        d["scrypt_rp_bound"] = F.const(r[0], r[1], item)
        (l, op, r) = one_cmp(As[3])
        ch = chain(F, r[0], r[1], "/")
        shape &= chain(F, l[0], l[1], "*") == ["p3"] and op == "<=" and len(ch) == 3 and ch[2] == "p4"
        need(len(ch) == 3 and isinstance(ch[0], int) and isinstance(ch[1], int), item + ":assert 4")
        d["scrypt_usize_max"], d["scrypt_r_div_p"] = ch[0], ch[1]
        (l, op, r) = one_cmp(As[4])
        ch = chain(F, r[0], r[1], "/")
        shape &= chain(F, l[0], l[1], "*") == ["p3"] and op == "<=" and len(ch) == 2 and ch[0] == d["scrypt_usize_max"]
        need(len(ch) == 2 and isinstance(ch[1], int), item + ":assert 5")
        d["scrypt_r_div"] = ch[1]
        (l, op, r) = one_cmp(As[5])
        ch = chain(F, r[0], r[1], "/")
        shape &= chain(F, l[0], l[1], "*") == ["p2"] and op == "<=" and len(ch) == 3 and ch[2] == "p3" and ch[0] == d["scrypt_usize_max"]
        need(len(ch) == 3 and isinstance(ch[1], int), item + ":assert 6")
        d["scrypt_n_div_r"] = ch[1]
        d["scrypt_asserts_shape_ok"] = 1 if shape else 0
        return d, As[0].where()
    S.try_group(["scrypt_n_gt", "scrypt_rp_bound", "scrypt_usize_max", "scrypt_r_div_p", "scrypt_r_div", "scrypt_n_div_r",
             "scrypt_asserts_shape_ok"], ("role:the six assert! of scrypt.rs::scrypt, in order", asserts))

    def sizes():
        F = S.fn(C, "scrypt", item, pick=takes_no_u32)
        d = {}
        ds = F.calls("derive_key")
        need(len(ds) == 2 and all(len(c.args) == 4 for c in ds), item + ":derive_key calls")
        d["scrypt_pbkdf2_iters"] = [c.const(2, item) for c in ds]
        # buffers: x / y (given to smix), v, b
        sm = F.one_call("smix", item, count=1)
        need(len(sm.args) == 6, item + ":smix arity")

        def prod(o):
            need(o.kind == "fill", item + ":buffer `%s`" % o.text())
            x, y = o.size_rng
            ch = chain(F, x, y, "*")
            if len(ch) == 1 and isinstance(ch[0], str) and ch[0].startswith("L"):
                LL = [l for l in F.lets if l.atom() == ch[0]]
                need(len(LL) == 1 and LL[0].init, item)
                ch = chain(F, LL[0].init[0], LL[0].init[1], "*")
            k = 1
            atoms = []
            for c in ch:
                if isinstance(c, int):
                    k *= c
                else:
                    atoms.append(c)
            return k, sorted(atoms)
        kv, av = prod(sm.origin(3))
        kx, ax = prod(sm.origin(4))
        ky, ay = prod(sm.origin(5))
        need(av == ["p2", "p3"] and ax == ["p3"] and ay == ["p3"], item + ":buffer sizes are not k*n*r, k*r, k*r")
        d["scrypt_v_factor"], d["scrypt_x_factor"], d["scrypt_y_factor"] = kv, kx, ky
        o = sm.origin(0)
        need(o.kind == "slice", item + ":first smix argument is not a slice")
        kb, ab = prod(o.base)
        need(ab == ["p3", "p4"], item + ":block buffer size is not k*p*r")
        d["scrypt_b_factor"] = kb
        ch = chain(F, o.lo[0], o.lo[1], "*")
        ks = 1
        for c in ch:
            if isinstance(c, int):
                ks *= c
        need(sorted(c for c in ch if not isinstance(c, int))[-1:] == ["p3"], item + ":smix offset is not i*k*r")
        d["scrypt_smix_stride"] = ks
        return d, sm.where()
    S.try_group(["scrypt_pbkdf2_iters", "scrypt_v_factor", "scrypt_x_factor", "scrypt_y_factor", "scrypt_b_factor",
             "scrypt_smix_stride"], ("role:buffers and derive_key calls of scrypt.rs::scrypt", sizes))


def run(S):
    with S.section("noise.rs"):
        noise_items(S)
    with S.section("scrypt.rs"):
        scrypt_items(S)
