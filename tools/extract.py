#!/usr/bin/env python3
"""Translator: regenerates coq/gen/Extracted.v (and coq/gen/extracted_meta.json) from /repo's working tree.

Only literals and shapes are copied (constants, byte-array literals, buffer sizes, slice bounds, endianness,
the Noise token pattern, the protocol name, literal arguments and the ROLES of the arguments of the
scrypt/hkdf/noise/AEAD calls, keyring keywords, CLI words and option tables).  Nothing is defaulted: an item
that cannot be located raises ExtractError naming it, which the check reports as a broken tie
(translator:<item>).  Both files are rewritten only when their content changes, so that make does not
rebuild dependants needlessly.

How an item is located (tools/rustlite.py, tools/rustfn.py do the reading):
  * every item has an ordered list of PATTERNS; the first that succeeds gives the value.  The first patterns find
    the item by its ROLE at the use site ("the constant passed as chunk size to encrypt_chunks in key_encrypt",
    "the buffer filled by the second read_exact of key_decrypt", "the bound in the comparison that guards the
    noise message"), so that the NAME of a constant or of a local variable does not matter; the last pattern is the
    former name-based one (`const CHUNK_SIZE`, `let asym_v1`).
  * constant expressions are EVALUATED (radix, `_`, suffixes, + - * / << >>, parentheses, `as`, other constants of
    the crate wherever they are defined, `u32::MAX`), never matched textually.
  * coq/gen/extracted_meta.json records for every item the pattern that located it, the file and the line.

Fault isolation.  The items are located in SECTIONS (one function of the Rust, or one item); a section that fails
(ExtractError, or any exception of the reading code) does not stop the others.  For every item the failed section
did not produce, Extracted.v carries the value of the COMMITTED baseline tools/extracted_baseline.json (written by
`extract.py --write-baseline` from a tree where everything is located), so that the Coq development still compiles;
extracted_meta.json marks the item `"fallback": true` with the error, and ./check decides per property whether the
item matters (DESIGN 5.1).  Fatal (exit 2, EXTRACT-ERROR): a source file that cannot be read or lexed, a failed item
without a baseline value.  Exit 3 (one line `EXTRACT-PARTIAL translator:<item> [<file>]: <error>` per item): some
items fell back.  Exit 0: everything located.

KESTREL_REPO=<dir> points the translator at another tree; KESTREL_EXTRACT_OUT=<dir> writes the two files there.
tools/test_extract.py is the self-test (harmless rewrites keep every value, real changes do not, the baseline is
the extraction of the unchanged tree).
"""
import os, sys, json, subprocess

sys.path.insert(0, os.path.dirname(os.path.abspath(__file__)))
from rustlite import ExtractError, FatalExtract, Crate          # noqa: E402
from rustfn import FnCtx                          # noqa: E402

REPO = os.environ.get("KESTREL_REPO", "/repo")
GEN = os.environ.get("KESTREL_EXTRACT_OUT") or \
    os.path.join(os.path.dirname(os.path.abspath(__file__)), "..", "coq", "gen")
BASELINE = os.path.join(os.path.dirname(os.path.abspath(__file__)), "extracted_baseline.json")


from xt_common import Roles, Tokens, Texts, Words, OptTable   # noqa: E402  (typed values for rendering)


ROLE_NULLARY = ["RSrc", "RDst", "RSender", "RSenderPub", "RRecipient", "RRecipientPub", "REphemeral", "REphemeralPub",
                "RPayloadKey", "RPassword", "RSalt", "RPrologue", "RMagic", "RNoiseMsg", "RHandshakeMsg",
                "RHandshakeHash", "RFileKey", "RPassKey", "REmpty", "RAad", "RKey", "RChunkSize", "RCounter",
                "RAuthData", "RChunkBody", "RNonce", "RVersion", "RCiphertext", "RPlaintext", "RPrivateKey",
                "RLocked", "RHeader", "RSealed", "RFlush", "RFlagBytes", "RLenBytes", "RChecksum", "RPublicKey",
                "RTrue", "RFalse", "RNone", "RFileFormat", "RNoiseOut", "RHash", "ROut", "RCostN", "RCostR", "RCostP"]
ROLE_UNARY_N = ["RConst", "RZeros", "RParam", "RRandom"]
ROLE_UNARY_R = ["RSome", "RLenOf"]


def role_str(r):
    if isinstance(r, str):
        if r not in ROLE_NULLARY:
            raise ExtractError("render:unknown role " + r)
        return r
    h = r[0]
    if h in ROLE_UNARY_N:
        return "(%s %d)" % (h, r[1])
    if h in ROLE_UNARY_R:
        return "(%s %s)" % (h, role_str(r[1]))
    raise ExtractError("render:unknown role %r" % (r,))


# ------------------------------------------------------------------ session
class Section:
    """`with S.section(name):` -- an exception inside is recorded for the section and swallowed: the items the
    section had not produced yet fall back to the baseline, the sections after it still run"""

    def __init__(self, S, name):
        self.S, self.name = S, name

    def __enter__(self):
        self.S._stack.append(self.name)
        return self

    def __exit__(self, et, ev, tb):
        self.S._stack.pop()
        if et is None or not issubclass(et, Exception) or issubclass(et, FatalExtract):
            return False
        if issubclass(et, ExtractError):
            msg = str(ev)
        else:
            msg = "internal:%s: %s" % (et.__name__, ev)
        # the nearest enclosing section is the unit of failure: the error stops here
        self.S.section_errors.setdefault(self.name, msg)
        return True


class Session:
    def __init__(self, repo):
        self.repo = repo
        self.E = {}
        self.M = {}
        self.sec = {}             # item -> section that produced it
        self.section_errors = {}  # section -> error text
        self.item_errors = {}     # item -> error text (all patterns failed)
        self._stack = []
        self.crypto = Crate(repo, "src/crypto/src")
        self.cli = Crate(repo, "src/cli/src")
        self.ffi = Crate(repo, "src/ffi/src")
        self._fc = {}

    def section(self, name):
        return Section(self, name)

    def val(self, name):
        """value of an item located earlier; the caller's section fails if it was not"""
        if name not in self.E:
            raise ExtractError("needs %s, which was not located" % name)
        return self.E[name]

    def fn(self, crate, name, item, impl=None, pick=None):
        key = (crate.sub, name, impl, getattr(pick, "__name__", None))
        if key not in self._fc:
            self._fc[key] = FnCtx(crate, crate.find_fn(name, item, impl, pick))
        return self._fc[key]

    def put(self, name, value, pattern, where):
        if name in self.E:
            raise ExtractError("internal:item %s defined twice" % name)
        self.E[name] = value
        self.M[name] = {"pattern": pattern, "file": where.get("file"), "line": where.get("line")}
        self.sec[name] = self._stack[-1] if self._stack else name

    def item(self, name, *alts):
        """alts: (pattern_name, thunk); thunk returns (value, where).  First success wins; raises when none does."""
        errs = []
        for (pat, th) in alts:
            try:
                v, w = th()
            except ExtractError as e:
                errs.append("%s: %s" % (pat, e))
                continue
            self.put(name, v, pat, w)
            return v
        msg = "%s [%s]" % (name, " | ".join(errs))
        self.item_errors[name] = msg
        raise ExtractError(msg)

    def group(self, names, *alts):
        """like item, for thunks that return ({name: value}, where) for several items located together"""
        errs = []
        for (pat, th) in alts:
            try:
                d, w = th()
            except ExtractError as e:
                errs.append("%s: %s" % (pat, e))
                continue
            for n in names:
                if n not in d:
                    raise ExtractError("internal:%s missing from group" % n)
                wn = w.get(n, w) if isinstance(w.get(n, None), dict) else w
                self.put(n, d[n], pat, wn)
            return d
        msg = "%s [%s]" % ("/".join(names), " | ".join(errs))
        for n in names:
            self.item_errors[n] = msg
        raise ExtractError(msg)

    def try_item(self, name, *alts):
        """item in a section of its own: a failure does not stop the caller (returns None)"""
        with self.section(name):
            return self.item(name, *alts)
        return None

    def try_group(self, names, *alts):
        with self.section("/".join(names)):
            return self.group(names, *alts)
        return None

    # ---- after all sections have run
    def failed_items(self, baseline):
        """{item: error} for the items of the baseline this run did not produce"""
        out = {}
        items = (baseline or {}).get("items", {})
        for n, b in items.items():
            if n in self.E:
                continue
            out[n] = (self.item_errors.get(n) or self.section_errors.get(b.get("section")) or self.section_errors.get(n)
                      or "not produced by this run (section %s)" % b.get("section"))
        for n, e in self.item_errors.items():
            if n not in self.E and n not in out:
                out[n] = e
        return out


def run_sections(S):
    import xt_crypto, xt_files, xt_cli
    for (name, f) in (("lib.rs / noise.rs / scrypt.rs", xt_crypto.run),     # lib.rs, noise.rs, scrypt.rs
                      ("encrypt.rs / decrypt.rs", xt_files.run),            # encrypt.rs, decrypt.rs
                      ("cli / ffi / Cargo.lock", xt_cli.run)):              # keyring.rs, main.rs, commands.rs, ffi
        with S.section(name):
            f(S)


def extract_all(repo=None):
    """runs every section; returns the Session (E, M, section_errors, item_errors).  Raises ExtractError only for
    what is fatal (a source file that cannot be read or lexed)."""
    S = Session(repo or REPO)
    run_sections(S)
    return S


def extract(repo=None):
    """strict: (values, meta) when every item is located, ExtractError otherwise"""
    S = extract_all(repo)
    errs = dict(S.section_errors)
    errs.update(S.item_errors)
    bad = {k: v for k, v in errs.items() if k not in S.E}
    if bad:
        k = sorted(bad)[0]
        raise ExtractError(bad[k] if bad[k].startswith(k) else "%s: %s" % (k, bad[k]))
    return S.E, S.M


# ------------------------------------------------------------------ baseline
def load_baseline(path=None):
    try:
        with open(path or BASELINE) as f:
            return json.load(f)
    except (OSError, ValueError):
        return None


def repo_head(repo):
    """(HEAD commit, True iff the sources the translator reads are unmodified) or (None, False)"""
    try:
        h = subprocess.run(["git", "-C", repo, "rev-parse", "HEAD"], stdout=subprocess.PIPE, stderr=subprocess.DEVNULL, text=True)
        d = subprocess.run(["git", "-C", repo, "status", "--porcelain", "--", "src", "Cargo.lock"], stdout=subprocess.PIPE,
                           stderr=subprocess.DEVNULL, text=True)
        if h.returncode == 0 and d.returncode == 0:
            return h.stdout.strip(), d.stdout.strip() == ""
    except OSError:
        pass
    return None, False


def make_baseline(S):
    lines = render_lines(S.E)
    head, clean = repo_head(S.repo)
    js = jsonable(S.E)
    return {"made_from": {"repo_head": head, "clean": clean},
            "items": {k: {"value": js[k], "coq": lines[k], "section": S.sec.get(k), "file": S.M[k].get("file")}
                      for k in sorted(S.E)}}


# ------------------------------------------------------------------ rendering
def nlist(v):
    return "[%s]" % "; ".join(str(x) for x in v)


HEADER = ["(* gen/Extracted.v — GENERATED by tools/extract.py from /repo's working tree on every check.",
          "   Do not edit.  Literals and shapes only. *)",
          "From Coq Require Import List NArith.",
          "Import ListNotations.",
          "Local Open Scope N_scope.",
          "Inductive token := TE | TS | TEE | TES | TSE | TSS.",
          "(* what an argument expression of a call IS, found by following the local bindings back to a parameter,",
          "   a constant, a buffer filled by a read, the result of another call ... (tools/extract.py) *)",
          "Inductive role :=",
          "| " + " | ".join(ROLE_NULLARY),
          "| " + " | ".join("%s (n : N)" % r for r in ROLE_UNARY_N),
          "| " + " | ".join("%s (r : role)" % r for r in ROLE_UNARY_R) + "."]


def render_lines(E):
    """{item: its Definition line}"""
    out = {}
    for k in sorted(E):
        v = E[k]
        if isinstance(v, Tokens):
            out[k] = "Definition x_%s : list token := [%s]." % (k, "; ".join("T" + t for t in v))
        elif isinstance(v, Roles):
            out[k] = "Definition x_%s : list role := [%s]." % (k, "; ".join(role_str(r) for r in v))
        elif isinstance(v, Texts):
            out[k] = "Definition x_%s : list (list N) := [%s]." % (k, "; ".join(nlist(x) for x in v))
        elif isinstance(v, Words):
            out[k] = "Definition x_%s : list (list (list N)) := [%s]." % (
                k, "; ".join("[%s]" % "; ".join(nlist(w) for w in arm) for arm in v))
        elif isinstance(v, OptTable):
            out[k] = "Definition x_%s : list (N * list N * list N) := [%s]." % (
                k, "; ".join("(%d, %s, %s)" % (kd, nlist(s), nlist(l)) for (kd, s, l) in v))
        elif isinstance(v, list):
            out[k] = "Definition x_%s : list N := %s." % (k, nlist(v))
        elif isinstance(v, bool) or not isinstance(v, int):
            raise ExtractError("render:%s has an unsupported value %r" % (k, v))
        else:
            if v < 0:
                raise ExtractError("render:%s is negative (%d)" % (k, v))
            out[k] = "Definition x_%s : N := %d." % (k, v)
    return out


def render(E, fallback=None):
    """fallback: {item: Definition line} taken from the baseline for items that were not located"""
    lines = render_lines(E)
    for k, l in (fallback or {}).items():
        lines.setdefault(k, l)
    return "\n".join(HEADER + [lines[k] for k in sorted(lines)]) + "\n"


def jsonable(E):
    out = {}
    for k, v in E.items():
        if isinstance(v, Roles):
            out[k] = [role_str(r) for r in v]
        else:
            out[k] = v
    return out


def write_if_changed(path, txt):
    old = None
    if os.path.exists(path):
        with open(path) as f:
            old = f.read()
    if old != txt:
        with open(path, "w") as f:
            f.write(txt)


def main():
    try:
        S = extract_all()
        base = load_baseline()
        failed = S.failed_items(base)
        if (S.section_errors or S.item_errors) and base is None:
            e = dict(S.section_errors)
            e.update(S.item_errors)
            k = sorted(e)[0]
            raise ExtractError("%s (and there is no tools/extracted_baseline.json to fall back on)" % e[k])
        fb_lines, fb_vals = {}, {}
        for n in failed:
            b = base["items"].get(n)
            if b is None:
                raise ExtractError("%s (no baseline value to fall back on)" % failed[n])
            fb_lines[n], fb_vals[n] = b["coq"], b["value"]
        txt = render(S.E, fb_lines)
    except (ExtractError, FatalExtract) as e:
        print("EXTRACT-ERROR translator:%s" % e)
        return 2
    if "--write-baseline" in sys.argv:
        if failed or S.section_errors or S.item_errors:
            print("EXTRACT-ERROR translator:a baseline can only be written from a tree where every item is located")
            return 2
        with open(BASELINE, "w") as f:
            f.write(json.dumps(make_baseline(S), indent=0, sort_keys=True) + "\n")
    gen = os.path.normpath(GEN)
    os.makedirs(gen, exist_ok=True)
    write_if_changed(os.path.join(gen, "Extracted.v"), txt)
    located = {k: S.M[k] for k in sorted(S.M)}
    for n in sorted(failed):
        located[n] = {"fallback": True, "error": failed[n], "file": base["items"][n].get("file"), "line": None,
                      "pattern": None}
    meta = {"repo": REPO, "items": len(located), "fallback_items": len(failed), "located": located}
    if base is not None:
        names_b, names_e = set(base["items"]), set(S.E) | set(failed)
        meta["baseline"] = {"made_from": base.get("made_from"), "items_not_in_baseline": sorted(names_e - names_b)}
    write_if_changed(os.path.join(gen, "extracted_meta.json"), json.dumps(meta, indent=1, sort_keys=True) + "\n")
    for n in sorted(failed):
        print("EXTRACT-PARTIAL translator:%s [%s]: %s" % (n, base["items"][n].get("file"), failed[n].replace("\n", " ")))
    if "--json" in sys.argv:
        vals = jsonable(S.E)
        vals.update(fb_vals)
        print(json.dumps(vals))
    return 3 if failed else 0


if __name__ == "__main__":
    sys.exit(main())
