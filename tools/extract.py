#!/usr/bin/env python3
"""Translator: regenerates coq/gen/Extracted.v (and coq/gen/extracted_meta.json) from /repo's working tree.

Only literals and shapes are copied (constants, byte-array literals, buffer sizes, slice bounds, endianness,
the Noise token pattern, the protocol name, literal arguments and the ROLES of the arguments of the
scrypt/hkdf/noise/AEAD calls, keyring keywords, CLI words and option tables).  Nothing is defaulted: an item
that cannot be located raises ExtractError naming it, which the check reports as a broken tie
(translator:<item>).  Both files are rewritten only when their content changes, so that make does not
rebuild dependants needlessly.

How an item is located (tools/rustlite.py, tools/rustfn.py do the reading):
  * every item has an ordered list of PATTERNS; the first that succeeds gives the value.  The first patterns find
    the item by its ROLE at the use site ("the constant passed as chunk size to encrypt_chunks in key_encrypt",
    "the buffer filled by the second read_exact of key_decrypt", "the bound in the comparison that guards the
    noise message"), so that the NAME of a constant or of a local variable does not matter; the last pattern is the
    former name-based one (`const CHUNK_SIZE`, `let asym_v1`).
  * constant expressions are EVALUATED (radix, `_`, suffixes, + - * / << >>, parentheses, `as`, other constants of
    the crate wherever they are defined, `u32::MAX`), never matched textually.
  * coq/gen/extracted_meta.json records for every item the pattern that located it, the file and the line.

KESTREL_REPO=<dir> points the translator at another tree; KESTREL_EXTRACT_OUT=<dir> writes the two files there.
tools/test_extract.py is the self-test (harmless rewrites keep every value, real changes do not).
"""
import os, sys, json

sys.path.insert(0, os.path.dirname(os.path.abspath(__file__)))
from rustlite import ExtractError, Crate          # noqa: E402
from rustfn import FnCtx                          # noqa: E402

REPO = os.environ.get("KESTREL_REPO", "/repo")
GEN = os.environ.get("KESTREL_EXTRACT_OUT") or \
    os.path.join(os.path.dirname(os.path.abspath(__file__)), "..", "coq", "gen")


from xt_common import Roles, Tokens, Texts, Words, OptTable   # noqa: E402  (typed values for rendering)


ROLE_NULLARY = ["RSrc", "RDst", "RSender", "RSenderPub", "RRecipient", "RRecipientPub", "REphemeral", "REphemeralPub",
                "RPayloadKey", "RPassword", "RSalt", "RPrologue", "RMagic", "RNoiseMsg", "RHandshakeMsg",
                "RHandshakeHash", "RFileKey", "RPassKey", "REmpty", "RAad", "RKey", "RChunkSize", "RCounter",
                "RAuthData", "RChunkBody", "RNonce", "RVersion", "RCiphertext", "RPlaintext", "RPrivateKey",
                "RLocked", "RHeader", "RSealed", "RFlush", "RFlagBytes", "RLenBytes", "RChecksum", "RPublicKey",
                "RTrue", "RFalse", "RNone", "RFileFormat", "RNoiseOut", "RHash", "ROut", "RCostN", "RCostR", "RCostP"]
ROLE_UNARY_N = ["RConst", "RZeros", "RParam", "RRandom"]
ROLE_UNARY_R = ["RSome", "RLenOf"]


def role_str(r):
    if isinstance(r, str):
        if r not in ROLE_NULLARY:
            raise ExtractError("render:unknown role " + r)
        return r
    h = r[0]
    if h in ROLE_UNARY_N:
        return "(%s %d)" % (h, r[1])
    if h in ROLE_UNARY_R:
        return "(%s %s)" % (h, role_str(r[1]))
    raise ExtractError("render:unknown role %r" % (r,))


# ------------------------------------------------------------------ session
class Session:
    def __init__(self, repo):
        self.repo = repo
        self.E = {}
        self.M = {}
        self.crypto = Crate(repo, "src/crypto/src")
        self.cli = Crate(repo, "src/cli/src")
        self.ffi = Crate(repo, "src/ffi/src")
        self._fc = {}

    def fn(self, crate, name, item, impl=None, pick=None):
        key = (crate.sub, name, impl, getattr(pick, "__name__", None))
        if key not in self._fc:
            self._fc[key] = FnCtx(crate, crate.find_fn(name, item, impl, pick))
        return self._fc[key]

    def put(self, name, value, pattern, where):
        if name in self.E:
            raise ExtractError("internal:item %s defined twice" % name)
        self.E[name] = value
        self.M[name] = {"pattern": pattern, "file": where.get("file"), "line": where.get("line")}

    def item(self, name, *alts):
        """alts: (pattern_name, thunk); thunk returns (value, where).  First success wins."""
        errs = []
        for (pat, th) in alts:
            try:
                v, w = th()
            except ExtractError as e:
                errs.append("%s: %s" % (pat, e))
                continue
            self.put(name, v, pat, w)
            return v
        raise ExtractError("%s [%s]" % (name, " | ".join(errs)))

    def group(self, names, *alts):
        """like item, for thunks that return ({name: value}, where) for several items located together"""
        errs = []
        for (pat, th) in alts:
            try:
                d, w = th()
            except ExtractError as e:
                errs.append("%s: %s" % (pat, e))
                continue
            for n in names:
                if n not in d:
                    raise ExtractError("internal:%s missing from group" % n)
                wn = w.get(n, w) if isinstance(w.get(n, None), dict) else w
                self.put(n, d[n], pat, wn)
            return d
        raise ExtractError("%s [%s]" % ("/".join(names), " | ".join(errs)))


def extract(repo=None):
    S = Session(repo or REPO)
    import xt_crypto, xt_files, xt_cli
    xt_crypto.run(S)      # lib.rs, noise.rs, scrypt.rs
    xt_files.run(S)       # encrypt.rs, decrypt.rs
    xt_cli.run(S)         # keyring.rs, main.rs, commands.rs, ffi, Cargo.lock
    return S.E, S.M


# ------------------------------------------------------------------ rendering
def nlist(v):
    return "[%s]" % "; ".join(str(x) for x in v)


def render(E):
    L = []
    L.append("(* gen/Extracted.v — GENERATED by tools/extract.py from /repo's working tree on every check.")
    L.append("   Do not edit.  Literals and shapes only. *)")
    L.append("From Coq Require Import List NArith.")
    L.append("Import ListNotations.")
    L.append("Local Open Scope N_scope.")
    L.append("Inductive token := TE | TS | TEE | TES | TSE | TSS.")
    L.append("(* what an argument expression of a call IS, found by following the local bindings back to a parameter,")
    L.append("   a constant, a buffer filled by a read, the result of another call ... (tools/extract.py) *)")
    L.append("Inductive role :=")
    L.append("| " + " | ".join(ROLE_NULLARY))
    L.append("| " + " | ".join("%s (n : N)" % r for r in ROLE_UNARY_N))
    L.append("| " + " | ".join("%s (r : role)" % r for r in ROLE_UNARY_R) + ".")
    for k in sorted(E):
        v = E[k]
        if isinstance(v, Tokens):
            L.append("Definition x_%s : list token := [%s]." % (k, "; ".join("T" + t for t in v)))
        elif isinstance(v, Roles):
            L.append("Definition x_%s : list role := [%s]." % (k, "; ".join(role_str(r) for r in v)))
        elif isinstance(v, Texts):
            L.append("Definition x_%s : list (list N) := [%s]." % (k, "; ".join(nlist(x) for x in v)))
        elif isinstance(v, Words):
            L.append("Definition x_%s : list (list (list N)) := [%s]." % (
                k, "; ".join("[%s]" % "; ".join(nlist(w) for w in arm) for arm in v)))
        elif isinstance(v, OptTable):
            L.append("Definition x_%s : list (N * list N * list N) := [%s]." % (
                k, "; ".join("(%d, %s, %s)" % (kd, nlist(s), nlist(l)) for (kd, s, l) in v)))
        elif isinstance(v, list):
            L.append("Definition x_%s : list N := %s." % (k, nlist(v)))
        elif isinstance(v, bool) or not isinstance(v, int):
            raise ExtractError("render:%s has an unsupported value %r" % (k, v))
        else:
            if v < 0:
                raise ExtractError("render:%s is negative (%d)" % (k, v))
            L.append("Definition x_%s : N := %d." % (k, v))
    return "\n".join(L) + "\n"


def jsonable(E):
    out = {}
    for k, v in E.items():
        if isinstance(v, Roles):
            out[k] = [role_str(r) for r in v]
        else:
            out[k] = v
    return out


def write_if_changed(path, txt):
    old = None
    if os.path.exists(path):
        with open(path) as f:
            old = f.read()
    if old != txt:
        with open(path, "w") as f:
            f.write(txt)


def main():
    try:
        E, M = extract()
        txt = render(E)
    except ExtractError as e:
        print("EXTRACT-ERROR translator:%s" % e)
        return 2
    gen = os.path.normpath(GEN)
    os.makedirs(gen, exist_ok=True)
    write_if_changed(os.path.join(gen, "Extracted.v"), txt)
    meta = {"repo": REPO, "items": len(E), "located": {k: M[k] for k in sorted(M)}}
    write_if_changed(os.path.join(gen, "extracted_meta.json"), json.dumps(meta, indent=1, sort_keys=True) + "\n")
    if "--json" in sys.argv:
        print(json.dumps(jsonable(E)))
    return 0


if __name__ == "__main__":
    sys.exit(main())
