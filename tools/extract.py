#!/usr/bin/env python3
"""Translator: regenerates coq/gen/Extracted.v from /repo's current working tree.

Only literals and shapes are copied (constants, byte-array literals, buffer sizes, the Noise token
pattern, the protocol name, literal arguments of the scrypt/hkdf calls).  Nothing is defaulted: a
constant that cannot be located raises ExtractError naming it, which the check reports as a broken
tie (translator:<item>).  The file is rewritten only when its content changes, so that make does
not rebuild dependants needlessly.
"""
import os, re, sys, json

REPO = os.environ.get("KESTREL_REPO", "/repo")
OUT = os.path.join(os.path.dirname(os.path.abspath(__file__)), "..", "coq", "gen", "Extracted.v")


class ExtractError(Exception):
    pass


def read(rel):
    p = os.path.join(REPO, rel)
    try:
        with open(p, encoding="utf-8") as f:
            return f.read()
    except OSError as e:
        raise ExtractError("file:%s (%s)" % (rel, e))


def strip_comments(src):
    # remove // line comments and /* */ block comments, keep string literals intact (good enough:
    # the sources contain no comment markers inside string literals except URLs in doc comments)
    out = []
    i = 0
    n = len(src)
    in_str = False
    while i < n:
        c = src[i]
        if in_str:
            out.append(c)
            if c == "\\" and i + 1 < n:
                out.append(src[i + 1])
                i += 2
                continue
            if c == '"':
                in_str = False
            i += 1
        elif c == '"':
            in_str = True
            out.append(c)
            i += 1
        elif src.startswith("//", i):
            j = src.find("\n", i)
            i = n if j < 0 else j
        elif src.startswith("/*", i):
            j = src.find("*/", i + 2)
            i = n if j < 0 else j + 2
        else:
            out.append(c)
            i += 1
    return "".join(out)


def fn_body(src, name, item):
    """text between the braces of `fn name`; test modules are cut off first"""
    cut = src.find("#[cfg(test)]")
    s = src if cut < 0 else src[:cut]
    m = re.search(r"\bfn\s+%s\s*(<[^{;]*?>)?\s*\(" % re.escape(name), s)
    if not m:
        raise ExtractError(item + ":fn " + name)
    i = s.find("{", m.end())
    # skip to the body's opening brace: the first '{' after the closing ')' of the parameter list
    depth = 0
    j = m.end() - 1
    while j < len(s):
        if s[j] == "(":
            depth += 1
        elif s[j] == ")":
            depth -= 1
            if depth == 0:
                break
        j += 1
    i = s.find("{", j)
    if i < 0:
        raise ExtractError(item + ":body of " + name)
    depth = 0
    k = i
    while k < len(s):
        if s[k] == "{":
            depth += 1
        elif s[k] == "}":
            depth -= 1
            if depth == 0:
                return s[i + 1:k]
        k += 1
    raise ExtractError(item + ":unbalanced " + name)


def intlit(tok, item):
    t = tok.strip().replace("_", "")
    t = re.sub(r"(u8|u16|u32|u64|usize|i32|i64)$", "", t)
    try:
        if t.startswith("0x"):
            return int(t, 16)
        return int(t)
    except ValueError:
        raise ExtractError(item + ":int " + tok)


def const_int(src, name, item):
    m = re.search(r"\bconst\s+%s\s*:\s*\w+\s*=\s*([^;]+);" % name, src)
    if not m:
        raise ExtractError(item)
    return intlit(m.group(1), item)


def const_bytes(src, name, item):
    m = re.search(r"\bconst\s+%s\s*:\s*\[\s*u8\s*;\s*(\d+)\s*\]\s*=\s*\[([^\]]*)\]\s*;" % name, src)
    if not m:
        raise ExtractError(item)
    vals = [intlit(x, item) for x in m.group(2).split(",") if x.strip()]
    if len(vals) != int(m.group(1)):
        raise ExtractError(item + ":length")
    return vals


def let_bytes(body, name, item):
    m = re.search(r"\blet\s+%s\s*=\s*\[([^\]]*)\]\s*;" % name, body)
    if not m:
        raise ExtractError(item)
    return [intlit(x, item) for x in m.group(1).split(",") if x.strip()]


def buf_size(body, name, item):
    m = re.search(r"\blet\s+mut\s+%s\s*(?::[^=]*)?=\s*\[\s*0u8\s*;\s*(\d+)\s*\]\s*;" % name, body)
    if not m:
        raise ExtractError(item)
    return int(m.group(1))


def call_args(body, callee, item, nth=0):
    """argument texts of the nth call `callee(...)` in body"""
    pos = 0
    for _ in range(nth + 1):
        m = re.compile(r"\b%s\s*\(" % re.escape(callee)).search(body, pos)
        if not m:
            raise ExtractError(item + ":call " + callee)
        pos = m.end()
    depth = 1
    args, cur = [], []
    k = m.end()
    while k < len(body):
        c = body[k]
        if c in "([{":
            depth += 1
        elif c in ")]}":
            depth -= 1
            if depth == 0:
                break
        if c == "," and depth == 1:
            args.append("".join(cur).strip())
            cur = []
        else:
            cur.append(c)
        k += 1
    last = "".join(cur).strip()
    if last:
        args.append(last)
    return [re.sub(r"\s+", " ", a) for a in args]


def extract():
    E = {}
    lib = strip_comments(read("src/crypto/src/lib.rs"))
    enc = strip_comments(read("src/crypto/src/encrypt.rs"))
    dec = strip_comments(read("src/crypto/src/decrypt.rs"))
    noi = strip_comments(read("src/crypto/src/noise.rs"))
    kr = strip_comments(read("src/cli/src/keyring.rs"))

    # ---- lib.rs
    for n in ("CHUNK_SIZE", "SCRYPT_N", "SCRYPT_R", "SCRYPT_P", "TAG_SIZE"):
        E["lib_" + n.lower()] = const_int(lib, n, "lib.rs:" + n)
    b = fn_body(lib, "chapoly_encrypt_noise", "lib.rs:nonce")
    E["noise_nonce_len"] = buf_size(b, "final_nonce_bytes", "lib.rs:chapoly_encrypt_noise:final_nonce_bytes")
    m = re.search(r"final_nonce_bytes\s*\[\s*(\d+)\s*\.\.\s*\]\s*\.copy_from_slice\(\s*&nonce_bytes\s*\)", b)
    if not m or "to_le_bytes" not in b:
        raise ExtractError("lib.rs:chapoly_encrypt_noise:nonce layout")
    E["noise_nonce_off_enc"] = int(m.group(1))
    b = fn_body(lib, "chapoly_decrypt_noise", "lib.rs:nonce")
    m = re.search(r"final_nonce_bytes\s*\[\s*(\d+)\s*\.\.\s*\]\s*\.copy_from_slice\(\s*&nonce_bytes\s*\)", b)
    if not m or "to_le_bytes" not in b:
        raise ExtractError("lib.rs:chapoly_decrypt_noise:nonce layout")
    E["noise_nonce_off_dec"] = int(m.group(1))

    # ---- encrypt.rs
    E["prologue"] = const_bytes(enc, "PROLOGUE", "encrypt.rs:PROLOGUE")
    E["pass_file_magic"] = const_bytes(enc, "PASS_FILE_MAGIC", "encrypt.rs:PASS_FILE_MAGIC")
    b = fn_body(enc, "key_encrypt", "encrypt.rs:key_encrypt")
    a = call_args(b, "hkdf_sha256", "encrypt.rs:key_encrypt:hkdf")
    if len(a) != 4:
        raise ExtractError("encrypt.rs:key_encrypt:hkdf arity")
    E["enc_hkdf_salt_empty"] = 1 if a[0] in ("&[]", "&[ ]") else 0
    E["enc_hkdf_len"] = intlit(a[3], "encrypt.rs:key_encrypt:hkdf len")
    a = call_args(b, "encrypt_chunks", "encrypt.rs:key_encrypt:encrypt_chunks")
    E["enc_key_aad_empty"] = 1 if a[3] in ("&[]", "&[ ]") else 0
    E["enc_key_cs_is_const"] = 1 if a[4] == "CHUNK_SIZE" else 0
    b = fn_body(enc, "pass_encrypt", "encrypt.rs:pass_encrypt")
    a = call_args(b, "scrypt", "encrypt.rs:pass_encrypt:scrypt")
    E["enc_scrypt_args_const"] = 1 if a[2:5] == ["SCRYPT_N", "SCRYPT_R", "SCRYPT_P"] else 0
    E["enc_scrypt_len"] = intlit(a[5], "encrypt.rs:pass_encrypt:scrypt len")
    a = call_args(b, "encrypt_chunks", "encrypt.rs:pass_encrypt:encrypt_chunks")
    E["enc_pass_cs_is_const"] = 1 if a[4] == "CHUNK_SIZE" else 0
    b = fn_body(enc, "encrypt_chunks", "encrypt.rs:encrypt_chunks")
    E["enc_chunk_header_len"] = buf_size(b, "chunk_header", "encrypt.rs:encrypt_chunks:chunk_header")

    # ---- decrypt.rs
    b = fn_body(dec, "valid_file_format", "decrypt.rs:valid_file_format")
    E["dec_asym_v1"] = let_bytes(b, "asym_v1", "decrypt.rs:valid_file_format:asym_v1")
    E["dec_pass_v1"] = let_bytes(b, "pass_v1", "decrypt.rs:valid_file_format:pass_v1")
    b = fn_body(dec, "key_decrypt", "decrypt.rs:key_decrypt")
    E["dec_prologue_len"] = buf_size(b, "prologue", "decrypt.rs:key_decrypt:prologue")
    E["dec_handshake_len"] = buf_size(b, "handshake_message", "decrypt.rs:key_decrypt:handshake_message")
    a = call_args(b, "hkdf_sha256", "decrypt.rs:key_decrypt:hkdf")
    E["dec_hkdf_salt_empty"] = 1 if a[0] in ("&[]", "&[ ]") else 0
    E["dec_hkdf_len"] = intlit(a[3], "decrypt.rs:key_decrypt:hkdf len")
    a = call_args(b, "decrypt_chunks", "decrypt.rs:key_decrypt:decrypt_chunks")
    E["dec_key_aad_empty"] = 1 if a[3] in ("&[]", "&[ ]") else 0
    E["dec_key_cs_is_const"] = 1 if a[4] == "CHUNK_SIZE" else 0
    b = fn_body(dec, "pass_decrypt", "decrypt.rs:pass_decrypt")
    E["dec_magic_len"] = buf_size(b, "pass_magic_num", "decrypt.rs:pass_decrypt:pass_magic_num")
    E["dec_salt_len"] = buf_size(b, "salt", "decrypt.rs:pass_decrypt:salt")
    a = call_args(b, "scrypt", "decrypt.rs:pass_decrypt:scrypt")
    E["dec_scrypt_args_const"] = 1 if a[2:5] == ["SCRYPT_N", "SCRYPT_R", "SCRYPT_P"] else 0
    E["dec_scrypt_len"] = intlit(a[5], "decrypt.rs:pass_decrypt:scrypt len")
    a = call_args(b, "decrypt_chunks", "decrypt.rs:pass_decrypt:decrypt_chunks")
    E["dec_pass_cs_is_const"] = 1 if a[4] == "CHUNK_SIZE" else 0
    b = fn_body(dec, "decrypt_chunks", "decrypt.rs:decrypt_chunks")
    E["dec_chunk_header_len"] = buf_size(b, "chunk_header", "decrypt.rs:decrypt_chunks:chunk_header")
    m = re.search(r"if\s+last_chunk_indicator\s*==\s*(\d+)", b)
    if not m:
        raise ExtractError("decrypt.rs:decrypt_chunks:last flag test")
    E["dec_last_flag"] = int(m.group(1))

    # ---- noise.rs
    E["noise_hash_len"] = const_int(noi, "HASH_LEN", "noise.rs:HASH_LEN")
    E["noise_dh_len"] = const_int(noi, "DH_LEN", "noise.rs:DH_LEN")
    b = fn_body(noi, "init_x", "noise.rs:init_x")
    m = re.search(r'SymmetricState::new\(\s*"([^"]*)"\s*\)', b)
    if not m:
        raise ExtractError("noise.rs:init_x:protocol name")
    E["noise_protocol_name"] = [ord(c) for c in m.group(1)]
    m = re.search(r"let\s+pattern\s*=\s*vec!\[([^\]]*)\]", b)
    if not m:
        raise ExtractError("noise.rs:init_x:pattern")
    toks = [t.strip() for t in m.group(1).split(",") if t.strip()]
    for t in toks:
        if not re.fullmatch(r"Token::(E|S|EE|ES|SE|SS)", t):
            raise ExtractError("noise.rs:init_x:pattern token " + t)
    E["noise_pattern"] = [t.split("::")[1] for t in toks]
    b = fn_body(noi, "read_message", "noise.rs:read_message")
    m = re.search(r"if\s+message\.len\(\)\s*<\s*(\d+)\s*\|\|\s*message\.len\(\)\s*>\s*(\d+)", b)
    if not m:
        raise ExtractError("noise.rs:read_message:length guard")
    E["noise_guard_min"] = int(m.group(1))
    E["noise_guard_max"] = int(m.group(2))
    b = fn_body(noi, "set_nonce", "noise.rs:set_nonce")
    E["noise_set_nonce_assert_max"] = 1 if re.search(r"assert!\(\s*nonce\s*<\s*u64::MAX\s*\)", b) else 0

    # ---- keyring.rs
    E["kr_private_key_version"] = const_bytes(kr, "PRIVATE_KEY_VERSION", "keyring.rs:PRIVATE_KEY_VERSION")
    for n in ("MAX_NAME_SIZE", "SCRYPT_N", "SCRYPT_R", "SCRYPT_P", "PRIVATE_KEY_CT_LEN", "PUBLIC_KEY_LEN"):
        E["kr_" + n.lower()] = const_int(kr, n, "keyring.rs:" + n)
    b = fn_body(kr, "lock_private_key", "keyring.rs:lock_private_key")
    a = call_args(b, "kestrel_crypto::scrypt", "keyring.rs:lock:scrypt")
    E["kr_lock_scrypt_args_const"] = 1 if a[2:5] == ["SCRYPT_N", "SCRYPT_R", "SCRYPT_P"] else 0
    E["kr_lock_scrypt_len"] = intlit(a[5], "keyring.rs:lock:scrypt len")
    E["kr_lock_nonce_len"] = buf_size(b.replace("let nonce", "let mut nonce"), "nonce", "keyring.rs:lock:nonce")
    b = fn_body(kr, "unlock_private_key", "keyring.rs:unlock_private_key")
    a = call_args(b, "kestrel_crypto::scrypt", "keyring.rs:unlock:scrypt")
    E["kr_unlock_scrypt_args_const"] = 1 if a[2:5] == ["SCRYPT_N", "SCRYPT_R", "SCRYPT_P"] else 0
    E["kr_unlock_scrypt_len"] = intlit(a[5], "keyring.rs:unlock:scrypt len")
    E["kr_unlock_nonce_len"] = buf_size(b.replace("let nonce", "let mut nonce"), "nonce", "keyring.rs:unlock:nonce")
    bu = fn_body(kr, "unlock_private_key", "keyring.rs:unlock_private_key")
    def rng(expr, item):
        m = re.search(r"&key_bytes\[\s*(\d*)\s*\.\.\s*(\d*)\s*\]", expr)
        if not m:
            raise ExtractError(item)
        return (int(m.group(1) or 0), int(m.group(2) or 0))
    m1 = re.search(r"let\s+version_aad\s*=\s*(&key_bytes\[[^\]]*\])", bu)
    m2 = re.search(r"let\s+salt\s*=\s*(&key_bytes\[[^\]]*\])", bu)
    m3 = re.search(r"let\s+ciphertext\s*=\s*(&key_bytes\[[^\]]*\])", bu)
    if not (m1 and m2 and m3):
        raise ExtractError("keyring.rs:unlock_private_key:slices")
    E["kr_unlock_version_end"] = rng(m1.group(1), "keyring.rs:unlock:version slice")[1]
    E["kr_unlock_salt_lo"], E["kr_unlock_salt_hi"] = rng(m2.group(1), "keyring.rs:unlock:salt slice")
    E["kr_unlock_ct_lo"], E["kr_unlock_ct_hi"] = rng(m3.group(1), "keyring.rs:unlock:ciphertext slice")
    m = re.search(r"impl\s+TryFrom<&str>\s+for\s+EncodedPk.*?if\s+s\.len\(\)\s*!=\s*(\d+)", kr, re.S)
    if not m:
        raise ExtractError("keyring.rs:EncodedPk::try_from:length")
    E["kr_encoded_pk_try_len"] = int(m.group(1))
    bd = fn_body(kr, "decode_public_key", "keyring.rs:decode_public_key")
    m = re.search(r"let\s+pk\s*=\s*&enc_pk_bytes\[\s*\.\.\s*(\d+)\s*\]", bd)
    m4 = re.search(r"let\s+checksum\s*=\s*&enc_pk_bytes\[\s*(\d+)\s*\.\.\s*\]", bd)
    m5 = re.search(r"&exp_checksum\[\s*\.\.\s*(\d+)\s*\]", bd)
    if not (m and m4 and m5):
        raise ExtractError("keyring.rs:decode_public_key:slices")
    E["kr_decode_pk_end"], E["kr_decode_ck_start"], E["kr_checksum_len"] = int(m.group(1)), int(m4.group(1)), int(m5.group(1))
    b = fn_body(kr, "encode_public_key", "keyring.rs:encode_public_key")
    E["kr_encoded_pk_len"] = buf_size(b, "encoded", "keyring.rs:encode_public_key:encoded")
    return E


def render(E):
    L = []
    L.append("(* gen/Extracted.v — GENERATED by tools/extract.py from /repo's working tree on every check.")
    L.append("   Do not edit.  Literals and shapes only. *)")
    L.append("From Coq Require Import List NArith.")
    L.append("Import ListNotations.")
    L.append("Local Open Scope N_scope.")
    L.append("Inductive token := TE | TS | TEE | TES | TSE | TSS.")
    for k in sorted(E):
        v = E[k]
        if k == "noise_pattern":
            L.append("Definition x_%s : list token := [%s]." % (k, "; ".join("T" + t for t in v)))
        elif isinstance(v, list):
            L.append("Definition x_%s : list N := [%s]." % (k, "; ".join(str(x) for x in v)))
        else:
            L.append("Definition x_%s : N := %d." % (k, v))
    return "\n".join(L) + "\n"


def main():
    try:
        E = extract()
    except ExtractError as e:
        print("EXTRACT-ERROR translator:%s" % e)
        return 2
    txt = render(E)
    out = os.path.normpath(OUT)
    os.makedirs(os.path.dirname(out), exist_ok=True)
    old = None
    if os.path.exists(out):
        with open(out) as f:
            old = f.read()
    if old != txt:
        with open(out, "w") as f:
            f.write(txt)
    if "--json" in sys.argv:
        print(json.dumps(E))
    return 0


if __name__ == "__main__":
    sys.exit(main())
