#!/usr/bin/env python3
"""Builds the frozen corpus corpus/frozen/ ONCE (committed; never rebuilt by a check): key- and password-mode files
written by the implementation at the commit recorded in index.json (its encrypt path is byte-identical to the pinned
commit: the only later changes to encrypt.rs are cfg(kestrel_verif) hooks), plus the repository's own golden files
with the raw keys needed to decrypt them at the library level."""
import hashlib, json, os, subprocess, sys
sys.path.insert(0, os.path.dirname(os.path.abspath(__file__)))
import vlib
from vlib import Case

D = os.path.join(vlib.VERIF, "corpus", "frozen")
os.makedirs(D, exist_ok=True)
ok, out, binp = vlib.build_harness()
assert ok, out[-500:]


def prg(tag, n):
    out = b""
    i = 0
    while len(out) < n:
        out += hashlib.sha256(("%s-%d" % (tag, i)).encode()).digest()
        i += 1
    return out[:n]


def clidrv(lines):
    p = subprocess.run([vlib.CLIDRV], input="\n".join(lines) + "\n", env=dict(os.environ, KESTREL_VERIF_DRIVER="1"),
                       capture_output=True, text=True, timeout=120)
    return [dict(kv.split("=", 1) for kv in l.split()[1:] if "=" in kv) for l in p.stdout.splitlines()]


index = {"generated_at_repo_commit": subprocess.run(["git", "-C", vlib.REPO, "rev-parse", "HEAD"], capture_output=True, text=True).stdout.strip(),
         "plaintext_rule": "plaintext = first n bytes of SHA-256('frozen-pt-<n>-<i>') blocks, i = 0,1,..", "files": []}
s, r, e = prg("frozen-s", 32), prg("frozen-r", 32), prg("frozen-e", 32)
ks = [Case("xpub", k=k) for k in (s, r, e)]
vlib.run_impl(binp, ks)
spk, rpk, epk = [c.result["out"] for c in ks]
for n in (0, 1, 13, 4096, 65536, 65537):
    P = prg("frozen-pt-%d" % n, n)
    pk = prg("frozen-pk-%d" % n, 32)
    salt = prg("frozen-salt-%d" % n, 32)
    pw = ("frozen pässwörd %d" % n).encode()
    cs = [Case("key_enc", s=s, spk=spk, r=rpk, e=e, epk=epk, pk=pk, data=P), Case("pass_enc", pw=pw, salt=salt, data=P)]
    vlib.run_impl(binp, cs)
    for mode, c in zip(("key", "pass"), cs):
        assert c.result["code"] == 0
        name = "%s_%d.ktl" % (mode, n)
        open(os.path.join(D, name), "wb").write(c.result["out"])
        ent = {"file": name, "mode": mode, "len": n, "plaintext_sha256": hashlib.sha256(P).hexdigest(), "pt_tag": "frozen-pt-%d" % n}
        if mode == "key":
            ent.update(r=r.hex(), rpk=rpk.hex(), sender=spk.hex())
        else:
            ent.update(pw=pw.hex())
        index["files"].append(ent)
# the repository's golden files
T = os.path.join(vlib.REPO, "src", "cli", "tests")
kr = open(os.path.join(T, "keyring.txt"), "rb").read()
rep = clidrv(["1 kr_get %s %s" % (kr.hex(), b"bob".hex()), "2 kr_get %s %s" % (kr.hex(), b"alice".hex())])
bob_priv, alice_pub = bytes.fromhex(rep[0]["priv"]), bytes.fromhex(rep[1]["pub"])
rep2 = clidrv(["1 sk_unlock %s %s" % (bob_priv.hex(), b"bob".hex()), "2 pk_decode %s" % alice_pub.hex()])
bob_sk, alice_pk = bytes.fromhex(rep2[0]["out"]), bytes.fromhex(rep2[1]["out"])
c = Case("xpub", k=bob_sk)
vlib.run_impl(binp, [c])
data = open(os.path.join(T, "data.txt"), "rb").read()
for fn, ent in (("data.txt.ktl", {"mode": "key", "r": bob_sk.hex(), "rpk": c.result["out"].hex(), "sender": alice_pk.hex()}),
                ("pdata.txt.ktl", {"mode": "pass", "pw": b"pass123".hex()})):
    b = open(os.path.join(T, fn), "rb").read()
    open(os.path.join(D, "golden_" + fn), "wb").write(b)
    ent.update(file="golden_" + fn, len=len(data), plaintext_sha256=hashlib.sha256(data).hexdigest(), plaintext=data.hex(),
               origin="/repo/src/cli/tests/" + fn)
    index["files"].append(ent)
json.dump(index, open(os.path.join(D, "index.json"), "w"), indent=1)
print("wrote", len(index["files"]), "files to", D)
