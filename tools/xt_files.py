"""translator items: src/crypto/src encrypt.rs and decrypt.rs (file header, key derivation calls, chunk layout)"""
from rustlite import ExtractError, Lin, split_top, INT_TYPES
from xt_common import (slice_bounds, need, arg, is_empty_bytes, zero_fill_size, where_of, named_let_fill, named_const_int,
                       named_const_bytes, bytes_value, if_conditions, comparisons, RoleCtx, Roles, CMP_FLIP)

KE_P = ["RSrc", "RDst", "RSender", "RSenderPub", "RRecipient", "REphemeral", "REphemeralPub", "RPayloadKey", "RFileFormat"]
PE_P = ["RSrc", "RDst", "RPassword", "RSalt", "RFileFormat"]
KD_P = ["RSrc", "RDst", "RRecipient", "RRecipientPub", "RFileFormat"]
PD_P = ["RSrc", "RDst", "RPassword", "RFileFormat"]
CH_P = ["RSrc", "RDst", "RKey", "RAad", "RChunkSize"]


def sink_sequence(F, R, item, a=None, b=None):
    """write_all / flush calls in textual order -> roles"""
    out = Roles()
    for c in F.tree_calls():
        if not c.method:
            continue
        if c.path[-1] == "write_all":
            need(len(c.args) == 1, item + ":write_all arity")
            out.append(R.of_arg(c, 0))
        elif c.path[-1] == "flush":
            out.append("RFlush")
    return out


def first_write_bytes(S, fname, item):
    F = S.fn(S.crypto, fname, item)
    ws = F.mcalls("write_all")
    need(ws and len(ws[0].args) == 1, item + ":no write_all")
    o = ws[0].origin(0)
    return bytes_value(F, o, item), where_of(F, o)


def int_type_width(o, L):
    """byte width of an integer value from a let annotation / cast / literal suffix"""
    if L is not None and L.ty is not None:
        t = L.ctx.text(*L.ty)
        if t in INT_TYPES:
            return INT_TYPES[t][0] // 8
    if o.kind == "cast" and o.ty in INT_TYPES:
        return INT_TYPES[o.ty][0] // 8
    T = o.ctx.T
    if o.kind == "const_int" and o.b - o.a == 1 and T[o.a].k == "int" and T[o.a].v[1]:
        return INT_TYPES[T[o.a].v[1]][0] // 8
    if o.kind == "param":
        t = o.ctx.text(o.ctx.fn.params[o.idx][1], o.ctx.fn.params[o.idx][2])
        if t in INT_TYPES:
            return INT_TYPES[t][0] // 8
    return None


def bytes_source(cc, item):
    """src of a copy_from_slice call cc: <value>.to_be_bytes() (possibly through locals / a helper's parameter).
    returns (endian 1=BE/0=LE, value origin, let of the byte array or None, let of the value or None)"""
    o = cc.origin(0)
    need(o.kind == "method" and o.name in ("to_be_bytes", "to_le_bytes") and not o.args,
         item + ":`%s` is not <int>.to_be_bytes()" % cc.text(0))
    return (1 if o.name == "to_be_bytes" else 0), o.base, o.deflet(), o.base.deflet()


def ad_layout(F, L_ad, o_ad, item, tag):
    """auth_data = vec![0; aad.len() + K];  [..n] <- aad ; [n..n+a] <- flag bytes ; [n+a..] <- length bytes"""
    alen = "p3 . len ( )"
    need(o_ad.kind == "fill" and o_ad.value == 0 and o_ad.size.t == {alen: 1},
         item + ":authenticated-data buffer is not vec![0; <aad>.len() + constant]")
    extra = o_ad.size.c
    cps = F.copies_into(L_ad)
    need(len(cps) == 3, "%s:%d copies into the authenticated data, expected 3" % (item, len(cps)))
    rows = []
    for (sl, src, c) in cps:
        lo, hi = slice_bounds(sl, item, o_ad.size)
        rows.append((lo, hi, c))
    base = Lin(0, {alen: 1})
    rows.sort(key=lambda r: (len(r[0].t), r[0].c))
    (lo0, hi0, c0), (lo1, hi1, c1), (lo2, hi2, c2) = rows
    need(lo0 == Lin(0) and hi0 == base and lo1 == hi0 and lo2 == hi1 and hi2 == o_ad.size,
         item + ":authenticated data is not three adjacent pieces starting with the aad")
    o0 = c0.origin(0)
    need(o0.kind == "param" and o0.ctx is F and o0.idx == 3, item + ":first piece of the authenticated data is not the aad parameter")
    return {"extra": extra, "flag_off": (lo1 - base).c, "flag_end": (hi1 - base).c, "len_off": (lo2 - base).c,
            "len_end": (hi2 - base).c, "flag_src": c1.origin(0), "len_src": c2.origin(0)}


def counter_step(Lc, item):
    """the single `<counter> += N` of the function that defines the counter"""
    C = Lc.ctx
    asg = C.is_assigned(Lc, ("+=", "=", "-="))
    need(len(asg) == 1 and asg[0][1] == "+=", item + ":chunk counter is not updated by exactly one `+=`")
    i = asg[0][0] + 2
    e = i
    while C.T[e].s != ";":
        e += 1
    return C.const(i, e, item), C.where(asg[0][0])


def encrypt_chunks_items(S):
    item = "encrypt.rs:encrypt_chunks"
    C = S.crypto
    F = S.fn(C, "encrypt_chunks", item)
    need(len(F.fn.params) == 5, item + ":signature changed")
    put = S.put

    # header buffer = argument of the first write_all
    ws = F.mcalls("write_all")
    need(len(ws) == 2, "%s:%d write_all calls, expected 2" % (item, len(ws)))
    oh = ws[0].origin(0)

    def hdr_role():
        return zero_fill_size(F, oh, item + ":chunk header"), where_of(F, oh)
    hlen = S.item("enc_chunk_header_len", ("role:buffer of the first write_all in encrypt_chunks", hdr_role),
                  ("name:let mut chunk_header = [0u8; N]", lambda: named_let_fill(F, "chunk_header", item)))
    Lh = oh.deflet()
    need(Lh is not None, item + ":header is not a local buffer")
    pat = "role:copy_from_slice into the buffer of the first write_all in encrypt_chunks"
    cps = F.copies_into(Lh)
    need(len(cps) == 3, "%s:%d copies into the header, expected 3" % (item, len(cps)))
    fields = {}
    srclets = {}
    for (sl, src, c) in cps:
        lo, hi = slice_bounds(sl, item, Lin(hlen))
        need(lo.is_const() and hi.is_const(), item + ":header slice bounds")
        be, val, Lb, Lv = bytes_source(c, item)
        # what value is it?
        if val.kind == "const_int" and Lv is not None and Lv.mut and Lv.ctx.is_assigned(Lv, ("+=",)):
            kind = "ctr"
        elif val.kind == "ifelse":
            kind = "flag"
        else:
            kind = "len"
        need(kind not in fields, item + ":two header fields of kind " + kind)
        width = int_type_width(val, Lv)
        if width is None:
            width = hi.c - lo.c
        fields[kind] = (lo.c, hi.c, be, width, val, Lv, c)
        srclets[kind] = Lb
    need(set(fields) == {"ctr", "flag", "len"}, item + ":header fields found: " + ",".join(sorted(fields)))
    for k in ("ctr", "flag", "len"):
        lo, hi, be, width, val, Lv, c = fields[k]
        w = c.where()
        put("enc_hdr_%s_lo" % k, lo, pat, w)
        put("enc_hdr_%s_hi" % k, hi, pat, w)
        put("enc_hdr_%s_be" % k, be, pat, w)
        put("enc_hdr_%s_width" % k, width, pat, w)
    seal = F.one_call("chapoly_encrypt_noise", item, count=1)
    need(len(seal.args) == 4, item + ":chapoly_encrypt_noise arity")
    La = None
    with S.section(item + ":counter"):
        # counter: initial value and step
        _, _, _, _, val, Lc, _ = fields["ctr"]
        put("enc_counter_init", val.value, "role:initial value of the counter written into the header", Lc.where())
        st, w = counter_step(Lc, item)
        put("enc_counter_step", st, "role:`<counter> += N` of encrypt_chunks", w)
    with S.section(item + ":flag values"):
        # flag values
        _, _, _, _, val, Lf, _ = fields["flag"]
        V = val.ctx
        ca, cb = val.cond
        neg = V.T[ca].s == "!"
        co = V.origin(ca + (1 if neg else 0), cb)
        Ld = co.deflet()
        need(co.kind == "bool" and Ld is not None and Ld.mut and co.value is False,
             item + ":flag condition `%s` is not a mutable bool that starts false" % V.text(ca, cb))
        tv, ev = V.const(val.then[0], val.then[1], item), V.const(val.els[0], val.els[1], item)
        if neg:
            tv, ev = ev, tv
        w = Lf.where() if Lf else V.where(ca)
        put("enc_flag_last", tv, "role:value of the flag field when <done> holds", w)
        put("enc_flag_more", ev, "role:value of the flag field otherwise", w)
    with S.section(item + ":length field"):
        # length field: <n read> as u32
        _, _, _, _, val, Ll, _ = fields["len"]
        body = seal.origin(3)
        need(body.kind == "slice", item + ":sealed data is not a slice")
        blo, bhi = slice_bounds(body, item)
        cast_ok = 0
        same = 0
        if val.kind == "cast" and val.ty == "u32":
            inner = val.ctx.lin(val.inner_rng[0], val.inner_rng[1], item)
            cast_ok = 1
            same = 1 if (bhi is not None and inner == bhi and blo == Lin(0)) else 0
        w = Ll.where() if Ll else val.ctx.where(val.a)
        put("enc_len_cast_u32", cast_ok, "role:length field = <count> as u32", w)
        put("enc_len_is_sealed_len", same, "role:the count in the length field is the upper bound of the sealed slice", w)
        # the count is the result of <src>.read(..)
        hi_o = body.ctx.origin(body.hi[0], body.hi[1])
        put("enc_len_is_read_result", 1 if (hi_o.kind == "method" and hi_o.name == "read" and hi_o.base.kind == "param"
                                            and hi_o.base.idx == 0) else 0,
            "role:the count is what <plaintext>.read returned", w)

    with S.section(item + ":authenticated data"):
        # authenticated data
        oa = seal.origin(2)
        La = oa.deflet()
        need(La is not None, item + ":authenticated data is not a local buffer")
        ad = ad_layout(F, La, oa, item, "enc")
        wa = La.where()
        pat = "role:buffer passed as ad to chapoly_encrypt_noise in encrypt_chunks"
        put("enc_ad_extra", ad["extra"], pat, wa)
        put("enc_ad_flag_off", ad["flag_off"], pat, wa)
        put("enc_ad_flag_end", ad["flag_end"], pat, wa)
        put("enc_ad_len_off", ad["len_off"], pat, wa)
        put("enc_ad_len_end", ad["len_end"], pat, wa)
        fl = ad["flag_src"].deflet()
        ll = ad["len_src"].deflet()
        shares = fl is not None and ll is not None and fl is srclets["flag"] and ll is srclets["len"]
        put("enc_ad_shares_header_bytes", 1 if shares else 0, "role:ad pieces are the byte arrays copied into the header", wa)
    with S.section(item + ":call roles"):
        # roles
        need(La is not None, item + ":needs the authenticated-data buffer, which was not located")
        R = RoleCtx(S, F, CH_P, item, bufroles={La: "RAuthData", Lh: "RHeader"},
                    callroles={"chapoly_encrypt_noise": "RSealed"})
        put("enc_seal_roles", R.roles_of_call(seal, 4), "role:arguments of chapoly_encrypt_noise in encrypt_chunks", seal.where())
        put("enc_chunk_sink_roles", sink_sequence(F, R, item), "role:write_all / flush calls of encrypt_chunks in order", ws[0].where())
    with S.section(item + ":read buffer"):
        # read buffer = chunk size
        rs = F.mcalls("read")
        need(len(rs) == 2, "%s:%d read calls, expected 2" % (item, len(rs)))
        ob = rs[0].origin(0)
        ok = ob.kind == "fill" and ob.size == Lin(0, {"p4": 1})
        put("enc_read_buf_is_chunk_size", 1 if ok else 0, "role:buffer given to <plaintext>.read", where_of(F, ob))


def decrypt_chunks_items(S):
    item = "decrypt.rs:decrypt_chunks"
    C = S.crypto
    F = S.fn(C, "decrypt_chunks", item)
    need(len(F.fn.params) == 5, item + ":signature changed")
    put = S.put
    res = F.mcalls("read_exact")
    need(len(res) == 2, "%s:%d read_exact calls, expected 2" % (item, len(res)))
    oh = res[0].origin(0)

    def hdr_role():
        return zero_fill_size(F, oh, item + ":chunk header"), where_of(F, oh)
    hlen = S.item("dec_chunk_header_len", ("role:buffer of the first read_exact in decrypt_chunks", hdr_role),
                  ("name:let mut chunk_header = [0u8; N]", lambda: named_let_fill(F, "chunk_header", item)))
    Lh = oh.deflet()
    need(Lh is not None, item + ":header is not a local buffer")
    # u32::from_be_bytes(..) calls
    fb = [c for c in F.tree_calls() if not c.method and c.path[-1] in ("from_be_bytes", "from_le_bytes")]
    need(len(fb) == 2, "%s:%d from_*_bytes calls, expected 2" % (item, len(fb)))
    vals = []
    for c in fb:
        need(len(c.args) == 1 and len(c.path) >= 2 and c.path[-2] in INT_TYPES, item + ":from_be_bytes call")
        o = c.origin(0)
        need(o.kind == "slice" and o.base.deflet() is Lh, item + ":`%s` is not a slice of the header" % c.text(0))
        lo, hi = slice_bounds(o, item, Lin(hlen))
        need(lo.is_const() and hi.is_const(), item + ":header slice bounds")
        Lv = [L for L in c.ctx.lets if L.init and L.init[0] <= c.i_name < L.init[1]]
        need(len(Lv) >= 1, item + ":from_be_bytes result is not bound")
        vals.append({"lo": lo.c, "hi": hi.c, "be": 1 if c.path[-1] == "from_be_bytes" else 0,
                     "width": INT_TYPES[c.path[-2]][0] // 8, "let": Lv[-1], "bytes_let": o.deflet(), "call": c})
    # which is the length (compared with the chunk-size parameter) and which the flag (compared with a constant)?
    len_v = flag_v = None
    flag_const = None
    len_op = None
    for cond in if_conditions(F):
        X = cond[4]
        cmps, conn = comparisons(X, cond[0], cond[1])
        if len(cmps) != 1 or cmps[0][1] is None:
            continue
        (l, op, r) = cmps[0]
        for (x, y, o2) in ((l, r, op), (r, l, CMP_FLIP[op])):
            try:
                vx = X.lin(x[0], x[1], item)
                vy = X.lin(y[0], y[1], item)
            except ExtractError:
                continue
            for v in vals:
                if vx == F.lin_of_let(v["let"]):
                    if vy == Lin(0, {"p4": 1}) and len_v is None:
                        len_v, len_op = v, o2
                    elif vy.is_const() and o2 == "==" and flag_v is None and v is not len_v:
                        flag_v, flag_const = v, (vy.c, X.where(y[0]))
    need(len_v is not None, item + ":no comparison of a header field with the chunk-size parameter")
    need(flag_v is not None and flag_v is not len_v, item + ":last flag test")
    S.put("dec_last_flag", flag_const[0], "role:`if <flag field> == N` of decrypt_chunks", flag_const[1])
    pat = "role:header slices given to u32::from_be_bytes in decrypt_chunks"
    for (k, v) in (("flag", flag_v), ("len", len_v)):
        w = v["call"].where()
        put("dec_hdr_%s_lo" % k, v["lo"], pat, w)
        put("dec_hdr_%s_hi" % k, v["hi"], pat, w)
        put("dec_hdr_%s_be" % k, v["be"], pat, w)
        put("dec_hdr_%s_width" % k, v["width"], pat, w)
    put("dec_len_gt_chunk_size_is_error", 1 if len_op == ">" else 0,
        "role:`if <length field> > <chunk_size>` of decrypt_chunks", len_v["call"].where())
    op = F.one_call("chapoly_decrypt_noise", item, count=1)
    need(len(op.args) == 4, item + ":chapoly_decrypt_noise arity")
    ob = lo = hi = La = None
    with S.section(item + ":body read"):
        # body read: [..len + N]
        ob = res[1].origin(0)
        need(ob.kind == "slice", item + ":second read_exact does not fill a slice")
        lo, hi = slice_bounds(ob, item)
        need(lo == Lin(0) and hi is not None and hi - Lin(hi.c) == F.lin_of_let(len_v["let"]),
             item + ":second read_exact is not [..<length field> + constant]")
        put("dec_ct_read_extra", hi.c, "role:second read_exact of decrypt_chunks reads <length field> + N bytes", res[1].where())
        need(ob.base.kind == "fill" and ob.base.size.t == {"p4": 1}, item + ":buffer is not vec![0; <chunk_size> + constant]")
        put("dec_buf_extra", ob.base.size.c, "role:buffer of decrypt_chunks holds <chunk_size> + N bytes", where_of(F, ob.base))
    with S.section(item + ":authenticated data"):
        # authenticated data of the open call
        oa = op.origin(2)
        La = oa.deflet()
        need(La is not None, item + ":authenticated data is not a local buffer")
        ad = ad_layout(F, La, oa, item, "dec")
        wa = La.where()
        pat = "role:buffer passed as ad to chapoly_decrypt_noise in decrypt_chunks"
        put("dec_ad_extra", ad["extra"], pat, wa)
        put("dec_ad_flag_off", ad["flag_off"], pat, wa)
        put("dec_ad_flag_end", ad["flag_end"], pat, wa)
        put("dec_ad_len_off", ad["len_off"], pat, wa)
        put("dec_ad_len_end", ad["len_end"], pat, wa)
        fl = ad["flag_src"].deflet()
        ll = ad["len_src"].deflet()
        shares = fl is not None and ll is not None and fl is flag_v["bytes_let"] and ll is len_v["bytes_let"]
        put("dec_ad_shares_header_bytes", 1 if shares else 0, "role:ad pieces are the byte arrays taken from the header", wa)
    with S.section(item + ":sealed data"):
        # sealed data = the bytes just read
        need(ob is not None and hi is not None, item + ":needs the body read, which was not located")
        oc = op.origin(3)
        same = 0
        if oc.kind == "slice" and oc.base.deflet() is ob.base.deflet():
            l2, h2 = slice_bounds(oc, item)
            same = 1 if (l2 == lo and h2 == hi) else 0
        put("dec_open_is_what_was_read", same, "role:ciphertext given to chapoly_decrypt_noise = slice filled by read_exact", op.where())
    with S.section(item + ":counter"):
        # counter
        co = op.origin(1)
        Lc = co.deflet()
        need(co.kind == "const_int" and Lc is not None and Lc.mut, item + ":chunk counter")
        put("dec_counter_init", co.value, "role:initial value of the counter given to chapoly_decrypt_noise", Lc.where())
        st, w = counter_step(Lc, item)
        put("dec_counter_step", st, "role:`<counter> += N` of decrypt_chunks", w)
    with S.section(item + ":call roles"):
        need(La is not None, item + ":needs the authenticated-data buffer, which was not located")
        R = RoleCtx(S, F, CH_P, item, bufroles={La: "RAuthData", Lh: "RHeader"},
                    callroles={"chapoly_decrypt_noise": "RPlaintext"})
        put("dec_open_roles", R.roles_of_call(op, 4), "role:arguments of chapoly_decrypt_noise in decrypt_chunks", op.where())
        put("dec_chunk_sink_roles", sink_sequence(F, R, item), "role:write_all / flush calls of decrypt_chunks in order", op.where())
    with S.section(item + ":end probe"):
        # end probe
        rs = F.mcalls("read")
        need(len(rs) == 1 and len(rs[0].args) == 1, "%s:%d read calls, expected 1" % (item, len(rs)))
        po = rs[0].origin(0)
        put("dec_probe_len", zero_fill_size(F, po, item + ":end probe"), "role:buffer of the single <ciphertext>.read of decrypt_chunks", rs[0].where())


def known_magics(S):
    return {tuple(S.val("prologue")): "RPrologue", tuple(S.val("pass_file_magic")): "RMagic"}


def read_buf(F, res, k, item, oldname):
    def role():
        o = res[k].origin(0)
        return zero_fill_size(F, o, item), where_of(F, o)
    return (("role:buffer of read_exact #%d in %s" % (k + 1, F.fn.name), role),
            ("name:let mut %s = [0u8; N]" % oldname, lambda: named_let_fill(F, oldname, item)))


def magic_items(S):
    C = S.crypto
    # ---- the two magics, by role: what the first write_all of key_encrypt / pass_encrypt writes
    S.try_item("prologue", ("role:bytes of the first write_all in key_encrypt", lambda: first_write_bytes(S, "key_encrypt", "encrypt.rs:key_encrypt:first write")),
               ("name:const PROLOGUE", lambda: named_const_bytes(S, C, "PROLOGUE", "encrypt.rs:PROLOGUE")))
    S.try_item("pass_file_magic", ("role:bytes of the first write_all in pass_encrypt", lambda: first_write_bytes(S, "pass_encrypt", "encrypt.rs:pass_encrypt:first write")),
               ("name:const PASS_FILE_MAGIC", lambda: named_const_bytes(S, C, "PASS_FILE_MAGIC", "encrypt.rs:PASS_FILE_MAGIC")))


def key_encrypt_items(S):
    C = S.crypto
    item = "encrypt.rs:key_encrypt"
    F = S.fn(C, "key_encrypt", item)
    # the chunk size is located first: it does not depend on the magics
    with S.section(item + ":encrypt_chunks call:chunk size"):
        ec = F.one_call("encrypt_chunks", item + ":encrypt_chunks", count=1)
        need(len(ec.args) == 5, item + ":encrypt_chunks arity")

        def cs_role():
            o = ec.origin(4)
            return ec.const(4, item + ":chunk size"), where_of(F, o)
        S.item("lib_chunk_size", ("role:chunk-size argument of encrypt_chunks in key_encrypt", cs_role),
               ("name:const CHUNK_SIZE", lambda: named_const_int(S, C, "CHUNK_SIZE", "lib.rs:CHUNK_SIZE")))
    R = RoleCtx(S, F, KE_P, item, known_bytes=known_magics(S))
    with S.section(item + ":hkdf"):
        hk = F.one_call("hkdf_sha256", item + ":hkdf", count=1)
        need(len(hk.args) == 4, item + ":hkdf arity")
        w = hk.where()
        pat = "role:hkdf_sha256 call of key_encrypt"
        S.put("enc_hkdf_salt_empty", 1 if is_empty_bytes(hk.origin(0)) else 0, pat, w)
        S.put("enc_hkdf_len", hk.const(3, item + ":hkdf len"), pat, w)
        S.put("enc_hkdf_roles", R.roles_of_call(hk, 4), pat, w)
    with S.section(item + ":encrypt_chunks call"):
        cs = S.val("lib_chunk_size")
        ec = F.one_call("encrypt_chunks", item + ":encrypt_chunks", count=1)
        need(len(ec.args) == 5, item + ":encrypt_chunks arity")
        w = ec.where()
        pat = "role:encrypt_chunks call of key_encrypt"
        S.put("enc_key_aad_empty", 1 if is_empty_bytes(ec.origin(3)) else 0, pat, w)
        S.put("enc_key_cs_is_const", 1 if (ec.is_const_expr(4) and ec.const(4, item) == cs) else 0, pat, w)
        S.put("enc_key_chunks_roles", R.roles_of_call(ec, 5), pat, w)
    with S.section(item + ":noise_encrypt call"):
        ne = F.one_call("noise_encrypt", item + ":noise_encrypt", count=1)
        S.put("enc_noise_roles", R.roles_of_call(ne, 7), "role:noise_encrypt call of key_encrypt", ne.where())
    with S.section(item + ":header writes"):
        ne = F.one_call("noise_encrypt", item + ":noise_encrypt", count=1)
        S.put("enc_key_header_roles", sink_sequence(F, R, item), "role:write_all / flush calls of key_encrypt in order", ne.where())
    with S.section(item + ":fresh payload key"):
        ne = F.one_call("noise_encrypt", item + ":noise_encrypt", count=1)
        need(len(ne.args) == 7, item + ":noise_encrypt arity")
        po = ne.origin(6)
        need(po.kind == "ifelse", item + ":payload key is not `if let Some(..) = <param> {..} else {fresh}`")
        sr = po.ctx.calls("secure_random", po.els[0], po.els[1])
        need(len(sr) == 1 and len(sr[0].args) == 1, item + ":fresh payload key")
        S.put("enc_fresh_payload_len", sr[0].const(0, item), "role:secure_random(N) for a missing payload key in key_encrypt", sr[0].where())


def pass_encrypt_items(S):
    C = S.crypto
    item = "encrypt.rs:pass_encrypt"
    F = S.fn(C, "pass_encrypt", item)
    names = ("SCRYPT_N", "SCRYPT_R", "SCRYPT_P")
    with S.section(item + ":scrypt costs"):
        sc = F.one_call("scrypt", item + ":scrypt", count=1)
        need(len(sc.args) == 6, item + ":scrypt arity")
        pat = "role:cost arguments of scrypt in pass_encrypt"
        for k in range(3):
            def th(k=k):
                o = sc.origin(2 + k)
                return sc.const(2 + k, item + ":scrypt cost"), where_of(F, o)
            S.try_item("lib_" + names[k].lower(), (pat, th),
                       ("name:const " + names[k], lambda k=k: named_const_int(S, C, names[k], "lib.rs:" + names[k])))
    with S.section(item + ":salt type"):
        # salt: [u8; N]
        (nm, ta, tb) = F.fn.params[3]
        T = F.T
        need(T[ta].s == "[" and F.m[ta] == tb - 1, item + ":salt parameter is not an array")
        parts = split_top(F.f, ta + 1, tb - 1, sep=";")
        need(len(parts) == 2, item + ":salt type")
        S.put("enc_salt_len", F.const(parts[1][0], parts[1][1], item + ":salt type"), "role:type [u8; N] of the salt parameter of pass_encrypt", F.where(ta))
    R = RoleCtx(S, F, PE_P, item, known_bytes=known_magics(S))
    with S.section(item + ":scrypt call"):
        sc = F.one_call("scrypt", item + ":scrypt", count=1)
        need(len(sc.args) == 6, item + ":scrypt arity")
        w = sc.where()
        pat = "role:scrypt call of pass_encrypt"
        S.put("enc_scrypt_args_const", 1 if all(sc.is_const_expr(2 + k) for k in range(3)) else 0, pat, w)
        S.put("enc_scrypt_len", sc.const(5, item + ":scrypt len"), pat, w)
        S.put("enc_scrypt_roles", R.roles_of_call(sc, 6), pat, w)
        ws = F.mcalls("write_all")
        S.put("enc_kdf_before_header", 1 if (ws and sc.i_name < ws[0].i_name) else 0, "role:scrypt is called before the first write_all in pass_encrypt", sc.where())
    with S.section(item + ":encrypt_chunks call"):
        cs = S.val("lib_chunk_size")
        ec = F.one_call("encrypt_chunks", item + ":encrypt_chunks", count=1)
        need(len(ec.args) == 5, item + ":encrypt_chunks arity")
        w = ec.where()
        pat = "role:encrypt_chunks call of pass_encrypt"
        S.put("enc_pass_cs_is_const", 1 if (ec.is_const_expr(4) and ec.const(4, item) == cs) else 0, pat, w)
        S.put("enc_pass_chunks_roles", R.roles_of_call(ec, 5), pat, w)
    with S.section(item + ":header writes"):
        ec = F.one_call("encrypt_chunks", item + ":encrypt_chunks", count=1)
        S.put("enc_pass_header_roles", sink_sequence(F, R, item), "role:write_all / flush calls of pass_encrypt in order", ec.where())


def valid_file_format_items(S):
    C = S.crypto
    item = "decrypt.rs:valid_file_format"
    F = S.fn(C, "valid_file_format", item)

    def fmt_role(variant):
        def th():
            for cond in if_conditions(F):
                X = cond[4]
                body = [X.T[k].s for k in range(cond[2], cond[3])]
                if variant in body and "FileFormat" in body:
                    cmps, conn = comparisons(X, cond[0], cond[1])
                    need(len(cmps) == 1 and cmps[0][1] == "==", item + ":condition for " + variant)
                    (l, op, r) = cmps[0]
                    for (x, y) in ((l, r), (r, l)):
                        ox = X.origin(*x)
                        if ox.kind == "param" and ox.ctx is F and ox.idx == 0:
                            oy = X.origin(*y)
                            return bytes_value(F, oy, item + ":" + variant), where_of(F, oy)
            raise ExtractError(item + ":" + variant)
        return th

    def fmt_name(name):
        def th():
            for L in F.lets:
                if L.name == name and L.init:
                    o = F.origin(*L.init)
                    return bytes_value(F, o, item + ":" + name), L.where()
            raise ExtractError(item + ":let " + name)
        return th
    S.try_item("dec_asym_v1", ("role:bytes compared with <header> where valid_file_format returns AsymV1", fmt_role("AsymV1")),
               ("name:let asym_v1", fmt_name("asym_v1")))
    S.try_item("dec_pass_v1", ("role:bytes compared with <header> where valid_file_format returns PassV1", fmt_role("PassV1")),
               ("name:let pass_v1", fmt_name("pass_v1")))


def key_decrypt_items(S):
    C = S.crypto
    item = "decrypt.rs:key_decrypt"
    F = S.fn(C, "key_decrypt", item)
    with S.section(item + ":read buffers"):
        res = F.mcalls("read_exact")
        need(len(res) == 2, "%s:%d read_exact calls, expected 2" % (item, len(res)))
        S.try_item("dec_prologue_len", *read_buf(F, res, 0, item + ":prologue", "prologue"))
        S.try_item("dec_handshake_len", *read_buf(F, res, 1, item + ":handshake_message", "handshake_message"))
    R = RoleCtx(S, F, KD_P, item, known_bytes=known_magics(S), reads=["RPrologue", "RHandshakeMsg"])
    with S.section(item + ":hkdf"):
        hk = F.one_call("hkdf_sha256", item + ":hkdf", count=1)
        need(len(hk.args) == 4, item + ":hkdf arity")
        w = hk.where()
        pat = "role:hkdf_sha256 call of key_decrypt"
        S.put("dec_hkdf_salt_empty", 1 if is_empty_bytes(hk.origin(0)) else 0, pat, w)
        S.put("dec_hkdf_len", hk.const(3, item + ":hkdf len"), pat, w)
        S.put("dec_hkdf_roles", R.roles_of_call(hk, 4), pat, w)
    with S.section(item + ":decrypt_chunks call"):
        cs = S.val("lib_chunk_size")
        dc = F.one_call("decrypt_chunks", item + ":decrypt_chunks", count=1)
        need(len(dc.args) == 5, item + ":decrypt_chunks arity")
        w = dc.where()
        pat = "role:decrypt_chunks call of key_decrypt"
        S.put("dec_key_aad_empty", 1 if is_empty_bytes(dc.origin(3)) else 0, pat, w)
        S.put("dec_key_cs_is_const", 1 if (dc.is_const_expr(4) and dc.const(4, item) == cs) else 0, pat, w)
        S.put("dec_key_chunks_roles", R.roles_of_call(dc, 5), pat, w)
    with S.section(item + ":noise_decrypt call"):
        nd = F.one_call("noise_decrypt", item + ":noise_decrypt", count=1)
        S.put("dec_noise_roles", R.roles_of_call(nd, 4), "role:noise_decrypt call of key_decrypt", nd.where())
    with S.section(item + ":valid_file_format call"):
        vf = F.one_call("valid_file_format", item + ":valid_file_format", count=1)
        S.put("dec_key_format_roles", R.roles_of_call(vf, 1), "role:valid_file_format call of key_decrypt", vf.where())


def pass_decrypt_items(S):
    C = S.crypto
    item = "decrypt.rs:pass_decrypt"
    F = S.fn(C, "pass_decrypt", item)
    with S.section(item + ":read buffers"):
        res = F.mcalls("read_exact")
        need(len(res) == 2, "%s:%d read_exact calls, expected 2" % (item, len(res)))
        S.try_item("dec_magic_len", *read_buf(F, res, 0, item + ":pass_magic_num", "pass_magic_num"))
        S.try_item("dec_salt_len", *read_buf(F, res, 1, item + ":salt", "salt"))
    R = RoleCtx(S, F, PD_P, item, known_bytes=known_magics(S), reads=["RMagic", "RSalt"])
    with S.section(item + ":scrypt call"):
        costs = [S.val("lib_scrypt_n"), S.val("lib_scrypt_r"), S.val("lib_scrypt_p")]
        sc = F.one_call("scrypt", item + ":scrypt", count=1)
        need(len(sc.args) == 6, item + ":scrypt arity")
        w = sc.where()
        pat = "role:scrypt call of pass_decrypt"
        ok = all(sc.is_const_expr(2 + k) and sc.const(2 + k, item) == costs[k] for k in range(3))
        S.put("dec_scrypt_args_const", 1 if ok else 0, pat, w)
        S.put("dec_scrypt_len", sc.const(5, item + ":scrypt len"), pat, w)
        S.put("dec_scrypt_roles", R.roles_of_call(sc, 6), pat, w)
    with S.section(item + ":decrypt_chunks call"):
        cs = S.val("lib_chunk_size")
        dc = F.one_call("decrypt_chunks", item + ":decrypt_chunks", count=1)
        need(len(dc.args) == 5, item + ":decrypt_chunks arity")
        w = dc.where()
        pat = "role:decrypt_chunks call of pass_decrypt"
        S.put("dec_pass_cs_is_const", 1 if (dc.is_const_expr(4) and dc.const(4, item) == cs) else 0, pat, w)
        S.put("dec_pass_chunks_roles", R.roles_of_call(dc, 5), pat, w)
    with S.section(item + ":valid_file_format call"):
        vf = F.one_call("valid_file_format", item + ":valid_file_format", count=1)
        S.put("dec_pass_format_roles", R.roles_of_call(vf, 1), "role:valid_file_format call of pass_decrypt", vf.where())


def run(S):
    for (name, f) in (("encrypt.rs:magic constants", magic_items), ("encrypt.rs:key_encrypt", key_encrypt_items),
                      ("encrypt.rs:pass_encrypt", pass_encrypt_items), ("encrypt.rs:encrypt_chunks", encrypt_chunks_items),
                      ("decrypt.rs:valid_file_format", valid_file_format_items), ("decrypt.rs:key_decrypt", key_decrypt_items),
                      ("decrypt.rs:pass_decrypt", pass_decrypt_items), ("decrypt.rs:decrypt_chunks", decrypt_chunks_items)):
        with S.section(name):
            f(S)
