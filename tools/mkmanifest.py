#!/usr/bin/env python3
"""regenerates MANIFEST.json from the set of claimed properties (tools/claimed.json)"""
import json, os, subprocess
V = os.path.normpath(os.path.join(os.path.dirname(os.path.abspath(__file__)), ".."))
props = [json.loads(l) for l in open(os.path.join(V, "properties.jsonl"))]
C = json.load(open(os.path.join(V, "tools", "claimed.json")))
claimed = C["claimed"]
hooks = subprocess.run(["git", "-C", "/repo", "log", "--format=%H %s"], capture_output=True, text=True).stdout.splitlines()
hook_commits = [l.split()[0] for l in hooks if l.split(" ", 1)[1].startswith("verif hooks")]
checks = []
for p in props:
    pid = p["id"]
    if pid not in claimed:
        continue
    c = claimed[pid]
    checks.append({
        "property_id": pid,
        "quick_cmd": "./check %s quick" % pid,
        "thorough_cmd": "./check %s thorough" % pid,
        "evidence_file": "evidence/%s.json" % pid,
        "replay_cmd_template": "./check %s --replay {path}" % pid,
        "engine": "coq-model",
        "level_claimed": {"category": "proof", "text": c["text"], "design_ref": "DESIGN.md section 6 (%s)" % pid},
        "level_note": c.get("note", "") + " Trusted: Coq 8.16.1 kernel + vm_compute (no native_compute); no axioms (Print Assumptions of every property theorem is checked on each run); translator tools/extract.py; the correspondence harness (differential testing of model vs implementation); all Rust is modelled, not verified (DESIGN section 8).",
        "technique": c.get("technique", "machine-checked proof in Coq over a Gallina model + checked model/code correspondence"),
    })
m = {"version": 1, "setup_cmd": "./setup.sh",
     "hooks": {"guard": "kestrel_verif",
               "enable": "RUSTFLAGS=\"--cfg kestrel_verif\" (harness crates depend on /repo/src/crypto by path; harness/build.sh)",
               "baseline_off_cmd": "cd /repo && cargo test --workspace --no-fail-fast --offline",
               "source_commits": hook_commits, "add_only": True},
     "engines": [{"name": "coq-model", "path": "coq/", "serves_properties": sorted(claimed),
                  "kind_free_text": "Coq 8.16.1 development: hand-written Gallina model of kestrel + theorems (Props/Cxx.v); tie to /repo checked on every run by a constants translator and a model-vs-implementation correspondence check (vm_compute)"}],
     "checks": checks,
     "not_applicable": [{"property_id": p["id"], "reason": C["unclaimed"].get(p["id"], "check under construction in this round (not yet claimed)")}
                        for p in props if p["id"] not in claimed],
     "notes": "See DESIGN.md. KNOWN_FINDINGS.txt lists five genuine defects repaired by fix: commits (e303ab7, 0c75499, be30f55, 36958df, b3a9114) and one known finding (HMAC key normalisation, C02/C15)."}
json.dump(m, open(os.path.join(V, "MANIFEST.json"), "w"), indent=1)
print("claimed:", sorted(claimed))
