#!/usr/bin/env python3
"""imports a seeded change produced by an independent sub-agent into /verif/seeded/<name>/ after confirming it
(tools/confirm_seed.sh) — usage: seed_import.py <name> <property> <patch> <demo.rs|-> <crate dir> <needs text> <caught-by text>"""
import json, os, shutil, subprocess, sys
name, prop, patch, demo, crate, needs, caught = sys.argv[1:8]
V = os.path.normpath(os.path.join(os.path.dirname(os.path.abspath(__file__)), ".."))
d = os.path.join(V, "seeded", name)
os.makedirs(d, exist_ok=True)
shutil.copy(patch, os.path.join(d, "patch.diff"))
confirm = "not run (in-crate demonstration)"
if demo != "-":
    shutil.copy(demo, os.path.join(d, os.path.basename(demo)))
    r = subprocess.run([os.path.join(V, "tools", "confirm_seed.sh"), patch, demo, crate], capture_output=True, text=True, timeout=3000)
    confirm = (r.stdout.strip().splitlines() or ["(no output)"])[-1]
meta = {"property": prop, "needs_to_manifest": needs, "demonstration": os.path.basename(demo) if demo != "-" else None,
        "demonstration_crate_dir": crate,
        "confirmed": confirm,
        "what_i_ran": ["tools/confirm_seed.sh <patch> <demo> %s  (scratch worktree of /repo: demo passes without the patch, pinned suite passes with it, demo fails with it)" % crate,
                       "tools/seedrun.sh <patch> quick <props>  (checks run against the patched tree in isolation)"],
        "caught_by": caught, "origin": "independent sub-agent given only the property text and a scratch worktree"}
json.dump(meta, open(os.path.join(d, "meta.json"), "w"), indent=1)
print(name, "|", confirm)
