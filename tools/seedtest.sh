#!/bin/bash
# usage: tools/seedtest.sh <patch.diff> <tier> <prop> [<prop>...]
# Applies a seeded change to /repo, runs the named checks against it, ALWAYS reverts /repo afterwards.
# Evidence of these runs goes to a scratch directory (never to /verif/evidence).
set -u
patch=$(readlink -f "$1"); tier=$2; shift 2
cd /verif
if ! git -C /repo diff --quiet; then echo "seedtest: /repo has uncommitted changes, refusing"; exit 2; fi
scratch=$(mktemp -d /tmp/seedtest.XXXXXX)
trap 'git -C /repo checkout -- . ; rm -rf "$scratch"' EXIT
git -C /repo apply "$patch" || { echo "seedtest: patch does not apply"; exit 2; }
for p in "$@"; do
  out=$(VERIF_EVIDENCE_DIR=$scratch ./check "$p" "$tier" 2>&1 | grep -E "^(VIOLATION|OK|KNOWN-FINDING)" | head -3)
  echo "[$p] ${out:-<no verdict line>}"
done
