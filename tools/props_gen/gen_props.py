#!/usr/bin/env python3
"""gen_props.py HEADER_FILE SPEC_FILE OUT_FILE
SPEC_FILE: blocks separated by lines '----'; each block:
  first line: THEOREM_NAME := LEMMA_TERM
  rest: comment text (plain words)
HEADER_FILE: Coq header (file comment + imports + scopes).
Produces OUT_FILE with explicit statements obtained from `Check`."""
import sys, subprocess, re, os, tempfile
hdr = open(sys.argv[1]).read()
spec = open(sys.argv[2]).read()
out = sys.argv[3]
blocks = [b.strip('\n') for b in re.split(r'^----\s*$', spec, flags=re.M) if b.strip()]
items = []
for b in blocks:
    lines = b.split('\n')
    m = re.match(r'^(\w+)\s*:=\s*(.*)$', lines[0])
    assert m, lines[0]
    items.append((m.group(1), m.group(2).strip(), '\n'.join(lines[1:]).strip()))
scratch = hdr + '\nSet Printing Width 110.\nSet Printing Depth 100000.\n'
for (n, t, c) in items:
    scratch += 'Check (%s).\n' % t
d = os.environ.get('KESTREL_COQ_DIR', '/verif/coq')
fn = os.path.join(d, 'scratch_gen_%d.v' % os.getpid())
open(fn, 'w').write(scratch)
r = subprocess.run(['timeout', '600', 'coqc', '-Q', '.', 'Kestrel', os.path.basename(fn)], cwd=d, capture_output=True, text=True)
for ext in ['.v', '.vo', '.vok', '.vos', '.glob']:
    try: os.remove(fn[:-2] + ext)
    except OSError: pass
aux = os.path.join(d, '.' + os.path.basename(fn)[:-2] + '.aux')
try: os.remove(aux)
except OSError: pass
if r.returncode != 0:
    print(r.stdout[-3000:]); print(r.stderr[-3000:]); sys.exit(1)
txt = r.stdout
# split outputs: each Check prints "term\n     : type\n" ; terms start at col 0, continuation lines are indented
chunks = re.split(r'\n(?=\S)', txt.strip('\n'))
# merge: a chunk is "term...\n     : type..."
res = []
for ch in chunks:
    if re.search(r'^\s+: ', ch, flags=re.M):
        res.append(ch)
    elif ch.startswith('where') and res:
        print('EVARS in', res[-1][:200]); sys.exit(1)
    elif res and not re.search(r'^\s+: ', res[-1], flags=re.M):
        res[-1] += '\n' + ch
    else:
        res.append(ch)
res = [x for x in res if re.search(r'^\s+: ', x, flags=re.M)]
if len(res) != len(items):
    print('count mismatch', len(res), len(items)); print(txt[:3000]); sys.exit(1)
body = hdr.rstrip('\n') + '\n\n'
for (n, t, c), ch in zip(items, res):
    i = re.search(r'^\s+: ', ch, flags=re.M)
    ty = ch[i.end():]
    ty = '\n'.join('  ' + l.strip(' ') if k else l for k, l in enumerate(ty.split('\n')))
    # keep relative indentation: simple reindent by stripping 7 spaces
    ty = ch[i.end():]
    ty = '\n'.join((l[7:] if l.startswith('       ') else l) for l in ty.split('\n'))
    ty = '\n'.join('  ' + l for l in ty.split('\n'))
    if c:
        body += '(* ' + c.replace('*)', '* )') + ' *)\n'
    body += 'Theorem %s :\n%s.\nProof. exact (%s). Qed.\nPrint Assumptions %s.\n\n' % (n, ty, t, n)
open(out, 'w').write(body)
print('wrote', out, len(items), 'theorems')
