#!/usr/bin/env python3
"""Self-test of the translator (tools/extract.py).

Builds scratch copies of the sources the translator reads (KESTREL_REPO or /repo) under /tmp/kvT1_*, applies
  * HARMLESS textual rewrites (renamed constants and locals, respelled literals, moved definitions, reformatted calls,
    literals wrapped in named constants, const/static/pub(crate) variations, swapped operands of a comparison ...)
    and asserts that EVERY extracted value is unchanged, and
  * REAL changes (a value, an offset, an endianness, an argument order altered) and asserts that the named items
    change or are NOT LOCATED (they then fall back to the baseline and ./check reports them for the properties that use
    them) -- never located with the old values;
  * changes one pattern cannot follow (tools/extract_fixtures/partial/) and asserts FAULT ISOLATION: exactly the
    expected items fall back, every other item is still located;
  * and asserts that the committed baseline tools/extracted_baseline.json is the extraction of the unchanged tree.
Every rewrite must actually change the text (a pattern that no longer matches is a test error, not a pass).

With --cargo every HARMLESS rewrite is also applied to a full copy of the tree and `cargo test --offline --workspace
--lib --bins` must pass there (the crates' own known-answer tests: the rewrite compiles and keeps the behaviour);
every REAL change must at least compile (`cargo check`).  Slow (about 15 s per case), not part of ./check.

usage: tools/test_extract.py [-v] [-k substring] [--cargo]        exit status 0 iff every case passes
"""
import json, os, re, shutil, subprocess, sys, tempfile

HERE = os.path.dirname(os.path.abspath(__file__))
sys.path.insert(0, HERE)
import extract                      # noqa: E402
from rustlite import ExtractError   # noqa: E402

BASE = os.environ.get("KESTREL_REPO", "/repo")
FILES = ["Cargo.lock", "src/ffi/src/lib.rs"] + \
    ["src/crypto/src/" + f for f in ("lib.rs", "encrypt.rs", "decrypt.rs", "noise.rs", "scrypt.rs", "errors.rs")] + \
    ["src/cli/src/" + f for f in ("main.rs", "commands.rs", "keyring.rs", "errors.rs")]
LIB, ENC, DEC, NOI = ("src/crypto/src/" + f for f in ("lib.rs", "encrypt.rs", "decrypt.rs", "noise.rs"))
ERR = "src/crypto/src/errors.rs"
KR, MAIN, CMD = ("src/cli/src/" + f for f in ("keyring.rs", "main.rs", "commands.rs"))


class TestError(Exception):
    pass


def rep(path, old, new, count=1):
    def f(root):
        p = os.path.join(root, path)
        s = open(p).read()
        n = s.count(old)
        if n == 0 or (count and n != count):
            raise TestError("%s: %r occurs %d times, expected %s" % (path, old[:50], n, count or ">=1"))
        open(p, "w").write(s.replace(old, new))
    return f


def sub(path, pat, repl, count=0, flags=0, expect=None):
    def f(root):
        p = os.path.join(root, path)
        s = open(p).read()
        s2, n = re.subn(pat, repl, s, count=count, flags=flags)
        if n == 0 or (expect is not None and n != expect):
            raise TestError("%s: /%s/ matched %d times" % (path, pat[:50], n))
        open(p, "w").write(s2)
    return f


def rename(word, new, paths):
    return [sub(p, r"\b%s\b" % re.escape(word), new) for p in paths]


def append(path, text):
    def f(root):
        with open(os.path.join(root, path), "a") as fh:
            fh.write(text)
    return f


def move_fn_up(path, fname, before):
    """move the text of `fn fname` (from its first line to the matching closing brace at column 0) before `before`"""
    def f(root):
        p = os.path.join(root, path)
        s = open(p).read()
        m = re.search(r"^(pub )?fn %s\b.*?^\}\n" % fname, s, re.S | re.M)
        if not m:
            raise TestError("%s: fn %s not found" % (path, fname))
        body = m.group(0)
        s = s[:m.start()] + s[m.end():]
        i = s.find(before)
        if i < 0:
            raise TestError("%s: anchor %r not found" % (path, before))
        open(p, "w").write(s[:i] + body + "\n" + s[i:])
    return f


# ------------------------------------------------------------------ HARMLESS rewrites: every value must stay
HARMLESS = [
    ("rename CHUNK_SIZE -> BLOCK_LEN", rename("CHUNK_SIZE", "BLOCK_LEN", [LIB, ENC, DEC])),
    ("65536 -> 64 * 1024", [rep(LIB, "const CHUNK_SIZE: u32 = 65536;", "const CHUNK_SIZE: u32 = 64 * 1024;")]),
    ("65536 -> 1 << 16", [rep(LIB, "const CHUNK_SIZE: u32 = 65536;", "const CHUNK_SIZE: u32 = 1 << 16;")]),
    ("65536 -> 0x1_0000u32", [rep(LIB, "const CHUNK_SIZE: u32 = 65536;", "const CHUNK_SIZE: u32 = 0x1_0000u32;")]),
    ("65536 -> (u16::MAX as u32) + 1", [rep(LIB, "const CHUNK_SIZE: u32 = 65536;", "const CHUNK_SIZE: u32 = (u16::MAX as u32) + 1;")]),
    ("65536 -> 0o200000 via a second constant, renamed",
     [rep(LIB, "const CHUNK_SIZE: u32 = 65536;", "const KIB: u32 = 0b100_0000_0000;\nconst CHUNK_SIZE: u32 = 64 * KIB;")]),
    ("move const CHUNK_SIZE below its uses (end of lib.rs)",
     [rep(LIB, "const CHUNK_SIZE: u32 = 65536;\n", ""), append(LIB, "\nconst CHUNK_SIZE: u32 = 65536;\n")]),
    ("move const CHUNK_SIZE into errors.rs as pub(crate) and import it",
     [rep(LIB, "const CHUNK_SIZE: u32 = 65536;\n", "use crate::errors::CHUNK_SIZE;\n"),
      append(ERR, "\npub(crate) const CHUNK_SIZE: u32 = 65_536;\n")]),
    ("const -> pub(crate) static for CHUNK_SIZE and TAG_SIZE",
     [rep(LIB, "const CHUNK_SIZE: u32", "pub(crate) static CHUNK_SIZE: u32"), rep(LIB, "const TAG_SIZE: usize", "pub(crate) static TAG_SIZE: usize")]),
    ("reformat the encrypt_chunks / decrypt_chunks calls of password mode over several lines, trailing comma",
     [rep(ENC, "encrypt_chunks(plaintext, ciphertext, key.as_slice(), aad, CHUNK_SIZE)?;",
          "encrypt_chunks(\n        plaintext,\n        ciphertext,\n\n        key\n            .as_slice(),\n        aad,\n        CHUNK_SIZE,\n    )?;"),
      rep(DEC, "decrypt_chunks(ciphertext, plaintext, &key, aad, CHUNK_SIZE)?;",
          "decrypt_chunks(\n  ciphertext ,plaintext\n  ,&key , aad ,\n  CHUNK_SIZE ,\n)?;")]),
    ("key_encrypt: hkdf call on one line, no trailing comma; file_encryption_key -> fek",
     [sub(ENC, r"hkdf_sha256\(\s*&\[\],\s*payload_key\.as_bytes\(\),\s*&noise_message\.handshake_hash,\s*32,\s*\)",
          "hkdf_sha256(&[], payload_key.as_bytes(), &noise_message.handshake_hash, 32)")] + rename("file_encryption_key", "fek", [ENC, DEC])),
    ("rename local chunk_header -> hdr, auth_data -> ad_buf (both files)", rename("chunk_header", "hdr", [ENC, DEC]) + rename("auth_data", "ad_buf", [ENC, DEC])),
    ("wrap the header length 16 in a named constant (both files)",
     [rep(ENC, "let mut chunk_header = [0u8; 16];", "const CHUNK_HEADER_LEN: usize = 16;\n        let mut chunk_header = [0u8; CHUNK_HEADER_LEN];"),
      rep(DEC, "let mut chunk_header = [0u8; 16];", "let mut chunk_header = [0u8; HDR];"),
      append(DEC, "\nconst HDR: usize = 8 + 4 + 4;\n")]),
    ("rename PROLOGUE / PASS_FILE_MAGIC", rename("PROLOGUE", "ASYM_MAGIC", [ENC]) + rename("PASS_FILE_MAGIC", "PW_MAGIC", [ENC])),
    ("respell the magic bytes", [rep(ENC, "[0x65, 0x67, 0x6b, 0x10]", "[101, 0x67u8, b'k', 0b1_0000]"),
                                 rep(ENC, "[0x65, 0x67, 0x6b, 0x20]", "*b\"egk\\x20\""),
                                 rep(DEC, "let asym_v1 = [0x65, 0x67, 0x6b, 0x10];", "let asym_v1 = [\n            0x65,\n            0x67,\n            0x6b,\n            16,\n        ];")]),
    ("valid_file_format: rename locals, swap the operands of ==",
     rename("asym_v1", "a", [DEC]) + rename("pass_v1", "p", [DEC]) + [rep(DEC, "if header == a {", "if a == header {")]),
    ("rename SCRYPT_N/R/P in the library, N as 1 << 15",
     rename("SCRYPT_N", "KDF_N", [LIB, ENC, DEC]) + rename("SCRYPT_R", "KDF_R", [LIB, ENC, DEC]) + rename("SCRYPT_P", "KDF_P", [LIB, ENC, DEC])
     + [rep(LIB, "const KDF_N: u32 = 32768;", "const KDF_N: u32 = 1 << 15;")]),
    ("noise guard: reorder the two tests, respell the bounds, rename the parameter",
     [rep(NOI, "if message.len() < 96 || message.len() > 65535 {",
          "if message.len() > u16::MAX as usize\n            || (DH_LEN + (DH_LEN + 16) + 16) > message.len()\n        {")]
     + [sub(NOI, r"(?<![.\w])message\b(?=[\[.])", "msg"), rep(NOI, "pub fn read_message(&mut self, message: &[u8])", "pub fn read_message(&mut self, msg: &[u8])")]),
    ("nonce: rename the buffer, inline the byte conversion (both functions)",
     rename("final_nonce_bytes", "n12", [LIB]) + [sub(LIB, r"copy_from_slice\(&nonce_bytes\)", "copy_from_slice(&nonce.to_le_bytes())", expect=2),
                                                  sub(LIB, r"let nonce_bytes = nonce\.to_le_bytes\(\);\n", "", expect=2)]),
    ("rename DH_LEN, define HASH_LEN through it, TAG_SIZE -> MAC_LEN = 2 * 8",
     rename("DH_LEN", "KEY_LEN", [NOI]) + [rep(NOI, "const HASH_LEN: usize = 32;", "const HASH_LEN: usize = KEY_LEN;")]
     + rename("TAG_SIZE", "MAC_LEN", [LIB, DEC]) + [rep(LIB, "const MAC_LEN: usize = 16;", "const MAC_LEN: usize = 2 * 8;")]),
    ("keyring: rename and respell PRIVATE_KEY_CT_LEN, MAX_NAME_SIZE, PUBLIC_KEY_LEN",
     rename("PRIVATE_KEY_CT_LEN", "LOCKED_LEN", [KR]) + rename("MAX_NAME_SIZE", "NAME_LIMIT", [KR]) + rename("PUBLIC_KEY_LEN", "PK_LEN", [KR])
     + [rep(KR, "const LOCKED_LEN: usize = 84;", "const LOCKED_LEN: usize = 4 + 32 + (PK_LEN + 16);"),
        rep(KR, "const NAME_LIMIT: usize = 128;", "const NAME_LIMIT: usize = 0x80;")]),
    ("keyring unlock: rename the locals", [sub(KR, r"\bversion_aad\b", "ver"), sub(KR, r"\bkey_bytes\b", "kb"),
                                           rep(KR, "let salt = &kb[4..36];", "let s = &kb[4..36];"),
                                           rep(KR, "kestrel_crypto::scrypt(password, salt, SCRYPT_N", "kestrel_crypto::scrypt(password, s, SCRYPT_N"),
                                           rep(KR, "let ciphertext = &kb[36..84];", "let ct = &kb[36..84];"),
                                           rep(KR, "chapoly_decrypt_ietf(&key, &nonce, ciphertext, ver)", "chapoly_decrypt_ietf(&key, &nonce, ct, ver)")]),
    ("keyring unlock: respell the slice bounds",
     [rep(KR, "&key_bytes[..4]", "&key_bytes[0..PRIVATE_KEY_VERSION.len()]"), rep(KR, "&key_bytes[4..36]", "&key_bytes[4..4 + 32]"),
      rep(KR, "&key_bytes[36..84]", "&key_bytes[(4 + 32)..PRIVATE_KEY_CT_LEN]")]),
    ("keyring decode/encode: rename locals, bounds through constants",
     [rep(KR, "let pk = &enc_pk_bytes[..32];", "let raw = &enc_pk_bytes[..PUBLIC_KEY_LEN];"),
      rep(KR, "let checksum = &enc_pk_bytes[32..];", "let ck = &enc_pk_bytes[PUBLIC_KEY_LEN..];"),
      rep(KR, "let exp_checksum = kestrel_crypto::sha256(pk);", "let exp_checksum = kestrel_crypto::sha256(raw);"),
      rep(KR, "if checksum != exp_checksum {", "if exp_checksum != ck {"),
      rep(KR, "PublicKey::try_from(pk).expect", "PublicKey::try_from(raw).expect"),
      rep(KR, "let mut encoded = [0u8; 36];", "let mut buf = [0u8; PUBLIC_KEY_LEN + 4];"),
      sub(KR, r"\bencoded\[", "buf[", expect=2), rep(KR, "Base64::encode_to_string(&encoded)", "Base64::encode_to_string(&buf)")]),
    ("keyring: the 36 of EncodedPk::try_from through a named constant",
     [rep(KR, "if s.len() != 36 {", "if s.len() != ENCODED_PK_LEN {"), append(KR, "\nconst ENCODED_PK_LEN: usize = 0x24;\n")]),
    ("decrypt: rename the read buffers", rename("handshake_message", "hs", [DEC]) + rename("pass_magic_num", "m4", [DEC])
     + [rep(DEC, "let mut prologue = [0u8; 4];", "let mut first = [0u8; 4];"), rep(DEC, "ciphertext.read_exact(&mut prologue)", "ciphertext.read_exact(&mut first)"),
        rep(DEC, "valid_file_format(&prologue)?", "valid_file_format(&first)?"), rep(DEC, "recipient_public, &prologue, &hs)", "recipient_public, &first, &hs)"),
        rep(DEC, "let mut salt = [0u8; 32];", "let mut slt = [0u8; 32];"), rep(DEC, "read_exact(&mut salt)", "read_exact(&mut slt)"),
        rep(DEC, "scrypt(password, &salt,", "scrypt(password, &slt,")]),
    ("decrypt_chunks: swap the operands of the flag test, literal 1u32, rename the flag and length locals",
     rename("last_chunk_indicator", "flag", [DEC]) + rename("ciphertext_length", "clen", [DEC])
     + [rep(DEC, "if flag == 1 {", "if 0x1u32 == flag {"), rep(DEC, "if clen > chunk_size {", "if chunk_size < clen {")]),
    ("comments and char literals that look like code",
     [rep(LIB, "const CHUNK_SIZE: u32 = 65536;", "/* const CHUNK_SIZE: u32 = 1; /* nested */ */\n// const CHUNK_SIZE: u32 = 2; \"\nconst CHUNK_SIZE: u32 = 65536; // was \"4096\"\nconst _Q: char = '\"';"),
      rep(KR, "cleaned_line.retain(|c| c != '\\t');", "cleaned_line.retain(|c| c != '\\t'); // drop '\"' ? no: only tabs")]),
    ("a second #[cfg(test)] module in front of the code",
     [rep(ENC, "const PROLOGUE:", "#[cfg(test)]\nmod early_tests {\n    const CHUNK_SIZE: u32 = 7;\n    fn key_encrypt() { let chunk_header = [0u8; 99]; }\n}\n\nconst PROLOGUE:")]),
    ("set_nonce: assert written with != and a hex literal", [rep(NOI, "assert!(nonce < u64::MAX);", "assert!(nonce != 0xffff_ffff_ffff_ffffu64);")]),
    ("move fn encrypt_chunks in front of key_encrypt", [move_fn_up(ENC, "encrypt_chunks", "#[allow(clippy::too_many_arguments)]")]),
    ("encrypt_chunks: rename locals, write the header fields through a tuple-free respelling",
     rename("prev_read", "n_prev", [ENC]) + rename("chunk_number", "ctr", [ENC]) + rename("last_chunk_indicator_bytes", "fb", [ENC])
     + rename("ciphertext_length_bytes", "lb", [ENC]) + [rep(ENC, "chunk_header[8..12]", "chunk_header[8..8 + 4]"), rep(ENC, "chunk_header[..8]", "chunk_header[0..8]")]),
    ("main.rs: option calls reformatted, slice index respelled",
     [sub(MAIN, r'encrypt_opts\.reqopt\("t", "to", "Recipient key name", "NAME"\);', 'encrypt_opts\n        .reqopt(\n            "t",\n            "to",\n            "Recipient key name",\n            "NAME",\n        );'),
      sub(MAIN, r"slice_args\(&args, 2\)", "slice_args(&args, 1 + 1)")]),
    ("hkdf_noise: counters through named constants",
     [rep(LIB, "let counter1: [u8; 1] = [0x01];", "const ONE: u8 = 1;\n    let counter1: [u8; 1] = [ONE];"), rep(LIB, "copy_from_slice(&[0x02]);", "copy_from_slice(&[ONE + 1]);"),
      rep(LIB, "let mut counter2: [u8; 33] = [0u8; 33];", "let mut counter2: [u8; 33] = [0u8; 32 + 1];")]),
]

# ------------------------------------------------------------------ REAL changes: the named items must change, or extraction fail
REAL = [
    ("CHUNK_SIZE = 32768", [rep(LIB, "const CHUNK_SIZE: u32 = 65536;", "const CHUNK_SIZE: u32 = 32768;")], ["lib_chunk_size"]),
    ("CHUNK_SIZE = 1 << 15 (respelled AND changed)", [rep(LIB, "const CHUNK_SIZE: u32 = 65536;", "const CHUNK_SIZE: u32 = 1 << 15;")], ["lib_chunk_size"]),
    ("pass_decrypt passes CHUNK_SIZE / 2", [rep(DEC, "decrypt_chunks(ciphertext, plaintext, &key, aad, CHUNK_SIZE)?;", "decrypt_chunks(ciphertext, plaintext, &key, aad, CHUNK_SIZE / 2)?;")],
     ["dec_pass_cs_is_const", "dec_pass_chunks_roles"]),
    ("key_encrypt passes a literal 4096 although CHUNK_SIZE stays", [sub(ENC, r"&\[\],\s*CHUNK_SIZE,\s*\)\?;", "&[], 4096)?;")], ["lib_chunk_size"]),
    ("encrypt header: flag and length fields swapped", [rep(ENC, "chunk_header[8..12].copy_from_slice(&last_chunk_indicator_bytes);", "chunk_header[12..].copy_from_slice(&last_chunk_indicator_bytes);"),
                                                        rep(ENC, "chunk_header[12..].copy_from_slice(&ciphertext_length_bytes);", "chunk_header[8..12].copy_from_slice(&ciphertext_length_bytes);")],
     ["enc_hdr_flag_lo", "enc_hdr_len_lo"]),
    ("chunk counter written little-endian", [rep(ENC, "copy_from_slice(&chunk_number.to_be_bytes());", "copy_from_slice(&chunk_number.to_le_bytes());")], ["enc_hdr_ctr_be"]),
    ("decrypt reads the length field little-endian", [rep(DEC, "let ciphertext_length = u32::from_be_bytes(", "let ciphertext_length = u32::from_le_bytes(")], ["dec_hdr_len_be"]),
    ("hkdf: ikm and info swapped in key_encrypt", [sub(ENC, r"payload_key\.as_bytes\(\),\s*&noise_message\.handshake_hash,", "&noise_message.handshake_hash,\n        payload_key.as_bytes(),")], ["enc_hkdf_roles"]),
    ("scrypt: password and salt swapped in pass_decrypt", [rep(DEC, "scrypt(password, &salt, SCRYPT_N", "scrypt(&salt, password, SCRYPT_N")], ["dec_scrypt_roles"]),
    ("noise guard 96 -> 64", [rep(NOI, "message.len() < 96 ||", "message.len() < 64 ||")], ["noise_guard_min"]),
    ("noise guard < -> <=", [rep(NOI, "message.len() < 96 ||", "message.len() <= 96 ||")], ["noise_guard_min"]),
    ("nonce counter at offset 0", [sub(LIB, r"final_nonce_bytes\[4\.\.\]\.copy_from_slice", "final_nonce_bytes[..8].copy_from_slice", count=1)], ["noise_nonce_off_enc"]),
    ("nonce counter big-endian in the decryptor", [rep(LIB, "let nonce_bytes = nonce.to_le_bytes();\n    let mut final_nonce_bytes = [0u8; 12];\n    final_nonce_bytes[4..].copy_from_slice(&nonce_bytes);\n\n    chapoly_decrypt_ietf",
                                                       "let nonce_bytes = nonce.to_be_bytes();\n    let mut final_nonce_bytes = [0u8; 12];\n    final_nonce_bytes[4..].copy_from_slice(&nonce_bytes);\n\n    chapoly_decrypt_ietf")], ["noise_nonce_le_dec"]),
    ("keyring: ciphertext slice starts at 37", [rep(KR, "&key_bytes[36..84]", "&key_bytes[37..84]")], ["kr_unlock_ct_lo"]),
    ("keyring: name limit test > -> >=", [rep(KR, "name.len() > MAX_NAME_SIZE", "name.len() >= MAX_NAME_SIZE")], ["kr_max_name_size"]),
    ("keyring: MAX_NAME_SIZE = 0x7f", [rep(KR, "const MAX_NAME_SIZE: usize = 128;", "const MAX_NAME_SIZE: usize = 0x7f;")], ["kr_max_name_size"]),
    ("prologue last byte 0x11", [rep(ENC, "const PROLOGUE: [u8; 4] = [0x65, 0x67, 0x6b, 0x10];", "const PROLOGUE: [u8; 4] = [0x65, 0x67, 0x6b, 0x11];")], ["prologue"]),
    ("last-chunk test `!= 0`", [rep(DEC, "if last_chunk_indicator == 1 {", "if last_chunk_indicator != 0 {")], ["dec_last_flag"]),
    ("keyring keyword Name -> Title", [rep(KR, 'cleaned_line.starts_with("Name")', 'cleaned_line.starts_with("Title")')], ["kr_kw_name"]),
    ("length field takes num_read instead of prev_read", [rep(ENC, "let ciphertext_length: u32 = prev_read as u32;", "let ciphertext_length: u32 = num_read as u32;")], ["enc_len_is_sealed_len"]),
    ("decrypt accepts length == chunk_size + ... : `>` -> `>=`", [rep(DEC, "if ciphertext_length > chunk_size {", "if ciphertext_length >= chunk_size {")], ["dec_len_gt_chunk_size_is_error"]),
    ("exit code 2", [rep(MAIN, "std::process::exit(1);", "std::process::exit(2);")], ["cli_exit_err"]),
    ("password header: salt written before the magic", [rep(ENC, "ciphertext.write_all(&PASS_FILE_MAGIC).map_err(write_err)?;\n    ciphertext.write_all(&salt).map_err(write_err)?;",
                                                            "ciphertext.write_all(&salt).map_err(write_err)?;\n    ciphertext.write_all(&PASS_FILE_MAGIC).map_err(write_err)?;")], ["enc_pass_header_roles"]),
    ("EncodedPk::try_from decodes without padding", [rep(KR, "match Base64::decode_to_vec(s, None) {\n            Ok(s) => {\n                if s.len() != 36 {", "match ct_codecs::Base64NoPadding::decode_to_vec(s, None) {\n            Ok(s) => {\n                if s.len() != 36 {")], ["kr_b64_codec_is_original"]),
    ("scrypt assert bound 1 << 31", [rep("src/crypto/src/scrypt.rs", "assert!(r * p < 1 << 30);", "assert!(r * p < 1 << 31);")], ["scrypt_rp_bound"]),
    ("decrypt AD: flag and length pieces swapped", [rep(DEC, "auth_data[aad_len..aad_len + 4].copy_from_slice(&last_chunk_indicator_bytes);\n        auth_data[aad_len + 4..].copy_from_slice(&ciphertext_length_bytes);",
                                                        "auth_data[aad_len..aad_len + 4].copy_from_slice(&ciphertext_length_bytes);\n        auth_data[aad_len + 4..].copy_from_slice(&last_chunk_indicator_bytes);")], ["dec_ad_shares_header_bytes"]),
]


FIXTURES = os.path.join(HERE, "extract_fixtures", "harmless")


def apply_diff(name):
    """a fixture patch (tools/extract_fixtures/harmless/<name>) applied with git apply"""
    def f(root):
        p = subprocess.run(["git", "apply", os.path.join(FIXTURES, name)], cwd=root, stdout=subprocess.PIPE,
                           stderr=subprocess.STDOUT, text=True)
        if p.returncode != 0:
            raise TestError("git apply %s: %s" % (name, p.stdout[:200]))
    return f


# refactors written by an independent agent (helpers extracted, constants named and respelled, control flow rewritten)
if os.path.isdir(FIXTURES):
    for _f in sorted(os.listdir(FIXTURES)):
        if _f.endswith(".diff"):
            HARMLESS.append(("fixture " + _f, [apply_diff(_f)]))

# a REAL change made INSIDE a helper that a fixture extracted: must be seen through the helper
REAL += [
    ("refac01 + counter at offset 0 in the extracted noise_nonce helper",
     [apply_diff("refac01.diff"), rep(LIB, "nonce_bytes[4..].copy_from_slice(&counter_bytes);", "nonce_bytes[..8].copy_from_slice(&counter_bytes);")],
     ["noise_nonce_off_enc", "noise_nonce_off_dec"]),
    ("refac02 + flag/length swapped in the extracted build_chunk_header helper",
     [apply_diff("refac02.diff"), rep(ENC, "chunk_header[8..12].copy_from_slice(last_chunk_indicator_bytes);", "chunk_header[12..].copy_from_slice(last_chunk_indicator_bytes);"),
      rep(ENC, "chunk_header[12..].copy_from_slice(ciphertext_length_bytes);", "chunk_header[8..12].copy_from_slice(ciphertext_length_bytes);")],
     ["enc_hdr_flag_lo", "enc_hdr_len_lo"]),
    ("refac02 + aad written last in the extracted fill_auth_data helper",
     [apply_diff("refac02.diff"), rep(ENC, "auth_data[aad_len..aad_len + 4].copy_from_slice(last_chunk_indicator_bytes);", "auth_data[aad_len..aad_len + 4].copy_from_slice(ciphertext_length_bytes);"),
      rep(ENC, "auth_data[aad_len + 4..].copy_from_slice(ciphertext_length_bytes);", "auth_data[aad_len + 4..].copy_from_slice(last_chunk_indicator_bytes);")],
     ["enc_ad_shares_header_bytes"]),
    ("refac03 + length field read from bytes 4..8 in the extracted split_chunk_header helper",
     [apply_diff("refac03.diff"), rep(DEC, "chunk_header[12..].try_into().unwrap();", "chunk_header[4..8].try_into().unwrap();")],
     ["dec_hdr_len_lo"]),
    ("refac05 + named minimum length built without the payload tag",
     [apply_diff("refac05.diff"), sub(NOI, r"const MIN_MESSAGE_LEN: usize = DH_LEN \+ \(DH_LEN \+ TAG_LEN\) \+ TAG_LEN;", "const MIN_MESSAGE_LEN: usize = DH_LEN + (DH_LEN + TAG_LEN);")],
     ["noise_guard_min"]),
    ("refac10 + SALT_END = 35", [apply_diff("refac10.diff"), sub(KR, r"const SALT_END: usize = [^;]+;", "const SALT_END: usize = 35;")], ["kr_unlock_salt_hi"]),
    ("refac15 + password and salt swapped in the extracted scrypt_into helper",
     [apply_diff("refac15.diff"), rep("src/ffi/src/lib.rs", "ktl_scrypt(password, salt, n, r, p, out.len())", "ktl_scrypt(salt, password, n, r, p, out.len())")],
     ["ffi_scrypt_call_roles"]),
]


def fresh_copy(root):
    if os.path.exists(root):
        shutil.rmtree(root)
    for f in FILES:
        dst = os.path.join(root, f)
        os.makedirs(os.path.dirname(dst), exist_ok=True)
        shutil.copy(os.path.join(BASE, f), dst)


def cargo(ctree, target, edits, args):
    """restore the files, apply the edits in the full copy, run cargo; returns (ok, last lines)"""
    for f in FILES:
        shutil.copy(os.path.join(BASE, f), os.path.join(ctree, f))
    for e in edits:
        e(ctree)
    env = dict(os.environ, CARGO_TARGET_DIR=target, CARGO_NET_OFFLINE="true")
    p = subprocess.run(["cargo"] + args, cwd=ctree, env=env, stdout=subprocess.PIPE, stderr=subprocess.STDOUT, text=True)
    return p.returncode == 0, "\n".join(l for l in p.stdout.splitlines() if l.startswith("error") or "FAILED" in l or "panicked" in l)[:600]


def run_extract(root):
    """strict: every item located, or (None, first error)"""
    try:
        E, M = extract.extract(root)
        return extract.jsonable(E), None
    except (ExtractError, extract.FatalExtract) as e:
        return None, str(e)


def run_partial(root):
    """fault-isolated run: (values of the located items, {item: error} of those that fall back to the baseline),
    or (None, message) when the failure is fatal"""
    try:
        S = extract.extract_all(root)
    except (ExtractError, extract.FatalExtract) as e:
        return None, str(e)
    return extract.jsonable(S.E), S.failed_items(extract.load_baseline())


PARTIAL = os.path.join(HERE, "extract_fixtures", "partial")
# changes that one pattern cannot follow: EXACTLY these items fall back (everything else is located; the items named
# second are located with a changed value)
PARTIAL_CASES = [
    ("keyring_cost_shift.diff", ["kr_unlock_scrypt_roles"], ["kr_unlock_scrypt_args_const", "kr_unlock_version_checked"]),
]


def main():
    verbose = "-v" in sys.argv
    only = sys.argv[sys.argv.index("-k") + 1] if "-k" in sys.argv else None
    work = tempfile.mkdtemp(prefix="kvT1_xt_", dir="/tmp")
    root = os.path.join(work, "tree")
    fails = 0
    try:
        fresh_copy(root)
        base, err = run_extract(root)
        if base is None:
            print("FAIL baseline: " + err)
            return 1
        ref, err = run_extract(BASE)
        if ref != base:
            print("FAIL the scratch copy does not extract like %s" % BASE)
            return 1
        print("baseline: %d items" % len(base))
        # the committed baseline (what an unlocatable item falls back to) is the extraction of the unchanged tree
        bl = extract.load_baseline()
        if bl is None:
            print("FAIL tools/extracted_baseline.json is missing or unreadable")
            fails += 1
        else:
            bv = {k: v["value"] for k, v in bl["items"].items()}
            jb = json.loads(json.dumps(base))      # tuples -> lists, as in the file
            if bv != jb:
                d = [k for k in sorted(set(bv) | set(jb)) if bv.get(k) != jb.get(k)]
                print("FAIL tools/extracted_baseline.json is stale (run tools/extract.py --write-baseline on the unchanged tree): "
                      + ", ".join(d[:8]))
                fails += 1
            else:
                S0 = extract.extract_all(root)
                lines = extract.render_lines(S0.E)
                bad = [k for k in lines if bl["items"][k]["coq"] != lines[k] or bl["items"][k]["section"] != S0.sec.get(k)]
                if bad:
                    print("FAIL tools/extracted_baseline.json: stale Coq lines / sections for " + ", ".join(bad[:8]))
                    fails += 1
                else:
                    print("ok   baseline  tools/extracted_baseline.json = extraction of the unchanged tree (%d items)" % len(bv))
        nh = nr = 0
        for (name, edits) in HARMLESS:
            if only and only not in name:
                continue
            nh += 1
            fresh_copy(root)
            try:
                for e in edits:
                    e(root)
            except TestError as ex:
                print("FAIL harmless  %-70s rewrite did not apply: %s" % (name, ex))
                fails += 1
                continue
            got, err = run_extract(root)
            if got is None:
                print("FAIL harmless  %-70s ExtractError: %s" % (name, err[:300]))
                fails += 1
            elif got != base:
                diff = [k for k in sorted(set(base) | set(got)) if base.get(k) != got.get(k)]
                print("FAIL harmless  %-70s values changed: %s" % (name, ", ".join("%s %r->%r" % (k, base.get(k), got.get(k)) for k in diff[:6])))
                fails += 1
            else:
                print("ok   harmless  %s" % name)
        for (name, edits, must) in REAL:
            if only and only not in name:
                continue
            nr += 1
            fresh_copy(root)
            try:
                for e in edits:
                    e(root)
            except TestError as ex:
                print("FAIL real      %-70s rewrite did not apply: %s" % (name, ex))
                fails += 1
                continue
            got, failed = run_partial(root)
            if got is None:
                print("ok   real      %-70s extraction fails as a whole (%s)" % (name, failed[:90].replace("\n", " ")))
            else:
                # a named item must be located with another value, or fail ITSELF (then ./check reports it for the
                # properties that use it); keeping the old value as a located item is the one thing that must not happen
                same = [k for k in must if k not in failed and got.get(k) == base.get(k)]
                if same:
                    print("FAIL real      %-70s unchanged: %s" % (name, ", ".join(same)))
                    fails += 1
                else:
                    extra = [k for k in sorted(base) if k in got and base.get(k) != got.get(k)]
                    print("ok   real      %-70s changed: %s%s" % (name, ", ".join(extra[:8]),
                          ("; not located: " + ", ".join(sorted(failed)[:6])) if failed else ""))
        for (fx, exp_failed, exp_changed) in PARTIAL_CASES:
            if only and only not in fx:
                continue
            fresh_copy(root)
            p = subprocess.run(["git", "apply", os.path.join(PARTIAL, fx)], cwd=root, stdout=subprocess.PIPE, stderr=subprocess.STDOUT, text=True)
            if p.returncode != 0:
                print("FAIL partial   %-70s git apply: %s" % (fx, p.stdout[:200]))
                fails += 1
                continue
            got, failed = run_partial(root)
            if got is None:
                print("FAIL partial   %-70s fatal: %s" % (fx, failed[:200]))
                fails += 1
                continue
            changed = [k for k in sorted(base) if k in got and got[k] != base[k]]
            lost = [k for k in base if k not in got and k not in failed]
            if sorted(failed) != sorted(exp_failed) or changed != sorted(exp_changed) or lost:
                print("FAIL partial   %-70s not located %s (expected %s); changed %s (expected %s); lost %s" % (
                    fx, sorted(failed), exp_failed, changed, exp_changed, lost))
                fails += 1
            else:
                print("ok   partial   %-70s not located: %s; changed: %s; the other %d items located unchanged" % (
                    fx, ", ".join(exp_failed), ", ".join(changed), len(base) - len(failed) - len(changed)))
        if "--cargo" in sys.argv:
            ctree = os.path.join(work, "ctree")
            shutil.copytree(BASE, ctree, ignore=shutil.ignore_patterns("target", ".git"))
            target = os.path.join(work, "target")
            for (name, edits) in HARMLESS:
                if only and only not in name:
                    continue
                ok, msg = cargo(ctree, target, edits, ["test", "--offline", "--workspace", "--lib", "--bins", "-q"])
                print("%s cargo test  %s %s" % ("ok  " if ok else "FAIL", name, "" if ok else msg))
                fails += 0 if ok else 1
            for (name, edits, must) in REAL:
                if only and only not in name:
                    continue
                ok, msg = cargo(ctree, target, edits, ["check", "--offline", "--workspace", "-q"])
                print("%s cargo check %s %s" % ("ok  " if ok else "FAIL", name, "" if ok else msg))
                fails += 0 if ok else 1
        print("%d harmless rewrites, %d real changes, %d failures" % (nh, nr, fails))
    finally:
        shutil.rmtree(work, ignore_errors=True)
    return 1 if fails else 0


if __name__ == "__main__":
    sys.exit(main())
