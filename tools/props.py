"""props — per-property case generators, direct oracles and metadata for ./check."""
import os, random, collections
import vlib
from vlib import Case

TRUSTED_BASE = [
    "Coq 8.16.1 kernel incl. vm_compute (no native_compute); full .vo builds via coq_makefile",
    "axioms: none (Print Assumptions of every property theorem must say 'Closed under the global context')",
    "translator tools/extract.py (constants and shapes copied from the Rust sources into gen/Extracted.v)",
    "correspondence check: tools/vlib.py + harness/libdrv (scripted I/O, canonical observation) + Run/RunLib.v evaluated by vm_compute; it is differential testing and bounds how far the model is the code",
    "all of kestrel's Rust is modelled, not verified; orion, ct-codecs, getopts, std::io are specified in Gallina from their RFCs/sources and compared, not proved equal",
]


class Ctx:
    def __init__(self, pid, tier, seed):
        self.pid, self.tier, self.seed = pid, tier, seed
        self.rng = random.Random(seed)
        self.broken = []
        self.violations = []
        self.disagreements = []
        self.samples = []
        self.distribution = {}
        self.evaluations = 0
        self.agreed = 0
        self.distinct_nontrivial = 0
        self.oracle_checks = 0
        self.n_violations = 0
        self.known_hits = 0
        self.proof_report = None
        self.extracted = None
        self.harness_ok = False
        self.bin = None
        self.wall = 0.0
        self.search_note = ""

    def thorough(self):
        return self.tier == "thorough"

    def rbytes(self, n):
        return bytes(self.rng.getrandbits(8) for _ in range(n))


class Prop:
    id = "C00"
    rule = ""
    assumptions = []
    trusted_extra = []
    profiles = ("dev",)

    def build(self, ctx):
        ok, out, binp = vlib.build_harness("dev")
        ctx.harness_ok = ok
        ctx.bin = binp
        if not ok:
            ctx.broken.append({"kind": "correspondence", "what": "harness does not build against the working tree: "
                               + out[-300:].replace("\n", " ")})

    # ---- to override
    def cases(self, ctx):
        return []

    def search_cases(self, ctx):
        return []

    def explore(self, ctx):
        cases = self.cases(ctx)
        self.run_cases(ctx, cases, model=True)
        if ctx.broken and not ctx.violations:
            extra = self.search_cases(ctx)
            ctx.search_note = "direct oracle over %d run cases and %d extra search cases" % (len(cases), len(extra))
            if extra:
                self.run_cases(ctx, extra, model=False)

    def run_cases(self, ctx, cases, model=True):
        if not cases:
            return
        crashes = vlib.run_impl(ctx.bin, cases)
        ctx.evaluations += len(cases)
        dist = collections.Counter(ctx.distribution)
        seen = set()
        for c in cases:
            dist["op:" + c.op] += 1
            dist["outcome:" + c.result["outcome"].split(":")[0] + (":" + c.result["outcome"].split(":")[1] if ":" in c.result["outcome"] else "")] += 1
            for t in c.tags:
                dist["tag:" + t] += 1
            line = c.rust_line().split(" ", 1)[1]
            if line not in seen:
                seen.add(line)
                if "trivial" not in c.tags:
                    ctx.distinct_nontrivial += 1
        ctx.distribution = dict(dist)
        # direct oracle
        for c in cases:
            if c.expect_fn is not None:
                ctx.oracle_checks += 1
                msg = c.expect_fn(c.result)
                if msg:
                    ctx.violations.append({"input": c.full(), "expected": msg[0], "observed": msg[1],
                                           "finding_key": msg[2] if len(msg) > 2 else None})
        if model:
            table = vlib.kdf_table(ctx.bin, cases)
            log = vlib.run_model(cases, table, ctx.pid)
            bad = [c for c in cases if c.agree is not True]
            ctx.agreed += len(cases) - len(bad)
            if bad:
                shown = vlib.run_model(bad[:6], table, ctx.pid + "s", show=True)
                for c in bad[:20]:
                    ctx.disagreements.append({"input": c.full(), "implementation": c.result["raw"][:600],
                                              "model": shown.get(c.id, "model evaluation failed" if c.agree is None else "?")})
                ctx.broken.append({"kind": "correspondence",
                                   "what": "correspondence %s: model and implementation differ on %d of %d cases%s"
                                           % (ctx.pid, len(bad), len(cases), (" [" + log[-200:] + "]") if log else "")})
        if not ctx.samples:
            step = max(1, len(cases) // 6)
            for c in cases[::step][:6]:
                d = c.summary()
                d["implementation"] = c.result["outcome"]
                ctx.samples.append(d)

    def replay(self, ctx, payload):
        c = case_from_full(payload["input"])
        vlib.run_impl(ctx.bin, [c])
        return {"holds": None, "implementation": c.result["raw"][:1000], "expected": payload.get("expected")}


def case_from_full(d):
    a = {}
    for k, v in d.items():
        if k == "op":
            continue
        if isinstance(v, str) and k not in ("rs", "ws", "fs"):
            a[k] = bytes.fromhex(v)
        else:
            a[k] = v
    return Case(d["op"], **a)


# =========================================================================== helpers
def authentic_chunks(ctx, key, aad, cs, plaintexts, rs_list=None):
    """phase 1: let the implementation produce authentic chunk files"""
    cs_ = []
    for i, p in enumerate(plaintexts):
        cs_.append(Case("enc_chunks", key=key, aad=aad, cs=cs, data=p, rs=(rs_list[i] if rs_list else "-")))
    vlib.run_impl(ctx.bin, cs_)
    return [c.result["out"] for c in cs_], cs_


def records(f, off=0):
    """split a well-formed chunk stream into records (bytes objects)"""
    out = []
    i = off
    while i + 16 <= len(f):
        ln = int.from_bytes(f[i + 12:i + 16], "big")
        out.append(f[i:i + 32 + ln])
        i += 32 + ln
    return out


def flip(b, bit):
    x = bytearray(b)
    x[bit // 8] ^= 1 << (bit % 8)
    return bytes(x)


# =========================================================================== C03
class C03(Prop):
    id = "C03"
    rule = ("cases: authentic files (produced by the implementation) mutated by every single-bit flip, truncation at "
            "every offset, appended bytes/records, and every sequence of <=4 records drawn from two files, at chunk "
            "size 2/3 through the chunk hooks, plus key/password files at the production chunk size; a case is "
            "non-trivial when it is not the unmodified authentic file; distinct = distinct driver command lines")
    assumptions = ["no-forgery-in-run premise (INT-CTXT of ChaCha20-Poly1305 idealised, DESIGN section 4)",
                   "AEAD correctness laws aead_ok are proved for the Gallina RFC 8439 instance"]

    def expect(self, P, kind, base_ok=True):
        def f(r):
            if r["code"] == 1 or r["code"] >= 900:
                return ("error value or success, never a panic/abort", r["outcome"])
            if r["code"] == 0 and r["out"] != P:
                return ("accepted => output equals the complete plaintext %s" % P.hex(), "ok out=" + r["out"].hex())
            if kind == "must_reject" and r["code"] == 0:
                return ("this modification must be rejected", "ok out=" + r["out"].hex())
            if kind == "must_accept" and not (r["code"] == 0 and r["out"] == P):
                return ("unmodified / counter-field-only change decrypts to the plaintext", r["outcome"])
            if not P.startswith(r["out"]):
                return ("whatever the outcome, released bytes are a prefix of the plaintext", "out=" + r["out"].hex())
            return None
        return f

    def chunk_stream(self, ctx, full):
        rng = ctx.rng
        cases = []
        for cs in ([2, 3] if full else [2]):
            key = ctx.rbytes(32)
            aad = rng.choice([b"", b"egk\x20"])
            pts = [b"", b"a", ctx.rbytes(cs), ctx.rbytes(cs + 1), ctx.rbytes(2 * cs), ctx.rbytes(2 * cs + 1)]
            files, _ = authentic_chunks(ctx, key, aad, cs, pts)
            mk = lambda data, P, kind, tags: Case("dec_chunks", key=key, aad=aad, cs=cs, data=data,
                                                   oracle=self.expect(P, kind), tags=tags)
            for P, F in zip(pts, files):
                cases.append(mk(F, P, "must_accept", ["authentic", "trivial"]))
            # bit flips / truncations / extensions on selected files
            sel = [1, 3, 5] if full else [3]
            for idx in sel:
                P, F = pts[idx], files[idx]
                recs = records(F)
                counter_bytes = set()
                off = 0
                for r in recs:
                    counter_bytes.update(range(off, off + 8))
                    off += len(r)
                for bit in range(len(F) * 8):
                    if bit // 8 in counter_bytes:
                        cases.append(mk(flip(F, bit), P, "must_accept", ["flip-counter"]))
                    else:
                        cases.append(mk(flip(F, bit), P, "must_reject", ["flip"]))
                for n in range(len(F)):
                    cases.append(mk(F[:n], P, "must_reject", ["truncate"]))
                cases.append(mk(F + b"\x00", P, "must_reject", ["extend"]))
                cases.append(mk(F + recs[-1], P, "must_reject", ["extend-record"]))
                cases.append(mk(F + F, P, "must_reject", ["extend-file"]))
            # rearrangements of records from two files
            key2 = ctx.rbytes(32)
            files2, _ = authentic_chunks(ctx, key2, aad, cs, [pts[4]])
            A, B = records(files[5]), records(files2[0])
            pool = A + B
            PA = pts[5]
            import itertools
            maxlen = 4 if full else 3
            for n in range(1, maxlen + 1):
                for combo in itertools.product(range(len(pool)), repeat=n):
                    data = b"".join(pool[i] for i in combo)
                    if list(combo) == list(range(len(A))):
                        continue
                    cases.append(mk(data, PA, "any", ["rearrange"]))
            # length-field edits
            F, P = files[3], pts[3]
            for v in (0, 1, cs, cs + 1, 2 ** 31, 2 ** 32 - 1):
                x = bytearray(F)
                x[12:16] = v.to_bytes(4, "big")
                if bytes(x) != F:
                    cases.append(mk(bytes(x), P, "must_reject", ["len-edit"]))
        return cases

    def file_stream(self, ctx, full):
        rng = ctx.rng
        cases = []
        # password mode at the production chunk size
        pw, salt = b"hackme", ctx.rbytes(32)
        P = ctx.rbytes(40)
        e = Case("pass_enc", pw=pw, salt=salt, data=P)
        s_, r_ = ctx.rbytes(32), ctx.rbytes(32)
        k1 = [Case("xpub", k=s_), Case("xpub", k=r_), e]
        vlib.run_impl(ctx.bin, k1)
        spk, rpk, F = k1[0].result["out"], k1[1].result["out"], k1[2].result["out"]
        mkp = lambda data, kind, tags: Case("pass_dec", pw=pw, data=data, oracle=self.expect(P, kind), tags=tags)
        cases.append(mkp(F, "must_accept", ["authentic", "trivial"]))
        bits = list(range(len(F) * 8))
        ctr = set(range(36, 44))
        pick = bits if full else rng.sample(bits, 40) + [0, 31, 32 * 8, 36 * 8, 44 * 8, 48 * 8]
        for bit in pick:
            kind = "must_accept" if bit // 8 in ctr else "must_reject"
            cases.append(mkp(flip(F, bit), kind, ["flip-pass"]))
        for n in ([0, 3, 4, 35, 36, 51, 52, len(F) - 1] if not full else range(len(F))):
            cases.append(mkp(F[:n], "must_reject", ["truncate-pass"]))
        cases.append(mkp(F + b"x", "must_reject", ["extend-pass"]))
        # key mode: two files to the same recipient, header splices
        eph1, eph2, pk1, pk2 = ctx.rbytes(32), ctx.rbytes(32), ctx.rbytes(32), ctx.rbytes(32)
        P1, P2 = ctx.rbytes(33), ctx.rbytes(17)
        k2 = [Case("xpub", k=eph1), Case("xpub", k=eph2)]
        vlib.run_impl(ctx.bin, k2)
        k3 = [Case("key_enc", s=s_, spk=spk, r=rpk, e=eph1, epk=k2[0].result["out"], pk=pk1, data=P1),
              Case("key_enc", s=s_, spk=spk, r=rpk, e=eph2, epk=k2[1].result["out"], pk=pk2, data=P2)]
        vlib.run_impl(ctx.bin, k3)
        F1, F2 = k3[0].result["out"], k3[1].result["out"]
        mkk = lambda data, P, kind, tags: Case("key_dec", r=r_, rpk=rpk, data=data, oracle=self.expect(P, kind), tags=tags)
        cases.append(mkk(F1, P1, "must_accept", ["authentic", "trivial"]))
        cases.append(mkk(F2, P2, "must_accept", ["authentic", "trivial"]))
        parts1 = [F1[0:4], F1[4:36], F1[36:84], F1[84:132], F1[132:]]
        parts2 = [F2[0:4], F2[4:36], F2[36:84], F2[84:132], F2[132:]]
        import itertools
        for sel in itertools.product([0, 1], repeat=4):
            if sum(sel) in (0, 4):
                continue
            data = parts1[0] + b"".join((parts2 if s else parts1)[i + 1] for i, s in enumerate(sel))
            cases.append(mkk(data, P1, "must_reject", ["splice"]))
        bits = list(range(132 * 8, len(F1) * 8))
        hb = list(range(0, 132 * 8))
        pick = (hb + bits) if full else rng.sample(hb, 24) + rng.sample(bits, 12)
        ctr = set(range(132, 140))
        for bit in pick:
            kind = "must_accept" if bit // 8 in ctr else "must_reject"
            cases.append(mkk(flip(F1, bit), P1, kind, ["flip-key"]))
        for n in ([0, 4, 36, 131, 132, 148, len(F1) - 1] if not full else range(len(F1))):
            cases.append(mkk(F1[:n], P1, "must_reject", ["truncate-key"]))
        # magic swap between modes
        cases.append(mkk(F, P1, "must_reject", ["wrong-mode"]))
        cases.append(mkp(F1, "must_reject", ["wrong-mode"]))
        return cases

    def cases(self, ctx):
        return self.chunk_stream(ctx, ctx.thorough()) + self.file_stream(ctx, ctx.thorough())

    def search_cases(self, ctx):
        if ctx.thorough():
            return []
        c2 = Ctx(ctx.pid, "thorough", ctx.seed + 1)
        c2.bin = ctx.bin
        return self.chunk_stream(c2, True) + self.file_stream(c2, True)


REGISTRY = {}
for cls in (C03,):
    REGISTRY[cls.id] = cls()
