"""props — per-property case generators, direct oracles and metadata for ./check."""
import os, random, collections
import vlib
from vlib import Case

TRUSTED_BASE = [
    "Coq 8.16.1 kernel incl. vm_compute (no native_compute); full .vo builds via coq_makefile",
    "axioms: none (Print Assumptions of every property theorem must say 'Closed under the global context')",
    "translator tools/extract.py (constants and shapes copied from the Rust sources into gen/Extracted.v; an item it cannot locate keeps its committed baseline value, tools/extracted_baseline.json, and breaks exactly the properties in whose coqdep dependency closure its identifier occurs)",
    "correspondence check: tools/vlib.py + harness/libdrv (scripted I/O, canonical observation) + Run/RunLib.v evaluated by vm_compute; it is differential testing and bounds how far the model is the code",
    "all of kestrel's Rust is modelled, not verified; orion, ct-codecs, getopts, std::io are specified in Gallina from their RFCs/sources and compared, not proved equal",
]


class Ctx:
    def __init__(self, pid, tier, seed):
        self.pid, self.tier, self.seed = pid, tier, seed
        self.rng = random.Random(seed)
        self.broken = []
        self.violations = []
        self.disagreements = []
        self.samples = []
        self.distribution = {}
        self.evaluations = 0
        self.agreed = 0
        self.distinct_nontrivial = 0
        self.oracle_checks = 0
        self.n_violations = 0
        self.known_hits = 0
        self.proof_report = None
        self.extracted = None
        self.harness_ok = False
        self.bin = None
        self.wall = 0.0
        self.search_note = ""

    def thorough(self):
        return self.tier == "thorough"

    def rbytes(self, n):
        return bytes(self.rng.getrandbits(8) for _ in range(n))


class Prop:
    id = "C00"
    rule = ""
    assumptions = []
    trusted_extra = []
    profiles = ("dev",)
    # .v files (relative to coq/) the correspondence cases of the property import: with Props/<id>.v they are the roots of the
    # dependency closure that decides whether an extracted item the translator could not locate matters here (./check)
    run_modules = ("Run/RunLib.v",)

    def build(self, ctx):
        ok, out, binp = vlib.build_harness("dev")
        ctx.harness_ok = ok
        ctx.bin = binp
        if not ok:
            ctx.broken.append({"kind": "correspondence", "what": "harness does not build against the working tree: "
                               + out[-300:].replace("\n", " ")})

    # ---- to override
    def cases(self, ctx):
        return []

    def search_cases(self, ctx):
        return []

    def explore(self, ctx):
        cases = self.cases(ctx)
        self.run_cases(ctx, cases, model=True)
        if ctx.broken and not ctx.violations:
            extra = self.search_cases(ctx)
            ctx.search_note = "direct oracle over %d run cases and %d extra search cases" % (len(cases), len(extra))
            if extra:
                self.run_cases(ctx, extra, model=False)

    def run_cases(self, ctx, cases, model=True):
        if not cases:
            return
        crashes = vlib.run_impl(ctx.bin, cases)
        ctx.evaluations += len(cases)
        dist = collections.Counter(ctx.distribution)
        seen = set()
        for c in cases:
            dist["op:" + c.op] += 1
            dist["outcome:" + c.result["outcome"].split(":")[0] + (":" + c.result["outcome"].split(":")[1] if ":" in c.result["outcome"] else "")] += 1
            for t in c.tags:
                dist["tag:" + t] += 1
            line = c.rust_line().split(" ", 1)[1]
            if line not in seen:
                seen.add(line)
                if "trivial" not in c.tags:
                    ctx.distinct_nontrivial += 1
        ctx.distribution = dict(dist)
        # direct oracle
        for c in cases:
            if c.expect_fn is not None:
                ctx.oracle_checks += 1
                msg = c.expect_fn(c.result)
                if msg:
                    ctx.violations.append({"input": c.full(), "expected": msg[0], "observed": msg[1],
                                           "finding_key": msg[2] if len(msg) > 2 else None})
        if model:
            table = vlib.kdf_table(ctx.bin, cases)
            log = vlib.run_model(cases, table, ctx.pid)
            bad = [c for c in cases if c.agree is not True]
            ctx.agreed += len(cases) - len(bad)
            if bad:
                shown = vlib.run_model(bad[:6], table, ctx.pid + "s", show=True)
                for c in bad[:20]:
                    ctx.disagreements.append({"input": c.full(), "implementation": c.result["raw"][:600],
                                              "model": shown.get(c.id, "model evaluation failed" if c.agree is None else "?")})
                if getattr(self, "model_is_reference", False):
                    # for conformance properties the Gallina specification IS the reference the property names:
                    # a disagreement is a concrete failing input
                    for c in bad[:10]:
                        if c.agree is False:
                            ctx.violations.append({"input": c.full(),
                                                   "expected": "the value the Gallina transcription of the documented format / RFC prescribes: %s"
                                                               % str(shown.get(c.id, "(not shown)"))[:600],
                                                   "observed": c.result["raw"][:600], "finding_key": None})
                ctx.broken.append({"kind": "correspondence",
                                   "what": "correspondence %s: model and implementation differ on %d of %d cases%s"
                                           % (ctx.pid, len(bad), len(cases), (" [" + log[-200:] + "]") if log else "")})
        if not ctx.samples:
            step = max(1, len(cases) // 6)
            for c in cases[::step][:6]:
                d = c.summary()
                d["implementation"] = c.result["outcome"]
                ctx.samples.append(d)

    def replay(self, ctx, payload):
        c = case_from_full(payload["input"])
        vlib.run_impl(ctx.bin, [c])
        return {"holds": None, "implementation": c.result["raw"][:1000], "expected": payload.get("expected")}


def case_from_full(d):
    a = {}
    for k, v in d.items():
        if k == "op":
            continue
        if isinstance(v, str) and k not in ("rs", "ws", "fs"):
            a[k] = bytes.fromhex(v)
        else:
            a[k] = v
    return Case(d["op"], **a)


# =========================================================================== helpers
def authentic_chunks(ctx, key, aad, cs, plaintexts, rs_list=None):
    """phase 1: let the implementation produce authentic chunk files"""
    cs_ = []
    for i, p in enumerate(plaintexts):
        cs_.append(Case("enc_chunks", key=key, aad=aad, cs=cs, data=p, rs=(rs_list[i] if rs_list else "-")))
    vlib.run_impl(ctx.bin, cs_)
    return [c.result["out"] for c in cs_], cs_


def records(f, off=0):
    """split a well-formed chunk stream into records (bytes objects)"""
    out = []
    i = off
    while i + 16 <= len(f):
        ln = int.from_bytes(f[i + 12:i + 16], "big")
        out.append(f[i:i + 32 + ln])
        i += 32 + ln
    return out


def flip(b, bit):
    x = bytearray(b)
    x[bit // 8] ^= 1 << (bit % 8)
    return bytes(x)


# =========================================================================== C03
class C03(Prop):
    id = "C03"
    rule = ("cases: authentic files (produced by the implementation) mutated by every single-bit flip, truncation at "
            "every offset, appended bytes/records, and every sequence of <=4 records drawn from two files, at chunk "
            "size 2/3 through the chunk hooks, plus key/password files at the production chunk size; header sweep "
            "(implementation + direct oracle, not sent to the model): on small key-mode and password-mode files EVERY "
            "single-bit flip of every header byte (1056 / 288 bits), every proper prefix, extensions, sampled "
            "(thorough: all) bit flips of the chunk section; files of >= 4 chunks of EQUAL length (full chunks, and short "
            "ones from a source that hands out equal pieces; chunk hooks, key mode and password mode, also 3*65536+r bytes at "
            "the production chunk size): every bit of every chunk's 16-byte header flipped and the flag field of the middle "
            "chunks rewritten (password mode / production size: all flag bits, sampled length and counter bits); command "
            "line: `kestrel decrypt` / `kestrel password decrypt` on small files made by the library and by the program with "
            "one bit flipped (every bit of the first 36 bytes, the magic through file argument AND stdin, one bit of every "
            "other header byte, sampled chunk bits; thorough: every bit both ways), must exit 1 and release nothing; whole-record edits "
            "(delete / duplicate / triple / copy to either end / swap / rotate EVERY record, drop the first or last k, append) of files of "
            "every chunk layout (empty plaintext, one short chunk, full chunks, short NON-final chunks first / middle / everywhere; chunk hooks "
            "with the model, key and password files with the direct oracle); every proper prefix of files SEARCHED among thousands so that "
            "the final tag ends in bytes a reused buffer would hold anyway (zero, 0xff, the preceding record's body or plaintext); a case is "
            "non-trivial when it is not the unmodified authentic file; distinct = distinct driver command lines")
    assumptions = ["no-forgery-in-run premise (INT-CTXT of ChaCha20-Poly1305 idealised, DESIGN section 4)",
                   "AEAD correctness laws aead_ok are proved for the Gallina RFC 8439 instance"]

    def expect(self, P, kind, base_ok=True):
        def f(r):
            if r["code"] == 1 or r["code"] >= 900:
                return ("error value or success, never a panic/abort", r["outcome"])
            if r["code"] == 0 and r["out"] != P:
                return ("accepted => output equals the complete plaintext %s" % P.hex(), "ok out=" + r["out"].hex())
            if kind == "must_reject" and r["code"] == 0:
                return ("this modification must be rejected", "ok out=" + r["out"].hex())
            if kind == "must_accept" and not (r["code"] == 0 and r["out"] == P):
                return ("unmodified / counter-field-only change decrypts to the plaintext", r["outcome"])
            if not P.startswith(r["out"]):
                return ("whatever the outcome, released bytes are a prefix of the plaintext", "out=" + r["out"].hex())
            return None
        return f

    def chunk_stream(self, ctx, full):
        rng = ctx.rng
        cases = []
        for cs in ([2, 3] if full else [2]):
            key = ctx.rbytes(32)
            aad = rng.choice([b"", b"egk\x20"])
            pts = [b"", b"a", ctx.rbytes(cs), ctx.rbytes(cs + 1), ctx.rbytes(2 * cs), ctx.rbytes(2 * cs + 1),
                   ctx.rbytes(2 * cs + 1), ctx.rbytes(cs + 2)]
            # the last two are read in short pieces, so that NON-final chunks are shorter than the chunk size
            rsl = ["-"] * 6 + ["c1,c%d,c%d" % (cs, cs), "c1,c1,c%d" % cs]
            files, _ = authentic_chunks(ctx, key, aad, cs, pts, rsl)
            mk = lambda data, P, kind, tags: Case("dec_chunks", key=key, aad=aad, cs=cs, data=data,
                                                   oracle=self.expect(P, kind), tags=tags)
            for P, F in zip(pts, files):
                cases.append(mk(F, P, "must_accept", ["authentic", "trivial"]))
            # bit flips / truncations / extensions on selected files
            sel = [1, 3, 5, 6, 7] if full else [3, 6]
            for idx in sel:
                P, F = pts[idx], files[idx]
                recs = records(F)
                counter_bytes = set()
                off = 0
                for r in recs:
                    counter_bytes.update(range(off, off + 8))
                    off += len(r)
                for bit in range(len(F) * 8):
                    if bit // 8 in counter_bytes:
                        cases.append(mk(flip(F, bit), P, "must_accept", ["flip-counter"]))
                    else:
                        cases.append(mk(flip(F, bit), P, "must_reject", ["flip"]))
                for n in range(len(F)):
                    cases.append(mk(F[:n], P, "must_reject", ["truncate"]))
                cases.append(mk(F + b"\x00", P, "must_reject", ["extend"]))
                cases.append(mk(F + recs[-1], P, "must_reject", ["extend-record"]))
                cases.append(mk(F + F, P, "must_reject", ["extend-file"]))
            # rearrangements of records from two files
            key2 = ctx.rbytes(32)
            files2, _ = authentic_chunks(ctx, key2, aad, cs, [pts[4]])
            A, B = records(files[5]), records(files2[0])
            pool = A + B
            PA = pts[5]
            import itertools
            maxlen = 4 if full else 3
            for n in range(1, maxlen + 1):
                for combo in itertools.product(range(len(pool)), repeat=n):
                    data = b"".join(pool[i] for i in combo)
                    if list(combo) == list(range(len(A))):
                        continue
                    cases.append(mk(data, PA, "any", ["rearrange"]))
            # cut at a record boundary and append a FORGED empty final record (counter j, flag 1, length 0, junk tag)
            for idx in (5, 6, 4):
                recs = records(files[idx])
                for j in range(0, len(recs)):
                    forged = j.to_bytes(8, "big") + (1).to_bytes(4, "big") + (0).to_bytes(4, "big") + ctx.rbytes(16)
                    cases.append(mk(b"".join(recs[:j]) + forged, pts[idx], "must_reject", ["forged-empty-final"]))
            # length-field edits
            F, P = files[3], pts[3]
            for v in (0, 1, cs, cs + 1, 2 ** 31, 2 ** 32 - 1):
                x = bytearray(F)
                x[12:16] = v.to_bytes(4, "big")
                if bytes(x) != F:
                    cases.append(mk(bytes(x), P, "must_reject", ["len-edit"]))
        return cases

    def file_stream(self, ctx, full):
        rng = ctx.rng
        cases = []
        # password mode at the production chunk size
        pw, salt = b"hackme", ctx.rbytes(32)
        P = ctx.rbytes(40)
        e = Case("pass_enc", pw=pw, salt=salt, data=P)
        s_, r_ = ctx.rbytes(32), ctx.rbytes(32)
        k1 = [Case("xpub", k=s_), Case("xpub", k=r_), e]
        vlib.run_impl(ctx.bin, k1)
        spk, rpk, F = k1[0].result["out"], k1[1].result["out"], k1[2].result["out"]
        mkp = lambda data, kind, tags: Case("pass_dec", pw=pw, data=data, oracle=self.expect(P, kind), tags=tags)
        cases.append(mkp(F, "must_accept", ["authentic", "trivial"]))
        bits = list(range(len(F) * 8))
        ctr = set(range(36, 44))
        pick = bits if full else rng.sample(bits, 40) + [0, 31, 32 * 8, 36 * 8, 44 * 8, 48 * 8]
        for bit in pick:
            kind = "must_accept" if bit // 8 in ctr else "must_reject"
            cases.append(mkp(flip(F, bit), kind, ["flip-pass"]))
        for n in ([0, 3, 4, 35, 36, 51, 52, len(F) - 1] if not full else range(len(F))):
            cases.append(mkp(F[:n], "must_reject", ["truncate-pass"]))
        cases.append(mkp(F + b"x", "must_reject", ["extend-pass"]))
        # key mode: two files to the same recipient, header splices
        eph1, eph2, pk1, pk2 = ctx.rbytes(32), ctx.rbytes(32), ctx.rbytes(32), ctx.rbytes(32)
        P1, P2 = ctx.rbytes(33), ctx.rbytes(17)
        k2 = [Case("xpub", k=eph1), Case("xpub", k=eph2)]
        vlib.run_impl(ctx.bin, k2)
        k3 = [Case("key_enc", s=s_, spk=spk, r=rpk, e=eph1, epk=k2[0].result["out"], pk=pk1, data=P1),
              Case("key_enc", s=s_, spk=spk, r=rpk, e=eph2, epk=k2[1].result["out"], pk=pk2, data=P2)]
        vlib.run_impl(ctx.bin, k3)
        F1, F2 = k3[0].result["out"], k3[1].result["out"]
        mkk = lambda data, P, kind, tags: Case("key_dec", r=r_, rpk=rpk, data=data, oracle=self.expect(P, kind), tags=tags)
        cases.append(mkk(F1, P1, "must_accept", ["authentic", "trivial"]))
        cases.append(mkk(F2, P2, "must_accept", ["authentic", "trivial"]))
        parts1 = [F1[0:4], F1[4:36], F1[36:84], F1[84:132], F1[132:]]
        parts2 = [F2[0:4], F2[4:36], F2[36:84], F2[84:132], F2[132:]]
        import itertools
        for sel in itertools.product([0, 1], repeat=4):
            if sum(sel) in (0, 4):
                continue
            data = parts1[0] + b"".join((parts2 if s else parts1)[i + 1] for i, s in enumerate(sel))
            cases.append(mkk(data, P1, "must_reject", ["splice"]))
        bits = list(range(132 * 8, len(F1) * 8))
        hb = list(range(0, 132 * 8))
        pick = (hb + bits) if full else rng.sample(hb, 24) + rng.sample(bits, 12)
        ctr = set(range(132, 140))
        for bit in pick:
            kind = "must_accept" if bit // 8 in ctr else "must_reject"
            cases.append(mkk(flip(F1, bit), P1, kind, ["flip-key"]))
        for n in ([0, 4, 36, 131, 132, 148, len(F1) - 1] if not full else range(len(F1))):
            cases.append(mkk(F1[:n], P1, "must_reject", ["truncate-key"]))
        # magic swap between modes
        cases.append(mkk(F, P1, "must_reject", ["wrong-mode"]))
        cases.append(mkp(F1, "must_reject", ["wrong-mode"]))
        return cases

    def cases(self, ctx):
        return self.chunk_stream(ctx, ctx.thorough()) + self.file_stream(ctx, ctx.thorough())

    def search_cases(self, ctx):
        if ctx.thorough():
            return []
        c2 = Ctx(ctx.pid, "thorough", ctx.seed + 1)
        c2.bin = ctx.bin
        return self.chunk_stream(c2, True) + self.file_stream(c2, True)

    # ---- exhaustive header sweep on small production-format files (direct oracle; too many key-mode cases for the
    # Gallina X25519, so these are not sent to the model: the sampled flips of file_stream are)
    def header_sweep(self, ctx, full):
        """small authentic key-mode and password-mode files through the public API: EVERY single-bit flip of EVERY header
        byte (key mode: magic 4 + ephemeral key 32 + encrypted static key 48 + encrypted payload key 48 = 1056 bits;
        password mode: magic 4 + salt 32 = 288 bits), every proper prefix, and sampled (thorough: all) single-bit flips
        of the chunk section; several files so that plaintext length 0 and both key roles vary"""
        rng = ctx.rng
        cases = []
        # key mode
        nk = 3 if full else 2
        kp = keypairs(ctx, 2 + 2 * nk)
        (s_, spk), (r_, rpk) = kp[0], kp[1]
        plan = []
        for i in range(nk):
            (e, epk) = kp[2 + i]
            # the second file is sent by another key pair to the same recipient; the first plaintext is empty
            (ss, sspk) = (s_, spk) if i != 1 else kp[2 + nk]
            P = b"" if i == 0 else ctx.rbytes(rng.randrange(1, 24))
            plan.append((P, Case("key_enc", s=ss, spk=sspk, r=rpk, e=e, epk=epk, pk=ctx.rbytes(32), data=P)))
        vlib.run_impl(ctx.bin, [c for _, c in plan])
        for P, enc in plan:
            if enc.result["code"] != 0:
                cases.append(Case("key_enc", oracle=ok_only("honest key encryption succeeds"), tags=["sweep-enc"], **dict(enc.a)))
                continue
            F = enc.result["out"]
            mk = lambda data, kind, tags, P=P: Case("key_dec", r=r_, rpk=rpk, data=data, oracle=self.expect(P, kind), tags=tags)
            cases.append(mk(F, "must_accept", ["authentic", "trivial"]))
            ctr = set(range(132, 140))
            for bit in range(132 * 8):
                cases.append(mk(flip(F, bit), "must_reject", ["hdr-sweep-key"]))
            body = list(range(132 * 8, len(F) * 8))
            for bit in (body if full else rng.sample(body, min(len(body), 96))):
                cases.append(mk(flip(F, bit), "must_accept" if bit // 8 in ctr else "must_reject", ["body-flip-key"]))
            for n in range(len(F)):
                cases.append(mk(F[:n], "must_reject", ["prefix-sweep-key"]))
            for extra in (b"\x00", F[132:], ctx.rbytes(rng.randrange(1, 40))):
                cases.append(mk(F + extra, "must_reject", ["extend-sweep-key"]))
        # password mode (every case that keeps the 36 header bytes costs one scrypt: one file, short plaintext)
        for i in range(2 if full else 1):
            pw = rng.choice(PASSWORDS[1:])
            P = ctx.rbytes(rng.randrange(0, 6))
            enc = Case("pass_enc", pw=pw, salt=ctx.rbytes(32), data=P)
            vlib.run_impl(ctx.bin, [enc])
            if enc.result["code"] != 0:
                cases.append(Case("pass_enc", oracle=ok_only("honest password encryption succeeds"), tags=["sweep-enc"], **dict(enc.a)))
                continue
            F = enc.result["out"]
            mkp = lambda data, kind, tags, P=P, pw=pw: Case("pass_dec", pw=pw, data=data, oracle=self.expect(P, kind), tags=tags)
            cases.append(mkp(F, "must_accept", ["authentic", "trivial"]))
            ctr = set(range(36, 44))
            for bit in range(36 * 8):
                cases.append(mkp(flip(F, bit), "must_reject", ["hdr-sweep-pass"]))
            body = list(range(36 * 8, len(F) * 8))
            for bit in (body if full else rng.sample(body, min(len(body), 48))):
                cases.append(mkp(flip(F, bit), "must_accept" if bit // 8 in ctr else "must_reject", ["body-flip-pass"]))
            for n in range(len(F)):
                cases.append(mkp(F[:n], "must_reject", ["prefix-sweep-pass"]))
            cases.append(mkp(F + b"\x00", "must_reject", ["extend-sweep-pass"]))
            cases.append(mkp(F + F[36:], "must_reject", ["extend-sweep-pass"]))
        return cases

    def run_direct_par(self, ctx, cases, max_report=8):
        """implementation + direct oracle only, the cases spread over VERIF_JOBS driver processes"""
        if not cases:
            return
        from concurrent.futures import ThreadPoolExecutor
        n = max(1, min(vlib.NPROC, len(cases) // 16))
        shards = [cases[i::n] for i in range(n)]
        with ThreadPoolExecutor(max_workers=n) as ex:
            list(ex.map(lambda sh_: vlib.run_impl(ctx.bin, sh_), shards))
        ctx.evaluations += len(cases)
        dist = collections.Counter(ctx.distribution)
        seen = set()
        reported = 0
        for c in cases:
            dist["op:" + c.op] += 1
            for t in c.tags:
                dist["tag:" + t] += 1
            line = c.rust_line().split(" ", 1)[1]
            if line not in seen:
                seen.add(line)
                if "trivial" not in c.tags:
                    ctx.distinct_nontrivial += 1
            if c.expect_fn is not None:
                ctx.oracle_checks += 1
                msg = c.expect_fn(c.result)
                if msg:
                    dist["sweep-violations"] += 1
                    if reported < max_report:
                        reported += 1
                        d = c.full()
                        d["tags"] = list(c.tags)
                        ctx.violations.append({"input": d, "expected": msg[0], "observed": msg[1], "finding_key": None})
        ctx.distribution = dict(dist)

    def explore(self, ctx):
        super().explore(ctx)
        self.run_direct_par(ctx, self.header_sweep(ctx, ctx.thorough()))
        # every header-field bit of EVERY chunk of files with >= 4 chunks of equal length (a chunk that is neither the
        # first nor the last and announces the length of its predecessor), chunk hooks + both file modes
        em, ed = c03_equal_chunk_stream(self, ctx, ctx.thorough())
        self.run_cases(ctx, em, model=True)
        self.run_direct_par(ctx, ed + c03_equal_chunk_files(self, ctx, ctx.thorough()))
        # whole-record edits (delete / duplicate / swap EVERY record, the first and the last too) of files of every chunk layout
        self.run_cases(ctx, r1_c03_record_edit_cases(self, ctx, ctx.thorough()), model=True)
        # every proper prefix of files whose final tag ends in bytes a reused buffer would hold anyway (searched among many files)
        tm, td = r1_c03_tag_tail_cases(self, ctx, ctx.thorough())
        self.run_cases(ctx, tm, model=True)
        self.run_direct_par(ctx, td + r1_c03_record_edit_files(self, ctx, ctx.thorough()))
        # the same statement at the command line: `kestrel decrypt` / `kestrel password decrypt` on damaged files
        if os.path.exists(vlib.CLIDRV):
            c03_cli_tamper(self, ctx)
        else:
            ctx.broken.append({"kind": "correspondence", "what": "clidrv was not built: command-line half of C03 not checked"})

    def replay(self, ctx, payload):
        if payload.get("input", {}).get("kind") == "proc":
            import props_cli
            return props_cli.k_replay(ctx, payload)
        return super().replay(ctx, payload)


# ---- C03: per-chunk header fields of every chunk of many-chunk files
def c03_header_bits(F, off=0):
    """[(chunk index, bit offset in F, field)] for every bit of every 16-byte chunk header of the chunk section F[off:]"""
    out = []
    pos = off
    for ci, rec in enumerate(records(F, off)):
        for b in range(128):
            out.append((ci, pos * 8 + b, "counter" if b < 64 else ("flag" if b < 96 else "length")))
        pos += len(rec)
    return out


def c03_equal_chunk_stream(self, ctx, full):
    """chunk hooks, tiny chunk sizes: files of 4 full chunks (the last one full and final), of 4 full chunks + a short
    final one, and of 4 equal chunks SHORTER than the chunk size (short reads) + final; every bit of every chunk header
    flipped.  Returns (cases for the model: flag and length fields of every chunk of one file per chunk size,
    cases for the direct oracle only: everything else)."""
    rng = ctx.rng
    model, direct = [], []
    for cs in ([2, 3, 5] if full else [rng.choice([2, 3])]):
        key = ctx.rbytes(32)
        pick = (rng.randrange(2), rng.randrange(2))     # quick: the file whose flag flips the model sees too (4 / 5 chunks)
        for ai, aad in enumerate([b"", b"egk\x20"]):
            k = rng.randrange(4, 7) if (full or ai != pick[0]) else 4
            pts = [ctx.rbytes(k * cs), ctx.rbytes(k * cs + rng.randrange(1, cs)), ctx.rbytes(4 * (cs - 1) + 1), ctx.rbytes(5)]
            rsl = ["-", "-", ",".join(["c%d" % (cs - 1)] * 4), "c1,c1,c1,c1,c1"]
            files, encs = authentic_chunks(ctx, key, aad, cs, pts, rsl)
            for fi, (P, F, e) in enumerate(zip(pts, files, encs)):
                if e.result["code"] != 0:
                    direct.append(Case("enc_chunks", oracle=ok_only("honest chunk encryption succeeds"), tags=["eqchunk-enc"], **dict(e.a)))
                    continue
                mk = lambda data, kind, tags, P=P: Case("dec_chunks", key=key, aad=aad, cs=cs, data=data,
                                                         oracle=self.expect(P, kind), tags=tags)
                to_model = (ai, fi) == pick or full
                (model if to_model else direct).append(mk(F, "must_accept", ["authentic", "trivial"]))
                hb = c03_header_bits(F)
                lsel = set(b for _, b, f_ in hb if f_ == "length") if full else \
                    set(b for ci in range(len(records(F))) for b in rng.sample([b for c_, b, f_ in hb if c_ == ci and f_ == "length"], 4))
                for ci, bit, field in hb:
                    c = mk(flip(F, bit), "must_accept" if field == "counter" else "must_reject", ["eqchunk-" + field, "chunk=%d" % min(ci, 9)])
                    (model if (to_model and (field == "flag" or bit in lsel)) else direct).append(c)
                # the flag field REWRITTEN (not just one bit) in a middle chunk
                recs = records(F)
                for ci in range(1, len(recs) - 1):
                    pos = sum(len(x) for x in recs[:ci])
                    for v in (2, 3, 0x100, 0x80000001, rng.getrandbits(32) | 2):
                        x = bytearray(F)
                        x[pos + 8:pos + 12] = v.to_bytes(4, "big")
                        (model if to_model else direct).append(mk(bytes(x), "must_reject", ["eqchunk-flag-value"]))
    return model, direct


def c03_equal_chunk_files(self, ctx, full):
    """both file modes through the public API (direct oracle): small files whose chunks are equal and short because the
    source handed the plaintext out in equal pieces, and files of 3*65536 + r bytes (three equal full chunks at the
    production chunk size + final).  Key mode: every header bit of every chunk (small), every flag bit + sampled
    length/counter bits of every chunk (production size).  Password mode (one scrypt per case): flag and length fields of
    every chunk (small); sampled flag bits of every chunk (production size; thorough: all)."""
    rng = ctx.rng
    cases = []
    (s_, spk), (r_, rpk), (e, epk) = keypairs(ctx, 3)
    pw = rng.choice(PASSWORDS[1:])

    def enc_key(P, rs):
        return Case("key_enc", s=s_, spk=spk, r=rpk, e=e, epk=epk, pk=ctx.rbytes(32), data=P, rs=rs)

    def enc_pass(P, rs):
        return Case("pass_enc", pw=pw, salt=ctx.rbytes(32), data=P, rs=rs)
    L = rng.randrange(1, 10)
    L2 = rng.randrange(1, 10)
    plan = [("key", "small", enc_key(ctx.rbytes(4 * L + rng.randrange(1, L + 1)), ",".join(["c%d" % L] * 4))),
            ("key", "small", enc_key(ctx.rbytes(5 * L2), ",".join(["c%d" % L2] * 5))),
            ("pass", "small", enc_pass(ctx.rbytes(4 * L + rng.randrange(0, L + 1)), ",".join(["c%d" % L] * 4))),
            ("key", "big", enc_key(ctx.rbytes(3 * BIG + rng.randrange(1, 200)), "-")),
            ("pass", "big", enc_pass(ctx.rbytes(3 * BIG + rng.randrange(1, 200)), "-"))]
    if full:
        plan.append(("key", "big", enc_key(ctx.rbytes(4 * BIG), "-")))
        plan.append(("pass", "small", enc_pass(ctx.rbytes(5 * L2), ",".join(["c%d" % L2] * 5))))
    vlib.run_impl(ctx.bin, [c for _, _, c in plan])
    for mode, size, enc in plan:
        if enc.result["code"] != 0:
            cases.append(Case(enc.op, oracle=ok_only("honest encryption succeeds"), tags=["eqfile-enc"], **dict(enc.a)))
            continue
        P, F = enc.a["data"], enc.result["out"]
        if mode == "key":
            mk = lambda data, kind, tags, P=P: Case("key_dec", r=r_, rpk=rpk, data=data, oracle=self.expect(P, kind), tags=tags)
            off = 132
        else:
            mk = lambda data, kind, tags, P=P, pw_=enc.a["pw"]: Case("pass_dec", pw=pw_, data=data, oracle=self.expect(P, kind), tags=tags)
            off = 36
        cases.append(mk(F, "must_accept", ["authentic", "trivial"]))
        bits = c03_header_bits(F, off)
        if not full:
            if mode == "key" and size == "big":
                bits = [b for b in bits if b[2] == "flag"] + rng.sample([b for b in bits if b[2] == "length"], 24) \
                    + rng.sample([b for b in bits if b[2] == "counter"], 8)
            elif mode == "pass" and size == "small":
                bits = [b for b in bits if b[2] == "flag"] + rng.sample([b for b in bits if b[2] == "length"], 40) \
                    + rng.sample([b for b in bits if b[2] == "counter"], 6)
            elif mode == "pass" and size == "big":
                fl = [b for b in bits if b[2] == "flag"]
                # of every chunk: the lowest flag bit, the bit above it, and four others
                bits = []
                nchunks = max(b[0] for b in fl) + 1
                for ci in range(nchunks):
                    mine = [b for b in fl if b[0] == ci]
                    bits += [mine[24], mine[25]] + rng.sample(mine, 4)   # byte 3 of the field holds bits 0..7 of the value
        for ci, bit, field in bits:
            cases.append(mk(flip(F, bit), "must_accept" if field == "counter" else "must_reject",
                            ["eqfile-%s-%s-%s" % (mode, size, field), "chunk=%d" % min(ci, 9)]))
        # flag field rewritten in the middle chunks
        recs = records(F, off)
        for ci in range(1, len(recs) - 1):
            pos = off + sum(len(x) for x in recs[:ci])
            for v in ([2, rng.getrandbits(32) | 2] if (mode == "pass" or size == "big") else [2, 3, 0x100, 0x80000001, rng.getrandbits(32) | 2]):
                x = bytearray(F)
                x[pos + 8:pos + 12] = v.to_bytes(4, "big")
                cases.append(mk(bytes(x), "must_reject", ["eqfile-%s-%s-flag-value" % (mode, size)]))
    return cases


def c03_cli_tamper(self, ctx):
    """C03 through the real program: small authentic key-mode and password-mode files (made by the library AND by
    `kestrel encrypt` / `kestrel password encrypt` themselves), one bit changed, handed to `kestrel decrypt` /
    `kestrel password decrypt` as a file argument or on standard input, output to -o FILE or to standard output.
    Every change outside the 8-byte counter field: exit status 1 and not one byte released (no output file or an empty
    one, nothing on stdout); a change inside the counter field and the unchanged file: exit 0 and exactly the plaintext.
    quick: every bit of the first 36 bytes of both kinds of file (magic + ephemeral key / salt; the 32 magic bits through
    BOTH entry points), one random bit of each of the other 96 key-mode header bytes, sampled bits of the chunk section;
    thorough: every bit of the 132 / 36 header bytes through both entry points, every bit of the chunk section.  Also bytes
    put before the magic or after the last record (newline, CR LF, NUL, blank, ^Z, BOM, random) and cuts (sampled lengths;
    thorough: every length): all refused."""
    import props_cli as pc
    from concurrent.futures import ThreadPoolExecutor
    rng = ctx.rng
    full = ctx.thorough()
    (a, A), (b, B) = keypairs(ctx, 2)
    EA, EB = [vlib.unhex(r_.get("out", "-")) for r_ in pc.cli_ops(["pk_encode " + vlib.hexs(x) for x in (A, B)])]
    pw = rng.choice([b"pw-bob", "böb ✓".encode("utf-8"), b"x"])
    ppw = rng.choice([b"hackme", "pässwörd".encode("utf-8"), b"a", b"trail "])
    locked_a, locked_b = pc.lock_keys([(a, pw, ctx.rbytes(32)), (b, pw, ctx.rbytes(32))])
    P1, P2 = ctx.rbytes(rng.randrange(1, 60)), ctx.rbytes(rng.randrange(0, 60))
    (e, epk), = keypairs(ctx, 1)
    libs = [Case("key_enc", s=a, spk=A, r=B, e=e, epk=epk, pk=ctx.rbytes(32), data=P1),
            Case("pass_enc", pw=ppw, salt=ctx.rbytes(32), data=P2)]
    vlib.run_impl(ctx.bin, libs)
    w = pc.World(prefix="kv_c03_")
    nviol = [0]

    def viol(scenario, runs, expected, observed):
        nviol[0] += 1
        ctx.distribution["c03cli:violations"] = ctx.distribution.get("c03cli:violations", 0) + 1
        if nviol[0] <= 8:
            ctx.violations.append({"input": {"kind": "proc", "scenario": scenario, "commands": [r_.describe() for r_ in runs]},
                                   "expected": expected, "observed": observed, "finding_key": None})
    try:
        w.write("kr", pc.key_block(b"alice", EA, locked_a) + b"\n" + pc.key_block(b"bob", EB, locked_b))
        w.write("pt1", P1)
        w.write("pt2", P2)
        bases = {"key": [], "pass": []}
        for c_, mode, P in ((libs[0], "key", P1), (libs[1], "pass", P2)):
            if c_.result["code"] == 0:
                bases[mode].append(("library", c_.result["out"], P))
            else:
                ctx.violations.append({"input": c_.full(), "expected": "honest encryption succeeds", "observed": c_.result["outcome"], "finding_key": None})
        r1 = w.run(["encrypt", "pt1", "-t", "bob", "-f", "alice", "-o", "ct1", "-k", "kr", "--env-pass"], env=pc.env_pw(pw))
        r2 = w.run(["password", "encrypt", "pt2", "-o", "ct2", "--env-pass"], env=pc.env_pw(ppw))
        for run, mode, name, P in ((r1, "key", "ct1", P1), (r2, "pass", "ct2", P2)):
            F = w.read(name)
            if run.rc == 0 and F:
                bases[mode].append(("kestrel", F, P))
            else:
                viol("setup: the program encrypts a %d-byte file (%s mode)" % (len(P), mode), [run], "exit 0 and an output file", "exit %d" % run.rc)
        jobs = []

        def add(mode, bit, entry=None, outm=None, edit=None):
            # edit: None (flip `bit`, or nothing when bit is None) | ("append", bytes) | ("prepend", bytes) | ("cut", n)
            if not bases[mode]:
                return
            maker, F, P = rng.choice(bases[mode])
            hdr = 132 if mode == "key" else 36
            if bit is not None and bit >= len(F) * 8:
                return
            accept = edit is None and (bit is None or hdr <= bit // 8 < hdr + 8)
            jobs.append({"i": len(jobs), "mode": mode, "maker": maker, "F": F, "P": P, "bit": bit, "accept": accept, "edit": edit,
                         "entry": entry or rng.choice(["file", "stdin"]), "outm": outm or rng.choice(["-o", "-o", "stdout"])})
        for mode in ("key", "pass"):
            hdr = 132 if mode == "key" else 36
            for entry in ("file", "stdin"):
                for outm in ("-o", "stdout"):
                    add(mode, None, entry, outm)
            for bit in range(32):
                add(mode, bit, "file")
                add(mode, bit, "stdin")
            if full:
                for bit in range(32, hdr * 8):
                    add(mode, bit, "file")
                    add(mode, bit, "stdin")
            else:
                for bit in range(32, 36 * 8):
                    add(mode, bit)
                for byte in range(36, hdr):
                    add(mode, byte * 8 + rng.randrange(8))
            flen = min(len(F) for _, F, _ in bases[mode]) if bases[mode] else 0
            body = list(range(hdr * 8, flen * 8))
            if not full and body:
                body = rng.sample(body[:64], 2) + rng.sample(body[64:96], 3) + rng.sample(body[96:128], 3) \
                    + rng.sample(body[128:], min(8, len(body[128:])))
            for bit in body:
                add(mode, bit)
            # bytes a front end might skip or trim: something before the magic, something after the last record, a shorter file
            for entry in ("file", "stdin"):
                for x in [b"\n", b"\r\n", b"\x00", b" ", b"\x1a", ctx.rbytes(rng.randrange(1, 40))]:
                    add(mode, None, entry, edit=("append", x))
                for x in [b"\n", b"\xef\xbb\xbf", b" ", b"\x00", ctx.rbytes(rng.randrange(1, 8))]:
                    add(mode, None, entry, edit=("prepend", x))
                for n in sorted(set([0, 1, 3, 4, 5, 35, 36, hdr - 1, hdr, hdr + 16, flen - 17, flen - 16, flen - 1]
                                    + ([] if not full else list(range(flen))))):
                    if 0 <= n < flen:
                        add(mode, None, entry, edit=("cut", n))

        def tampered(j):
            if j["edit"] is None:
                return j["F"] if j["bit"] is None else flip(j["F"], j["bit"])
            k, x = j["edit"]
            return j["F"] + x if k == "append" else (x + j["F"] if k == "prepend" else j["F"][:x])

        def one(j):
            data = tampered(j)
            argv = ["decrypt"] if j["mode"] == "key" else ["password", "decrypt"]
            tin, tout = "t_%d" % j["i"], "o_%d" % j["i"]
            if j["entry"] == "file":
                w.write(tin, data)
                argv.append(tin)
            if j["mode"] == "key":
                argv += ["-t", "bob", "-k", "kr"]
            if j["outm"] == "-o":
                argv += ["-o", tout]
            argv.append("--env-pass")
            run = w.run(argv, env=pc.env_pw(pw if j["mode"] == "key" else ppw), stdin=(data if j["entry"] == "stdin" else None))
            got = w.read(tout) if j["outm"] == "-o" else run.out
            for n_ in (tin, tout):
                try:
                    os.unlink(w.p(n_))
                except OSError:
                    pass
            return run, got
        with ThreadPoolExecutor(max_workers=vlib.NPROC) as ex:
            res = list(ex.map(one, jobs))
        for j, (run, got) in zip(jobs, res):
            ctx.evaluations += 1
            ctx.oracle_checks += 1
            if j["bit"] is not None or j["edit"] is not None:
                ctx.distinct_nontrivial += 1
            hdr = 132 if j["mode"] == "key" else 36
            where = j["edit"][0] if j["edit"] else ("unchanged" if j["bit"] is None else
                                                    ("header" if j["bit"] // 8 < hdr else ("counter" if j["accept"] else "chunk")))
            tag = "c03cli:%s-%s-%s" % (j["mode"], where, j["entry"])
            ctx.distribution[tag] = ctx.distribution.get(tag, 0) + 1
            scen = ("%s-mode file of a %d-byte plaintext written by the %s (%d bytes: %s), %s, given to `kestrel %s` %s, output to %s"
                    % (j["mode"], len(j["P"]), j["maker"], len(j["F"]), j["F"].hex(),
                       ("%s %s" % (j["edit"][0], j["edit"][1].hex() if isinstance(j["edit"][1], bytes) else "to %d bytes" % j["edit"][1])) if j["edit"]
                       else ("unchanged" if j["bit"] is None else "bit %d of byte %d flipped" % (j["bit"] % 8, j["bit"] // 8)),
                       "decrypt" if j["mode"] == "key" else "password decrypt",
                       "as a file argument" if j["entry"] == "file" else "on standard input",
                       "-o FILE" if j["outm"] == "-o" else "standard output"))
            released = got or b""
            if j["accept"]:
                if run.rc != 0 or released != j["P"]:
                    viol(scen, [run], "the unchanged file / a change confined to the advisory counter field decrypts: exit 0 and exactly the plaintext",
                         "exit %d, %d bytes released%s" % (run.rc, len(released), "" if released == j["P"] else " (not the plaintext)"))
            elif run.rc == 0:
                viol(scen, [run], "this change is rejected: exit 1, nothing released",
                     "exit 0, output %s" % ("equals the plaintext" if released == j["P"] else released[:64].hex()))
            elif run.rc != 1:
                viol(scen, [run], "a damaged file is refused with the error exit status 1 (no crash)", "exit %d: %s" % (run.rc, run.errtext()[-200:]))
            elif released or (j["outm"] == "-o" and run.out):
                viol(scen, [run], "a file whose only chunk does not verify releases nothing",
                     "exit 1, released %s, stdout %s" % (released[:64].hex() or "-", run.out[:64].hex() or "-"))
            elif len(ctx.samples) < 10 and not j["accept"] and rng.random() < 0.01:
                ctx.samples.append({"scenario": scen[:300], "exit": run.rc, "stderr": run.errtext()[-120:]})
    finally:
        w.close()


# ---- C03: edits of whole records of files with EVERY chunk layout; truncation inside a tag whose tail equals leftover bytes
def r1_c03_record_edits(recs):
    """[(label, record list)]: every deletion of one record (the first and the last too), of the first k and the last k records,
    every duplication (in place, at the front, at the end), every swap of two records, every rotation; plus extensions"""
    n = len(recs)
    out = []
    for i in range(n):
        out.append(("record %d of %d deleted" % (i + 1, n), recs[:i] + recs[i + 1:]))
        out.append(("record %d of %d duplicated" % (i + 1, n), recs[:i + 1] + recs[i:]))
        out.append(("record %d of %d repeated 3 times" % (i + 1, n), recs[:i + 1] + [recs[i]] * 2 + recs[i + 1:]))
        out.append(("record %d of %d copied to the end" % (i + 1, n), recs + [recs[i]]))
        out.append(("record %d of %d copied to the front" % (i + 1, n), [recs[i]] + recs))
        for j in range(i + 1, n):
            out.append(("records %d and %d of %d swapped" % (i + 1, j + 1, n), recs[:i] + [recs[j]] + recs[i + 1:j] + [recs[i]] + recs[j + 1:]))
    for k in range(1, n):
        out.append(("first %d of %d records deleted" % (k, n), recs[k:]))
        out.append(("last %d of %d records deleted" % (k, n), recs[:n - k]))
        out.append(("records rotated by %d" % k, recs[k:] + recs[:k]))
    out.append(("one zero byte appended", recs + [b"\x00"]))
    out.append(("the whole chunk section appended again", recs + recs))
    return out


def r1_c03_layouts(rng, cs):
    """(plaintext length, read script) of chunk layouts: empty plaintext (one empty final chunk), one short chunk, full chunks
    with a full / a short final chunk, SHORT non-final chunks (a source that hands out short pieces) first, in the middle,
    everywhere, equal short chunks"""
    lay = [(0, "-"), (1, "-"), (cs, "-"), (cs + 1, "-"), (2 * cs, "-"), (3 * cs + rng.randrange(1, cs + 1), "-")]
    short = lambda: rng.randrange(1, cs)
    for parts in ([short(), cs], [short(), cs, cs], [cs, short(), cs], [short(), short(), short()], [1, 1, 1, 1], [short(), cs, short(), cs, 1],
                  [cs - 1] * 3 + [cs], [short()] * 2):
        tail = rng.choice([0, 0, 1])            # 0: the last piece is the final chunk
        lay.append((sum(parts) + tail, script_of(parts)))
    return lay


def r1_c03_record_edit_cases(self, ctx, full):
    """chunk hooks: authentic files of every chunk layout (r1_c03_layouts), every whole-record edit (r1_c03_record_edits) of each:
    all must be rejected (the edited file is never the authentic one), whatever is released is a prefix of the plaintext"""
    rng = ctx.rng
    cases = []
    for cs in ([2, 3, 5] if full else [rng.choice([3, 4, 5])]):
        key = ctx.rbytes(32)
        aad = rng.choice([b"", b"egk\x20"])
        lay = r1_c03_layouts(rng, cs)
        pts = [ctx.rbytes(n) for n, _ in lay]
        files, encs = authentic_chunks(ctx, key, aad, cs, pts, [rs for _, rs in lay])
        for P, F, e in zip(pts, files, encs):
            if e.result["code"] != 0:
                cases.append(Case("enc_chunks", oracle=ok_only("honest chunk encryption succeeds"), tags=["recedit-enc"], **dict(e.a)))
                continue
            mk = lambda data, kind, tags, P=P: Case("dec_chunks", key=key, aad=aad, cs=cs, data=data,
                                                     oracle=self.expect(P, kind), tags=tags)
            cases.append(mk(F, "must_accept", ["authentic", "trivial"]))
            recs = records(F)
            seen = {F}
            for label, rl in r1_c03_record_edits(recs):
                data = b"".join(rl)
                if data in seen:
                    continue
                seen.add(data)
                cases.append(mk(data, "must_reject", ["record-edit", "recs=%d" % min(len(recs), 6)]))
    return cases


def r1_c03_record_edit_files(self, ctx, full):
    """the same whole-record edits on key-mode and password-mode files (public API, production chunk size) whose chunks are short
    because the source handed the plaintext out in short pieces, and on a file of full chunks (2*65536 + r bytes)"""
    rng = ctx.rng
    cases = []
    (s_, spk), (r_, rpk), (e, epk) = keypairs(ctx, 3)
    pw = rng.choice(PASSWORDS[1:])
    parts = [rng.randrange(1, 12) for _ in range(rng.randrange(3, 6))]
    parts2 = [rng.randrange(1, 12) for _ in range(3)]
    plan = [("key", Case("key_enc", s=s_, spk=spk, r=rpk, e=e, epk=epk, pk=ctx.rbytes(32), data=ctx.rbytes(sum(parts) + rng.choice([0, 3])), rs=script_of(parts))),
            ("key", Case("key_enc", s=s_, spk=spk, r=rpk, e=e, epk=epk, pk=ctx.rbytes(32), data=b"", rs="-")),
            ("key", Case("key_enc", s=s_, spk=spk, r=rpk, e=e, epk=epk, pk=ctx.rbytes(32), data=ctx.rbytes(2 * BIG + rng.randrange(1, 9)), rs="-")),
            ("pass", Case("pass_enc", pw=pw, salt=ctx.rbytes(32), data=ctx.rbytes(sum(parts2)), rs=script_of(parts2)))]
    vlib.run_impl(ctx.bin, [c for _, c in plan])
    for mode, enc in plan:
        if enc.result["code"] != 0:
            cases.append(Case(enc.op, oracle=ok_only("honest encryption succeeds"), tags=["recedit-enc"], **dict(enc.a)))
            continue
        P, F = enc.a["data"], enc.result["out"]
        off = 132 if mode == "key" else 36
        if mode == "key":
            mk = lambda data, kind, tags, P=P: Case("key_dec", r=r_, rpk=rpk, data=data, oracle=self.expect(P, kind), tags=tags)
        else:
            mk = lambda data, kind, tags, P=P: Case("pass_dec", pw=pw, data=data, oracle=self.expect(P, kind), tags=tags)
        cases.append(mk(F, "must_accept", ["authentic", "trivial"]))
        recs = records(F, off)
        edits = r1_c03_record_edits(recs)
        if mode == "pass" and not full:            # one scrypt per case
            first = [x for x in edits if x[0].startswith(("record 1 of", "first 1 of", "record %d of" % len(recs)))]
            edits = first + rng.sample([x for x in edits if x not in first], 6)
        seen = {F}
        for label, rl in edits:
            data = F[:off] + b"".join(rl)
            if data not in seen:
                seen.add(data)
                cases.append(mk(data, "must_reject", ["record-edit-" + mode, "recs=%d" % min(len(recs), 6)]))
    return cases


def r1_c03_leftover_match(final_body, stale):
    """number of trailing bytes of the final record's body (ciphertext + tag) that equal the bytes `stale` holds at the same
    positions (stale is padded with zero bytes)"""
    L = len(final_body)
    st = (stale + bytes(L))[:L]
    k = 0
    while k < min(L, 16) and final_body[L - 1 - k] == st[L - 1 - k]:
        k += 1
    return k


def r1_c03_tag_tail_cases(self, ctx, full):
    """'every proper prefix is rejected' where a decryptor that loses track of how much it has read would go wrong: MANY authentic
    files are made (chunk hooks: one record and two or three records; key mode through the public API: one record) and those are
    kept whose final tag ENDS in bytes that a reused buffer would hold at that place anyway - zero bytes, the bytes of the preceding
    record's body or of its plaintext at the same offsets, 0xff; of each of these every proper prefix is presented (and, first, the
    whole file, in the same process).  Returns (cases for the model too, cases for the direct oracle only)."""
    rng = ctx.rng
    model, direct = [], []
    cs = rng.choice([2, 3, 4])
    key = ctx.rbytes(32)
    aad = rng.choice([b"", b"egk\x20"])
    n1 = 6000 if full else 2500
    lay = []
    for i in range(2 * n1):
        if i % 2 == 0:
            lay.append((rng.randrange(0, cs + 1), "-"))
        else:
            k = rng.choice([1, 1, 2])
            parts = [rng.choice([cs, cs, rng.randrange(1, cs + 1)]) for _ in range(k)]
            lay.append((sum(parts) + rng.randrange(1, cs + 1), script_of(parts)))
    pts = [ctx.rbytes(n) for n, _ in lay]
    from concurrent.futures import ThreadPoolExecutor
    encs = [Case("enc_chunks", key=key, aad=aad, cs=cs, data=p, rs=rs) for p, (_, rs) in zip(pts, lay)]
    k = max(1, min(vlib.NPROC, 8))
    with ThreadPoolExecutor(max_workers=k) as ex:
        list(ex.map(lambda sh_: vlib.run_impl(ctx.bin, sh_), [encs[i::k] for i in range(k)]))
    picked = {}
    for P, e in zip(pts, encs):
        if e.result["code"] != 0:
            continue
        F = e.result["out"]
        recs = records(F)
        if not recs or sum(len(x) for x in recs) != len(F):
            continue
        body = recs[-1][16:]
        stales = [("zero", b"")]
        if len(recs) > 1:
            prev_len = len(recs[-2]) - 32
            stales += [("prev-body", recs[-2][16:]), ("prev-plain", P[len(P) - (len(body) - 16) - prev_len:len(P) - (len(body) - 16)])]
        stales.append(("ff", b"\xff" * len(body)))
        for name, st in stales:
            m = r1_c03_leftover_match(body, st)
            if m >= 1:
                picked.setdefault((name, len(recs) > 1), []).append((m, P, F))
    for (name, multi), lst in sorted(picked.items()):
        lst.sort(key=lambda x: -x[0])
        for m, P, F in lst[:(3 if full else 2)]:
            mk = lambda data, kind, tags, P=P: Case("dec_chunks", key=key, aad=aad, cs=cs, data=data, oracle=self.expect(P, kind), tags=tags)
            model.append(mk(F, "must_accept", ["authentic", "trivial"]))
            for n in range(len(F)):
                (model if n >= len(F) - 17 else direct).append(mk(F[:n], "must_reject", ["tag-tail-" + name, "match=%d" % m]))
    ctx.distribution["c03:tag-tail-files-made"] = len(encs)
    # key mode, production chunk size: one-record files, the payload key varies
    (s_, spk), (r_, rpk), (e, epk) = keypairs(ctx, 3)
    n2 = 3000 if full else 1200
    kencs = [Case("key_enc", s=s_, spk=spk, r=rpk, e=e, epk=epk, pk=ctx.rbytes(32), data=ctx.rbytes(rng.randrange(0, 20))) for _ in range(n2)]
    with ThreadPoolExecutor(max_workers=k) as ex:
        list(ex.map(lambda sh_: vlib.run_impl(ctx.bin, sh_), [kencs[i::k] for i in range(k)]))
    hits = []
    for c in kencs:
        if c.result["code"] == 0 and len(c.result["out"]) >= 164:
            F = c.result["out"]
            m = max(r1_c03_leftover_match(F[148:], b""), r1_c03_leftover_match(F[148:], b"\xff" * len(F)))
            if m >= 1:
                hits.append((m, c.a["data"], F))
    hits.sort(key=lambda x: -x[0])
    for m, P, F in hits[:(8 if full else 4)]:
        mk = lambda data, kind, tags, P=P: Case("key_dec", r=r_, rpk=rpk, data=data, oracle=self.expect(P, kind), tags=tags)
        direct.append(mk(F, "must_accept", ["authentic", "trivial"]))
        for n in range(len(F) - 17, len(F)):
            direct.append(mk(F[:n], "must_reject", ["tag-tail-key", "match=%d" % m]))
    return model, direct


REGISTRY = {}
for cls in (C03,):
    REGISTRY[cls.id] = cls()


# =========================================================================== shared generators
def all_partitions(n, maxpart):
    """all compositions of n into parts of 1..maxpart"""
    if n == 0:
        return [[]]
    out = []
    for k in range(1, min(maxpart, n) + 1):
        for rest in all_partitions(n - k, maxpart):
            out.append([k] + rest)
    return out


def script_of(parts):
    return ",".join("c%d" % k for k in parts) if parts else "-"


def keypairs(ctx, n):
    sks = [ctx.rbytes(32) for _ in range(n)]
    cs_ = [Case("xpub", k=k) for k in sks]
    vlib.run_impl(ctx.bin, cs_)
    return [(sk, c.result["out"]) for sk, c in zip(sks, cs_)]


def ok_eq(P, what="round trip"):
    def f(r):
        if r["code"] != 0 or r["out"] != P:
            return ("%s: Ok with exactly the original %d bytes" % (what, len(P)), r["outcome"] + " out=" + r["out"][:40].hex())
        return None
    return f


def ok_only(what="operation succeeds"):
    def f(r):
        return None if r["code"] == 0 else (what, r["outcome"])
    return f


def roundtrip_chunk_cases(ctx, full):
    """encrypt with every read partition, decrypt with assorted schedules (chunk hooks, tiny chunk sizes)"""
    rng = ctx.rng
    encs = []
    for cs in ([1, 2, 3, 4] if full else [2, 3]):
        key = ctx.rbytes(32)
        aad = rng.choice([b"", b"egk\x20"])
        for n in range(0, (8 if full else 6)):
            P = ctx.rbytes(n)
            for parts in all_partitions(n, cs):
                ws = rng.choice(["-", ",".join("c%d" % rng.choice([1, 1, 2, 3, 5, 7]) for _ in range(60)),
                                 ",".join(["c1"] * 200), "c3,c5,c1"])
                encs.append((P, Case("enc_chunks", key=key, aad=aad, cs=cs, data=P, rs=script_of(parts), ws=ws,
                                     oracle=ok_only("encryption over a conforming source/sink succeeds"),
                                     tags=["enc", "parts=%d" % len(parts)])))
    vlib.run_impl(ctx.bin, [c for _, c in encs])
    out = []
    for P, c in encs:
        out.append(c)
        F = c.result["out"]
        if c.result["code"] != 0:
            continue
        rs = rng.choice(["-", "c1,c1,c1,c1,c1,c1,c1", "c5,c1,c7,c2", "c16,c1", "c3,c3,c3,c3,c3,c3,c3,c3,c3,c3,c3,c3"])
        ws = rng.choice(["-", "c1,c1", "c2,c1,c1"])
        out.append(Case("dec_chunks", key=c.a["key"], aad=c.a["aad"], cs=c.a["cs"], data=F, rs=rs, ws=ws,
                        oracle=ok_eq(P), tags=["dec"]))
    return out


BIG = 65536


def api_roundtrip_cases(ctx, full, mode):
    """public API at the production chunk size; mode = 'key' | 'pass'"""
    rng = ctx.rng
    lens = [0, 1, BIG - 1, BIG, BIG + 1] + ([2 * BIG - 1, 2 * BIG, 2 * BIG + 1] if full else [])
    if not full:
        lens = [0, 1, BIG + 1]
    scheds = ["-", "c1", "c4096", "c65536,c1"]
    (s, spk), (r, rpk), (e, epk) = keypairs(ctx, 3)
    encs = []
    for n in lens:
        P = ctx.rbytes(n)
        for rs in (scheds if full else [rng.choice(scheds)]):
            if rs == "c4096":
                rs = ",".join(["c4096"] * (n // 4096 + 2))
            if mode == "key":
                pk = ctx.rbytes(32)
                c = Case("key_enc", s=s, spk=spk, r=rpk, e=e, epk=epk, pk=pk, data=P, rs=rs,
                         oracle=ok_only("key encryption succeeds"), tags=["enc", "len=%d" % n])
            else:
                c = Case("pass_enc", pw=rng.choice(PASSWORDS), salt=ctx.rbytes(32), data=P, rs=rs,
                         oracle=ok_only("password encryption succeeds"), tags=["enc", "len=%d" % n])
            encs.append((P, c))
    vlib.run_impl(ctx.bin, [c for _, c in encs])
    out = []
    for P, c in encs:
        out.append(c)
        if c.result["code"] != 0:
            continue
        F = c.result["out"]
        rs = rng.choice(["-", "c1,c1,c1,c1,c1", "c100,c31,c1,c50000"])
        ws = rng.choice(["-", "c1000", "c1,c65535"])
        if mode == "key":
            def orc(res, P=P):
                if res["code"] != 0 or res["out"] != P:
                    return ("decrypt(encrypt(P)) = P", res["outcome"] + " |out|=%d" % len(res["out"]))
                if res["extra"] != spk:
                    return ("decryption reports the sender's static public key", "sender=" + res["extra"].hex())
                return None
            out.append(Case("key_dec", r=r, rpk=rpk, data=F, rs=rs, ws=ws, oracle=orc, tags=["dec", "len=%d" % len(P)]))
        else:
            out.append(Case("pass_dec", pw=c.a["pw"], data=F, rs=rs, ws=ws, oracle=ok_eq(P), tags=["dec", "len=%d" % len(P)]))
    return out


PASSWORDS = [b"", b"a", b"hackme", b"p\xc3\xa4ssw\xc3\xb6rd\xe2\x9c\x93", b"\x00\xff", b"x" * 65, b"y" * 200, b"k" * 64, b"k" * 63, b"trail "]


class C01(Prop):
    id = "C01"
    rule = ("cases: chunk-hook encryptions of every plaintext length 0..5(7) under EVERY partition into reads of 1..cs "
            "bytes (cs 2,3(,1,4)) with partial writes, each decrypted under another schedule; public-API key-mode "
            "encryptions at lengths 0,1,65537 (thorough: 65535,65536,131071..131073) under assorted read schedules, each "
            "decrypted; files of MANY chunks (chunk hooks at chunk size 1 and the key API read 1..3 bytes at a time: 255, 256, "
            "257, ~300 chunks also through the model; 65535, 65536, 65537 and a random count above through the implementation "
            "with the direct oracle, their records at counters 0,1,254..257,65534..65537,last compared with the model's AEAD "
            "at that counter; thorough: 2^24+1 chunks inside the driver, op c01rt); key-mode round trips at EVERY length "
            "2^k-17..2^k+1, k=4..16, the same windows one chunk further on and as non-final chunks (direct oracle); "
            "key pairs searched (a pool of random pairs) so that byte i of the PUBLIC key is 0x00 / 0xff / >= 0xee / <= 0x11, for every "
            "i = 0..31 and each role sender / recipient / ephemeral (direct oracle incl. the reported sender); command line: `kestrel encrypt` "
            "then `kestrel decrypt` where the input, the ciphertext, the output or the keyring has an awkward NAME (framed by blanks of "
            "several kinds, blanks only, a lone `-`, ./-o, quotes, $HOME, *, 255 bytes) while a file with the tidied name and standard input hold "
            "other bytes: exit 0, ciphertext under exactly the -o name, output = input, sender named, look-alike files untouched; "
            "non-trivial = every case (no two share input+schedule)")
    assumptions = ["X25519 commutativity (dh_comm) is a hypothesis of the key-mode round-trip theorem",
                   "AEAD/hash laws proved for the Gallina RFC instance"]

    def sequences(self, ctx):
        """several encryptions in ONE library process: different senders to one recipient, one sender to different
        recipients, a key writing to itself — state carried from one operation to the next must not matter"""
        (a, A), (b, B), (c, C), (e, E), (e2, E2) = keypairs(ctx, 5)
        plan = [(a, A, B), (c, C, B), (b, B, B), (a, A, C), (a, A, B), (c, C, A)]
        encs = []
        for i, (s, spk, rpk) in enumerate(plan):
            P = ctx.rbytes(20 + i)
            ee, eepk = (e, E) if i % 2 == 0 else (e2, E2)
            encs.append((P, Case("key_enc", s=s, spk=spk, r=rpk, e=ee, epk=eepk, pk=ctx.rbytes(32), data=P,
                                 oracle=ok_only("key encryption succeeds"), tags=["sequence", "enc"])))
        vlib.run_impl(ctx.bin, [c_ for _, c_ in encs])
        priv = {A: a, B: b, C: c}
        out = []
        for (P, c_) in encs:
            out.append(c_)
        for (P, c_) in encs:
            if c_.result["code"] != 0:
                continue
            rpk = c_.a["r"]
            spk = c_.a["spk"]

            def orc(res, P=P, spk=spk):
                if res["code"] != 0 or res["out"] != P:
                    return ("every file of a sequence of encryptions decrypts to its plaintext", res["outcome"])
                if res["extra"] != spk:
                    return ("and names its own sender", "sender=" + res["extra"].hex())
                return None
            out.append(Case("key_dec", r=priv[rpk], rpk=rpk, data=c_.result["out"], oracle=orc, tags=["sequence", "dec"]))
        return out

    def cases(self, ctx):
        return self.sequences(ctx) + roundtrip_chunk_cases(ctx, ctx.thorough()) + api_roundtrip_cases(ctx, ctx.thorough(), "key")

    def search_cases(self, ctx):
        c2 = Ctx(ctx.pid, "thorough", ctx.seed + 7)
        c2.bin = ctx.bin
        out = roundtrip_chunk_cases(c2, True)
        # the implementation's own randomness (no injection)
        (s, spk), (r, rpk) = keypairs(c2, 2)
        encs = [Case("key_enc", s=s, spk=spk, r=rpk, data=c2.rbytes(n)) for n in (0, 1, 100, 65537)]
        vlib.run_impl(ctx.bin, encs)
        for c in encs:
            if c.result["code"] == 0:
                out.append(Case("key_dec", r=r, rpk=rpk, data=c.result["out"], oracle=ok_eq(c.a["data"])))
        return out

    def explore(self, ctx):
        super().explore(ctx)
        full = ctx.thorough()
        # files of MANY chunks (counts on both sides of 2^8 and 2^16; the 64-bit chunk counter feeds the AEAD nonce)
        small, big = c01_chunk_count_cases(ctx, full)
        self.run_cases(ctx, small, model=True)
        c01_direct(ctx, big)
        # plaintext / chunk lengths on both sides of every power of two 2^4..2^16 (and one chunk further on)
        lc = c01_length_class_cases(ctx, full)
        c01_direct(ctx, lc)
        if full:
            # (quick: the model already sees key-mode files of such lengths in sequences() and api_roundtrip_cases)
            self.run_cases(ctx, c01_model_sample(ctx, lc, 12), model=True)
        if full:
            c01_inproc_counts(ctx)
        # key pairs whose PUBLIC key takes an extreme value at every byte position, in every role (sender, recipient, ephemeral)
        c01_direct(ctx, r1_c01_key_byte_cases(ctx, full))
        # the same statement through the real program, the files called by awkward names
        if os.path.exists(vlib.CLIDRV):
            r1_c01_cli_names(self, ctx)
        else:
            ctx.broken.append({"kind": "correspondence", "what": "clidrv was not built: command-line round trips of C01 not checked"})

    def replay(self, ctx, payload):
        d = payload.get("input", {})
        if d.get("kind") == "proc":
            import props_cli
            return props_cli.k_replay(ctx, payload)
        if d.get("op") == "c01_roundtrip":
            return c01_replay_roundtrip(ctx, d, payload)
        if d.get("op") == "c01rt":
            res, _ = vlib.run_driver(ctx.bin, ["1 " + d["line"]], timeout=7200)
            return {"holds": "outcome=ok" in res.get("1", ""), "implementation": res.get("1", "")[:600], "expected": payload.get("expected")}
        return super().replay(ctx, payload)


# ---- C01: many-chunk files and length classes (direct oracle decrypt(encrypt(P)) = P on the implementation; the model
# is compared on the small members and on selected records of the long files)
def c01_direct(ctx, cases, max_report=6):
    """implementation + direct oracle only: the cases not yet run are spread over VERIF_JOBS driver processes, the oracle of
    every case is evaluated.  A failing round trip is reported as its ENCRYPTION input plus the decryption schedule
    (op c01_roundtrip), not as the (long) ciphertext."""
    if not cases:
        return
    from concurrent.futures import ThreadPoolExecutor
    todo = [c for c in cases if c.result is None]
    if todo:
        n = max(1, min(vlib.NPROC, len(todo) // 4))
        order = sorted(todo, key=lambda c: -len(c.a.get("data", b"")))
        shards = [order[i::n] for i in range(n)]
        with ThreadPoolExecutor(max_workers=n) as ex:
            list(ex.map(lambda sh_: vlib.run_impl(ctx.bin, sh_, timeout=1800), shards))
    ctx.evaluations += len(cases)
    dist = collections.Counter(ctx.distribution)
    reported = 0
    for c in cases:
        dist["op:" + c.op] += 1
        for t in c.tags:
            dist["tag:" + t] += 1
        ctx.distinct_nontrivial += 1
        if c.expect_fn is None:
            continue
        ctx.oracle_checks += 1
        msg = c.expect_fn(c.result)
        if msg:
            dist["c01-direct-violations"] += 1
            if reported < max_report:
                reported += 1
                d = getattr(c, "c01_origin", None) or c.full()
                ctx.violations.append({"input": d, "expected": msg[0], "observed": msg[1], "finding_key": None})
    ctx.distribution = dict(dist)


def c01_origin(enc, dec, extra=None):
    """what to store for a failing decryption of an honest file: how the file was made and how it was read back"""
    d = {"op": "c01_roundtrip", "enc": enc.full(), "dec_op": dec.op,
         "dec": {k: (v.hex() if isinstance(v, (bytes, bytearray)) else v) for k, v in dec.a.items() if k != "data"}}
    if extra:
        d.update(extra)
    return d


def c01_replay_roundtrip(ctx, d, payload):
    enc = case_from_full(d["enc"])
    vlib.run_impl(ctx.bin, [enc])
    if enc.result["code"] != 0:
        return {"holds": False, "implementation": "encryption: " + enc.result["outcome"], "expected": payload.get("expected")}
    a = {}
    for k, v in d["dec"].items():
        a[k] = bytes.fromhex(v) if isinstance(v, str) and k not in ("rs", "ws", "fs") else v
    dec = Case(d["dec_op"], data=enc.result["out"], **a)
    vlib.run_impl(ctx.bin, [dec])
    holds = dec.result["code"] == 0 and dec.result["out"] == enc.a["data"]
    if dec.op == "key_dec" and holds:
        holds = dec.result["extra"] == enc.a["spk"]
    return {"holds": holds, "implementation": "decryption of the implementation's own %d-byte file: %s, %d bytes released"
            % (len(enc.result["out"]), dec.result["outcome"], len(dec.result["out"])), "expected": payload.get("expected")}


def c01_caps(rng, n, caps=(1, 1, 1, 2, 3)):
    """n read sizes; the plaintext length is their sum, so that every read is short and every read is one chunk"""
    return [rng.choice(caps) for _ in range(n)]


def c01_dec_oracle(P, spk=None, what="decrypt(encrypt(P)) = P"):
    def f(res):
        if res["code"] != 0 or res["out"] != P:
            k = 0
            while k < min(len(P), len(res["out"])) and P[k] == res["out"][k]:
                k += 1
            return ("%s: Ok with exactly the original %d bytes" % (what, len(P)),
                    "%s, %d bytes released (the first %d equal the plaintext)" % (res["outcome"], len(res["out"]), k))
        if spk is not None and res["extra"] != spk:
            return ("decryption reports the sender's static public key", "sender=" + res["extra"].hex())
        return None
    return f


def c01_chunk_count_cases(ctx, full):
    """round trips of files with MANY chunks.  Chunk hooks at chunk size 1 (every byte a chunk) and the public key API
    read in pieces of 1..3 bytes (every read a chunk): chunk counts 255, 256, 257 and a random one above (these
    also go to the model), 65535, 65536, 65537 and a random one above (implementation + direct oracle; of those files
    the records around the counter values 2^8 and 2^16, the first and the last are compared with the model's
    chapoly_encrypt_noise at that counter).  Returns (cases for the model, cases for the direct oracle)."""
    rng = ctx.rng
    key = ctx.rbytes(32)
    aad = rng.choice([b"", b"egk\x20"])
    (s, spk), (r, rpk), (e, epk) = keypairs(ctx, 3)
    small_counts = [255, 256, 257, rng.randrange(258, 320 if not full else 1000)]
    big_counts = [65535, 65536, 65537, rng.randrange(65538, 66200)]
    plan = []
    for n in small_counts + big_counts:
        P = ctx.rbytes(n)
        plan.append((n, P, Case("enc_chunks", key=key, aad=aad, cs=1, data=P,
                                oracle=ok_only("encryption over a conforming source/sink succeeds"),
                                tags=["many-chunks", "enc", "count=%d" % n])))
    # public API: one count on each side of 2^8 and of 2^16, every read short
    for n in [rng.choice([255, 256, 257]), rng.choice([65536, 65537]), rng.randrange(65538, 65800)]:
        parts = c01_caps(rng, n)
        P = ctx.rbytes(sum(parts))
        plan.append((n, P, Case("key_enc", s=s, spk=spk, r=rpk, e=e, epk=epk, pk=ctx.rbytes(32), data=P, rs=script_of(parts),
                                oracle=ok_only("key encryption succeeds"), tags=["many-chunks", "enc", "count=%d" % n])))
    encs = [c for _, _, c in plan]
    c01_run_fresh(ctx, encs)
    small, big, probes = [], [], []
    for n, P, c in plan:
        is_small = n < 1000 and c.op == "enc_chunks"
        (small if is_small else big).append(c)
        if c.result["code"] != 0:
            continue
        F = c.result["out"]
        rs = rng.choice(["-", "c1,c1,c1,c1,c1,c1,c1", "c5,c1,c7,c2", "c16,c1,c33", "c100,c31,c1,c50000"])
        ws = rng.choice(["-", "c1,c1", "c2,c1,c1"])
        if c.op == "enc_chunks":
            d = Case("dec_chunks", key=key, aad=aad, cs=1, data=F, rs=rs, ws=ws, oracle=c01_dec_oracle(P),
                     tags=["many-chunks", "dec", "count=%d" % n])
        else:
            d = Case("key_dec", r=r, rpk=rpk, data=F, rs=rs, ws=ws, oracle=c01_dec_oracle(P, spk),
                     tags=["many-chunks", "dec", "count=%d" % n])
        d.c01_origin = c01_origin(c, d)
        (small if is_small else big).append(d)
        if not is_small and c.op == "enc_chunks":
            # selected records of the long file against the model's AEAD at that counter
            recs = [F[33 * i:33 * i + 33] for i in range(len(F) // 33)]
            for i in sorted(set(j for j in (0, 1, 254, 255, 256, 257, 65534, 65535, 65536, 65537, n - 1) if j < len(recs))):
                rec = recs[i]
                p = Case("nseal", key=key, n=i, ad=aad + rec[8:16], x=P[i:i + 1], tags=["record-of-long-file"])
                p.c01_hdr = (rec[:8], i.to_bytes(8, "big"))
                p.c01_ct = rec[16:]
                probes.append(p)
    c01_model_records(ctx, probes)
    return small, big


def c01_run_fresh(ctx, cases):
    from concurrent.futures import ThreadPoolExecutor
    n = max(1, min(vlib.NPROC, len(cases)))
    order = sorted(cases, key=lambda c: -len(c.a.get("data", b"")))
    shards = [order[i::n] for i in range(n)]
    with ThreadPoolExecutor(max_workers=n) as ex:
        list(ex.map(lambda sh_: vlib.run_impl(ctx.bin, sh_, timeout=1800), shards))


def c01_model_records(ctx, probes):
    """probes: nseal cases whose 'implementation result' is a record cut out of a long file the encryptor wrote: the model
    evaluates chapoly_encrypt_noise at that chunk counter and must give the record's ciphertext and tag"""
    if not probes:
        return
    for i, p in enumerate(probes):
        p.id = str(i + 1)
        p.result = vlib.parse_result("nseal", "%s outcome=ok out=%s" % (p.id, vlib.hexs(p.c01_ct)))
    log = vlib.run_model(probes, [], ctx.pid + "n")
    bad = [p for p in probes if p.agree is not True]
    ctx.evaluations += len(probes)
    ctx.agreed += len(probes) - len(bad)
    ctx.distribution["tag:record-of-long-file"] = ctx.distribution.get("tag:record-of-long-file", 0) + len(probes)
    for p in bad[:8]:
        ctx.disagreements.append({"input": p.full(), "implementation": "record %d of the encryptor's file: %s" % (p.a["n"], p.c01_ct.hex()),
                                  "model": "chapoly_encrypt_noise at counter %d gives another value" % p.a["n"]
                                           if p.agree is False else "model evaluation failed"})
    if bad:
        ctx.broken.append({"kind": "correspondence",
                           "what": "correspondence %s: records %s of a many-chunk file are not the model's AEAD output at that chunk "
                                   "counter%s" % (ctx.pid, sorted(set(p.a["n"] for p in bad))[:8], (" [" + log[-200:] + "]") if log else "")})


C01_EDGE_K = list(range(4, 17))


def c01_edge_lengths(k):
    return list(range(max(0, 2 ** k - 17), 2 ** k + 2))


def c01_length_class_cases(ctx, full):
    """key-mode round trips (public API, production chunk size) over the lengths a buffer-size special case could single
    out: EVERY plaintext length 2^k-17 .. 2^k+1 for k = 4..16 as a whole file, the same window one chunk further on
    (65536 + 2^j-17 .. 2^j+1; quick: j = 12 and two random j, thorough: all j and 2*65536 as well), and such lengths as
    NON-final chunks (a source that hands out three pieces of that length)."""
    rng = ctx.rng
    (s, spk), (r, rpk), (e, epk) = keypairs(ctx, 3)
    plan = []

    def add(P, rs, tag):
        plan.append((P, Case("key_enc", s=s, spk=spk, r=rpk, e=e, epk=epk, pk=ctx.rbytes(32), data=P, rs=rs,
                             oracle=ok_only("key encryption succeeds"), tags=["length-class", "enc", tag])))
    for k in C01_EDGE_K:
        for n in c01_edge_lengths(k):
            add(ctx.rbytes(n), "-", "whole=2^%d" % k)
    js = list(range(4, 16)) if full else sorted(set([12] + rng.sample(range(4, 16), 2)))
    for base in ([BIG, 2 * BIG] if full else [BIG]):
        for j in js:
            for n in c01_edge_lengths(j):
                add(ctx.rbytes(base + n), "-", "tail=2^%d" % j)
    # as non-final chunks: three reads of L bytes, then a few bytes more
    ls = [n for k in C01_EDGE_K for n in c01_edge_lengths(k) if 1 <= n <= BIG]   # a piece of 0 bytes is the end of input
    for L in (ls if full else sorted(set(rng.sample(ls, 36) + [rng.randrange(4081, 4097), rng.randrange(2 ** 15 - 16, 2 ** 15 + 1)]))):
        tail = rng.choice([0, 1, rng.randrange(0, 40)])
        add(ctx.rbytes(3 * L + tail), "c%d,c%d,c%d" % (L, L, L), "piece")
    encs = [c for _, c in plan]
    c01_run_fresh(ctx, encs)
    out = []
    for P, c in plan:
        out.append(c)
        if c.result["code"] != 0:
            continue
        rs = rng.choice(["-", "-", "-", "c1,c1,c1,c1,c1", "c100,c31,c1,c50000", "c4096,c4096,c16"])
        ws = rng.choice(["-", "-", "c1000", "c1,c65535"])
        d = Case("key_dec", r=r, rpk=rpk, data=c.result["out"], rs=rs, ws=ws, oracle=c01_dec_oracle(P, spk),
                 tags=["length-class", "dec", c.tags[2]])
        d.c01_origin = c01_origin(c, d)
        out.append(d)
    return out


def c01_model_sample(ctx, cases, n):
    """a few of the short length-class round trips again, this time for the model as well"""
    rng = ctx.rng
    encs = [c for c in cases if c.op == "key_enc" and len(c.a["data"]) <= 300 and c.result and c.result["code"] == 0]
    out = []
    for c in rng.sample(encs, min(n, len(encs))):
        a = dict(c.a)
        out.append(Case("key_enc", oracle=ok_only("key encryption succeeds"), tags=["length-class", "enc", "model"], **a))
        d = [x for x in cases if x.op == "key_dec" and x.a["data"] == c.result["out"]]
        if d:
            out.append(Case("key_dec", oracle=d[0].expect_fn, tags=["length-class", "dec", "model"], **dict(d[0].a)))
    return out


def c01_inproc_counts(ctx):
    """thorough: 2^24 + 1 chunks, inside the driver (libdrv op c01rt: the plaintext comes from a generator, the encryptor
    and the decryptor run in two threads joined by a pipe, nothing is stored)"""
    rng = ctx.rng
    lines = []
    for n in (2 ** 24 + 1 + rng.randrange(0, 50),):
        lines.append("c01rt %s %s 1 %d %d 1" % (vlib.hexs(ctx.rbytes(32)), vlib.hexs(rng.choice([b"", b"egk\x20"])), n, rng.getrandbits(32)))
    for i, l in enumerate(lines):
        res, _ = vlib.run_driver(ctx.bin, ["%d %s" % (i, l)], timeout=7200)
        line = res.get(str(i), "outcome=missing")
        ctx.evaluations += 1
        ctx.oracle_checks += 1
        ctx.distinct_nontrivial += 1
        ctx.distribution["tag:many-chunks-inproc"] = ctx.distribution.get("tag:many-chunks-inproc", 0) + 1
        if "outcome=badop" in line:
            ctx.broken.append({"kind": "machinery", "what": "libdrv has no op c01rt"})
        elif "outcome=ok" not in line:
            ctx.violations.append({"input": {"op": "c01rt", "line": l}, "expected": "decrypt(encrypt(P)) = P for a plaintext of %s one-byte chunks"
                                   % l.split()[4], "observed": line[:400], "finding_key": None})


# ---- C01: "every sender and recipient key pair" — public keys with an extreme value at every byte position
R1_C01_BYTE_CLASSES = (("=00", lambda v, i: v == 0x00), ("=ff", lambda v, i: v == (0x7f if i == 31 else 0xff)),
                       (">=ee", lambda v, i: v >= (0x78 if i == 31 else 0xee)), ("<=11", lambda v, i: v <= (0x07 if i == 31 else 0x11)))


def r1_c01_key_pool(ctx, n):
    """n random X25519 key pairs from the implementation's own x25519_derive_public, in a few driver processes"""
    from concurrent.futures import ThreadPoolExecutor
    sks = [ctx.rbytes(32) for _ in range(n)]
    k = max(1, min(vlib.NPROC, 8))
    shards = [list(range(i, n, k)) for i in range(k)]

    def run(idx):
        res, _ = vlib.run_driver(ctx.bin, ["%d xpub %s" % (i, vlib.hexs(sks[i])) for i in idx])
        out = []
        for i in idx:
            kv = dict(t.split("=", 1) for t in res.get(str(i), "").split()[1:] if "=" in t)
            if kv.get("outcome") == "ok" and len(kv.get("out", "")) == 64:
                out.append((sks[i], bytes.fromhex(kv["out"])))
        return out
    with ThreadPoolExecutor(max_workers=k) as ex:
        return [p for part in ex.map(run, shards) for p in part]


def r1_c01_key_byte_cases(ctx, full):
    """key-mode round trips (public API, direct oracle: the plaintext comes back and the sender's static public key is
    reported) in which ONE of the three key pairs of a file - sender, recipient, ephemeral - has been ground (a pool of random
    key pairs, searched) so that byte i of its PUBLIC key is 0x00, 0xff (0x7f for the top byte), >= 0xee or <= 0x11: for every
    byte position i = 0..31, every class, every role.  A comparison, a canonical-form test or a sign/endianness slip applied
    to the bytes of a key singles out such keys; random key pairs hit a given (position, class) with probability 1/256..1/14 only."""
    rng = ctx.rng
    pool = r1_c01_key_pool(ctx, 6000 if full else 3000)
    if len(pool) < 8:
        return []
    picks = []
    for i in range(32):
        for cname, pred in R1_C01_BYTE_CLASSES:
            hit = [kp for kp in pool if pred(kp[1][i], i)]
            for kp in (rng.sample(hit, min(len(hit), 2 if full else 1))):
                picks.append((i, cname, kp))
    plain = pool[:6]
    plan = []
    for i, cname, (sk, pk) in picks:
        for role in ("sender", "recipient", "ephemeral"):
            (s, spk), (r, rpk), (e, epk) = rng.sample(plain, 3)
            if role == "sender":
                s, spk = sk, pk
            elif role == "recipient":
                r, rpk = sk, pk
            else:
                e, epk = sk, pk
            n = rng.choice([0, 1, rng.randrange(2, 200), rng.randrange(2, 200)])
            P = ctx.rbytes(n)
            tag = "keybyte-%s%s" % (role, cname)
            enc = Case("key_enc", s=s, spk=spk, r=rpk, e=e, epk=epk, pk=ctx.rbytes(32), data=P,
                       oracle=ok_only("key encryption succeeds"), tags=["key-byte", "enc", tag])
            plan.append((P, r, rpk, spk, enc, "byte %d of the %s's public key %s" % (i, role, cname)))
    c01_run_fresh(ctx, [x[4] for x in plan])
    out = []
    for P, r, rpk, spk, enc, what in plan:
        out.append(enc)
        if enc.result["code"] != 0:
            continue
        d = Case("key_dec", r=r, rpk=rpk, data=enc.result["out"], oracle=c01_dec_oracle(P, spk, "decrypt(encrypt(P)) = P (%s)" % what),
                 tags=["key-byte", "dec", enc.tags[2]])
        d.c01_origin = c01_origin(enc, d, {"note": what})
        out.append(d)
    return out


# ---- C01 at the command line: encrypt FILE -o CT, decrypt CT -o OUT, the files called by awkward names
R1_C01_BLANKS = [" ", "\t", "\n", "\r", "\u00a0", "\u3000", "\u2003", "\u0085", "\u000b"]


def r1_c01_awkward_names(rng, full):
    """[(family, name)]: file names a front end that 'tidies' its arguments would not take literally.  All are single path
    components, valid UTF-8, no '/' and no NUL, and none begins with '-' followed by more characters (that is an option)."""
    stem = lambda: "".join(rng.choice("abcdefghijklmnopqrstuvwxyz0123456789") for _ in range(rng.randrange(3, 9))) + rng.choice(["", ".bin", ".txt", ".ktl"])
    out = [("dash", "-")]
    for b in (R1_C01_BLANKS if full else [" ", "\t", "\n"] + rng.sample(R1_C01_BLANKS[3:], 2)):
        out.append(("blank-after", stem() + b))
        out.append(("blank-before", b + stem()))
    out.append(("blank-both", rng.choice(R1_C01_BLANKS) + stem() + rng.choice(R1_C01_BLANKS)))
    out.append(("blank-run", stem() + " " * rng.randrange(2, 5)))
    out.append(("blank-only", rng.choice([" ", "  ", "\t", "\u00a0", " \t "])))
    out.append(("blank-inside", stem() + rng.choice(R1_C01_BLANKS) + stem()))
    out.append(("dash-blank", rng.choice([" -", "\t-", " - "])))
    out.append(("dot-slash-dash", "./" + rng.choice(["-", "--", "-o", "-k", "--env-pass", "-t"])))
    for s in ('"%s"' % stem(), "'%s'" % stem(), stem() + "\\", "~" + stem(), "$HOME", "%s", "*", "a=b", stem() + ".", "." + stem(), "@" + stem(),
              "é" + stem(), stem() + "\U0001F600", "x" * 255):
        out.append(("literal", s))
    return out


def r1_c01_cli_names(self, ctx):
    """C01 through the real program: `kestrel encrypt IN -t bob -f alice -o CT -k KR` then `kestrel decrypt CT -t bob -k KR -o OUT`,
    every command in a directory of its own, where one (or all) of IN / CT / OUT / KR is an awkward name: framed by blanks (space,
    tab, newline, CR, NBSP, U+3000 ...), blanks only, a lone `-`, `./-o`, quotes, `$HOME`, `*`, 255 bytes.  A file whose name is the
    TIDIED form of the awkward name (blanks stripped) holds other bytes, and standard input holds other bytes too.  Demanded:
    both commands exit 0, the ciphertext exists under exactly the name given to -o, OUT holds exactly the bytes of IN, the
    sender is named (`Success. File from: alice`), nothing goes to standard output, and the look-alike files are untouched."""
    import props_cli as pc
    from concurrent.futures import ThreadPoolExecutor
    rng = ctx.rng
    full = ctx.thorough()
    (a, A), (b, B) = keypairs(ctx, 2)
    EA, EB = c05_pk_text(A), c05_pk_text(B)
    pw = rng.choice([b"pw-c01", "böb ✓".encode("utf-8"), b"x y"])
    locked_a, locked_b = pc.lock_keys([(a, pw, ctx.rbytes(32)), (b, pw, ctx.rbytes(32))])
    ring = pc.key_block(b"alice", EA, locked_a) + b"\n" + pc.key_block(b"bob", EB, locked_b)
    names = r1_c01_awkward_names(rng, full)
    places = ("in", "ct", "out", "kr")
    jobs = []
    for fam, nm in names:
        core = fam == "dash" or (fam == "blank-after" and nm[-1] in " \n") or (fam == "blank-before" and nm[0] == " ")
        for pl in (places if (full or core) else rng.sample(places, 1)):
            jobs.append({"fam": fam, "name": nm, "places": (pl,)})
    for _ in range(6 if full else 2):
        four = rng.sample([n for f, n in names if f.startswith("blank") and f != "blank-only"], 4)
        if len(set(four)) == 4:
            jobs.append({"fam": "all-four", "name": None, "four": four, "places": places})
    for i, j in enumerate(jobs):
        j["i"] = i
        j["P"] = ctx.rbytes(rng.choice([0, 1, rng.randrange(2, 300), rng.randrange(2, 300), 65536 + rng.randrange(1, 50)]))
        j["decoy"] = b"DECOY " + ctx.rbytes(rng.randrange(1, 40))
    w = pc.World(prefix="kv_c01n_")

    def one(j):
        d = os.path.join(w.dir, "j%d" % j["i"])
        os.mkdir(d)
        nm = {"in": "plain.bin", "ct": "cipher.ktl", "out": "back.bin", "kr": "ring.txt"}
        for k, pl in enumerate(j["places"]):
            nm[pl] = j["four"][k] if j["name"] is None else j["name"]
        put = lambda n, data: open(os.path.join(d, n), "wb").write(data)
        get = lambda n: open(os.path.join(d, n), "rb").read() if os.path.isfile(os.path.join(d, n)) else None
        put(nm["in"], j["P"])
        put(nm["kr"], ring)
        decoys = {}
        for pl in j["places"]:
            base = os.path.basename(nm[pl])
            t = base.strip()
            for cand in {t, base.rstrip(), base.lstrip()}:
                if cand and cand not in (".", "..") and cand not in nm.values() and cand != base and not os.path.exists(os.path.join(d, cand)):
                    put(cand, j["decoy"])
                    decoys[cand] = j["decoy"]
        env = pc.env_pw(pw)
        r1 = pc.s4a_proc(w, ["encrypt", nm["in"], "-t", "bob", "-f", "alice", "-o", nm["ct"], "-k", nm["kr"], "--env-pass"], env=env, stdin=j["decoy"], cwd=d)
        ct = get(nm["ct"])
        r2 = pc.s4a_proc(w, ["decrypt", nm["ct"], "-t", "bob", "-k", nm["kr"], "-o", nm["out"], "--env-pass"], env=env, stdin=j["decoy"], cwd=d)
        back = get(nm["out"])
        touched = sorted(n for n, v in decoys.items() if get(n) != v)
        same_in = get(nm["in"]) == j["P"]
        import shutil
        shutil.rmtree(d, ignore_errors=True)
        return nm, r1, r2, ct, back, touched, same_in, sorted(decoys)
    try:
        with ThreadPoolExecutor(max_workers=vlib.NPROC) as ex:
            res = list(ex.map(one, jobs))
    finally:
        w.close()
    nviol = 0
    for j, (nm, r1, r2, ct, back, touched, same_in, decoys) in zip(jobs, res):
        ctx.evaluations += 1
        ctx.distinct_nontrivial += 1
        tag = "c01cli:%s@%s" % (j["fam"], "+".join(j["places"]) if len(j["places"]) == 1 else "all")
        ctx.distribution[tag] = ctx.distribution.get(tag, 0) + 1
        P = j["P"]
        scen = ("C01 cli round trip of a %d-byte plaintext (%s); names: input %r, ciphertext %r, decrypted output %r, keyring %r; other files in the "
                "directory with other content: %r; standard input holds %d other bytes"
                % (len(P), P[:48].hex() + (".." if len(P) > 48 else ""), nm["in"], nm["ct"], nm["out"], nm["kr"], decoys, len(j["decoy"])))
        checks = [
            (r1.rc == 0, "`kestrel encrypt` of an existing file exits 0", "exit %d: %s" % (r1.rc, r1.errtext()[-200:])),
            (r1.rc != 0 or (ct is not None and len(ct) == 132 + 32 * max(1, -(-len(P) // BIG)) + len(P)),
             "the ciphertext (%d bytes) is the file named by -o" % (132 + 32 * max(1, -(-len(P) // BIG)) + len(P)),
             "no file of that name" if ct is None else "%d bytes" % len(ct)),
            (r1.rc != 0 or r2.rc == 0, "`kestrel decrypt` of the file just written exits 0", "exit %d: %s" % (r2.rc, r2.errtext()[-200:])),
            (r2.rc != 0 or back == P, "the decrypted output (the file named by -o) holds exactly the %d bytes of the input file" % len(P),
             "no file of that name" if back is None else "%d bytes: %s" % (len(back), back[:48].hex())),
            (r2.rc != 0 or b"Success. File from: alice" in r2.err, "decryption names the sender: Success. File from: alice", r2.errtext()[-200:]),
            (r1.out == b"" and r2.out == b"", "with -o nothing goes to standard output", "%d and %d bytes on stdout" % (len(r1.out), len(r2.out))),
            (not touched and same_in, "files that were not named on the command line, and the input file, are left alone", "changed: %r%s" % (touched, "" if same_in else " and the input file")),
        ]
        for ok, exp, obs in checks:
            ctx.oracle_checks += 1
            if not ok:
                nviol += 1
                ctx.distribution["c01cli:violations"] = ctx.distribution.get("c01cli:violations", 0) + 1
                if nviol <= 8:
                    ctx.violations.append({"input": {"kind": "proc", "scenario": scen, "commands": [r1.describe(), r2.describe()]},
                                           "expected": exp, "observed": obs, "finding_key": None})
                break


# =========================================================================== kva: password / salt / key-relation families
# (shared by C02 and C06)
KVA_PW_EDGES = [0, 1, 31, 32, 33, 63, 64, 65, 127, 128, 129, 255, 256, 257, 511, 512, 513, 1000, 1023, 1024, 1025,
                2047, 2048, 2049, 4095, 4096, 4097, 5000]


def kva_hmac_image(pw):
    """RFC 2104 key block of a password: the ONLY thing PBKDF2-HMAC-SHA256 (hence scrypt) sees of it.  Two passwords
    with the same image are the genuine equivalence of the known finding hmac-key-hashing (Proofs/PasswordEquiv.v)."""
    import hashlib
    k = hashlib.sha256(pw).digest() if len(pw) > 64 else pw
    return k + bytes(64 - len(k))


def kva_password(ctx, n, style=None):
    """a password of exactly n bytes; the last byte is never 0 (so that no generated pair is related by zero padding)"""
    rng = ctx.rng
    style = style or rng.choice(["bin", "bin0", "ascii", "utf8", "const", "period"])
    if n == 0:
        return b""
    if style == "bin":
        b = bytes(rng.randrange(1, 256) for _ in range(n))
    elif style == "bin0":          # zero bytes anywhere but at the end
        b = bytes(rng.choice([0, 0, rng.randrange(256)]) for _ in range(n - 1)) + bytes([rng.randrange(1, 256)])
    elif style == "ascii":
        b = bytes(rng.choice(b"abcdefghijklmnopqrstuvwxyzABCDEFGHIJKLMNOPQRSTUVWXYZ0123456789 -_.,!?") for _ in range(n))
        if b[-1:] == b" ":
            b = b[:-1] + b"z"
    elif style == "utf8":          # multi-byte text, padded with ASCII to the exact byte length
        s = b""
        while len(s) + 4 <= n:
            s += rng.choice(["ä", "ß", "ж", "中", "✓", "\U0001f511", "é", "ש"]).encode()
        b = s[:n] if len(s) >= n else s + b"q" * (n - len(s))
    elif style == "const":         # one repeated byte: every prefix is a password of the same family
        b = bytes([rng.randrange(1, 256)]) * n
    else:                          # short period: positions k and k + period carry the same byte
        per = bytes(rng.randrange(1, 256) for _ in range(rng.choice([2, 3, 7, 16, 64])))
        b = (per * (n // len(per) + 1))[:n]
    assert len(b) == n
    return b


def kva_other_passwords(ctx, pw, full):
    """DIFFERENT passwords close to pw, none of them equivalent to pw under RFC 2104 key normalisation:
    differing only in the last byte / only beyond a power-of-two boundary, proper prefixes (also at every power-of-two
    length), extensions, one interior byte, case of a letter, swapped halves, the password doubled"""
    rng = ctx.rng
    n = len(pw)

    def other(x):                  # a different non-zero byte
        y = rng.randrange(1, 256)
        while y == x:
            y = rng.randrange(1, 256)
        return bytes([y])
    cands = []
    cands.append(("extended", pw + other(0)))
    cands.append(("extended-long", pw + kva_password(ctx, rng.choice([1, 63, 64, 65, 200]), "bin")))
    if n >= 1:
        cands.append(("last-byte", pw[:-1] + other(pw[-1])))
        cands.append(("first-byte", other(pw[0]) + pw[1:]))
        cands.append(("minus-last", pw[:-1]))
        i = rng.randrange(n)
        cands.append(("byte@%d" % i, pw[:i] + other(pw[i]) + pw[i + 1:]))
        cands.append(("doubled", pw + pw))
    if n >= 2:
        cands.append(("swapped-halves", pw[n // 2:] + pw[:n // 2]))
        cands.append(("reversed", pw[::-1]))
    k = 16
    while k < n:
        # identical on the first k bytes, different somewhere after
        j = rng.randrange(k, n)
        cands.append(("tail-after-%d" % k, pw[:j] + other(pw[j]) + pw[j + 1:]))
        cands.append(("prefix-%d" % k, pw[:k]))
        k *= 2
    letters = [i for i, x in enumerate(pw) if 65 <= (x & 0xdf) <= 90 and x < 128]
    if letters:
        i = rng.choice(letters)
        cands.append(("case@%d" % i, pw[:i] + bytes([pw[i] ^ 0x20]) + pw[i + 1:]))
    img = kva_hmac_image(pw)
    good, seen = [], {pw}
    for lab, w in cands:
        if w in seen or kva_hmac_image(w) == img:
            continue
        if len(w) <= 64 and w[-1:] == b"\x00":
            continue
        seen.add(w)
        good.append((lab, w))
    if full and n <= 300:
        return good
    must = [x for x in good if x[0] in ("last-byte", "extended")]
    rest = [x for x in good if x[0] not in ("last-byte", "extended")]
    return must + rng.sample(rest, min(len(rest), 4 if full else 1))


def kva_special_salts(ctx, full):
    """32-byte salts of special shapes: the property quantifies over ALL salts, a CSPRNG never produces these"""
    rng = ctx.rng
    c = rng.randrange(1, 255)
    fixed = [("zero", bytes(32)), ("ff", b"\xff" * 32), ("const-%02x" % c, bytes([c]) * 32), ("ascending", bytes(range(32)))]
    more = [("descending", bytes(range(255, 223, -1))), ("alternating", b"\x00\xff" * 16), ("first-only", b"\x01" + bytes(31)),
            ("last-only", bytes(31) + b"\x80"), ("ascii", b"0123456789abcdef0123456789abcdef"), ("magic", b"egk\x20" * 8),
            ("newlines", b"\r\n" * 16), ("half-zero", ctx.rbytes(16) + bytes(16)), ("const-20", b" " * 32),
            ("const-0a", b"\n" * 32), ("period-2", bytes([rng.randrange(256), rng.randrange(256)]) * 16)]
    return fixed + (more if full else rng.sample(more, 2))


def kva_reject(what):
    def f(res):
        if res["code"] == 0:
            return ("a different password is rejected (%s)" % what, "ok |out|=%d" % len(res["out"]))
        if res["code"] == 1 or res["code"] >= 900:
            return ("a wrong password is an error value, never a panic/abort", res["outcome"])
        if res["out"]:
            return ("a rejected password releases no plaintext (%s)" % what, "out=" + res["out"][:32].hex())
        return None
    return f


def kva_ref_kdf(pw, salt):
    """scrypt(pw, salt, 32768, 8, 1, 32) by OpenSSL (the reference C18 names); None when unavailable"""
    import hashlib
    if not hasattr(hashlib, "scrypt"):
        return None
    try:
        return hashlib.scrypt(pw, salt=salt, n=32768, r=8, p=1, dklen=32, maxmem=2 ** 31 - 1)
    except Exception:
        return None


class KvaRefKdf:
    """mix-in: the production-parameter scrypt values the model needs (Run/RunLib.v kdf_table) come from the RFC 7914
    reference (OpenSSL via hashlib, validated on the RFC vectors by C18) instead of from the implementation under
    test, so that a change of the key derivation applied to BOTH directions (truncated / folded / re-encoded password,
    altered salt, ...) shows as a model-vs-implementation difference on the file bytes.  Falls back to the
    implementation's own values when no reference scrypt is available."""

    KDF_BATCH_BYTES = 100000

    def run_cases(self, ctx, cases, model=True):
        # the table is written into every generated case file: keep it small by evaluating the cases in batches
        # whose distinct (password, salt) pairs total at most KDF_BATCH_BYTES bytes (one batch in a quick run)
        batches, cur, size, seen = [], [], 0, set()
        for c in cases:
            add = sum(len(pw) + 32 for pw, salt in c.kdf_need() if (pw, salt) not in seen)
            if cur and model and size + add > self.KDF_BATCH_BYTES:
                batches.append(cur)
                cur, size, seen = [], 0, set()
                add = sum(len(pw) + 32 for pw, salt in c.kdf_need())
            seen.update(c.kdf_need())
            cur.append(c)
            size += add
        if cur:
            batches.append(cur)
        for b in batches:
            self.kva_run_batch(ctx, b, model)

    def kva_run_batch(self, ctx, cases, model):
        orig = vlib.kdf_table

        def table(binp, cs):
            need, seen = [], set()
            for c in cs:
                for pw, salt in c.kdf_need():
                    if (pw, salt) not in seen:
                        seen.add((pw, salt))
                        need.append((pw, salt))
            tab = []
            with vlib.ThreadPoolExecutor(max_workers=max(1, min(4, vlib.NPROC))) as ex:
                keys = list(ex.map(lambda ps: kva_ref_kdf(*ps), need))
            if any(k is None for k in keys):
                ctx.distribution["kdf-table:implementation"] = ctx.distribution.get("kdf-table:implementation", 0) + len(need)
                return orig(binp, cs)
            ctx.distribution["kdf-table:rfc7914-reference"] = ctx.distribution.get("kdf-table:rfc7914-reference", 0) + len(need)
            return [(pw, salt, k) for (pw, salt), k in zip(need, keys)]
        vlib.kdf_table = table
        try:
            return super().run_cases(ctx, cases, model)
        finally:
            vlib.kdf_table = orig


def kva_password_family_cases(ctx, full, others=True, n_lens=None):
    """password-mode files over the LENGTH of the password (0 .. 5000 bytes, both sides of 64/128/256/.. and of the
    HMAC block) and its content style, and over special SALTS; each file is decrypted with its own password
    (round trip) and - when others - with close but different passwords (must be refused, nothing released)"""
    rng = ctx.rng
    if full:
        lens = list(KVA_PW_EDGES) + [rng.randrange(66, 6000) for _ in range(8)]
    else:
        lens = [65, 129, 257] + rng.sample([127, 128, 255, 256], 2) + rng.sample([0, 1, 31, 32, 33, 63, 64], 2) \
            + rng.sample([511, 512, 513, 1000, 1023, 1024, 1025, 2047, 2048, 2049, 4095, 4096], 2) \
            + [rng.randrange(66, 6000), rng.choice([4097, 5000])]
        if n_lens:
            lens = lens[:3] + rng.sample(lens[3:], max(0, n_lens - 3))
    encs = []
    for n in lens:
        pw = kva_password(ctx, n)
        P = ctx.rbytes(rng.choice([0, 1, 17, 40]))
        encs.append((P, Case("pass_enc", pw=pw, salt=ctx.rbytes(32), data=P, rs=rng.choice(["-", "c1", "c7,c64"]),
                             oracle=ok_only("password encryption succeeds for a %d-byte password" % n),
                             tags=["enc", "pwlen=%d" % n, "password-length"])))
    for lab, salt in kva_special_salts(ctx, full):
        pw = rng.choice([b"", b"hackme", kva_password(ctx, rng.choice([5, 20, 70, 300]))])
        P = ctx.rbytes(rng.choice([0, 1, 33]))
        encs.append((P, Case("pass_enc", pw=pw, salt=salt, data=P, oracle=ok_only("password encryption succeeds with salt " + lab),
                             tags=["enc", "salt=" + lab.split("-")[0], "special-salt"])))
    vlib.run_impl(ctx.bin, [c for _, c in encs])
    out = []
    for P, c in encs:
        out.append(c)
        if c.result["code"] != 0:
            continue
        F = c.result["out"]
        what = [t for t in c.tags if t.startswith("pwlen=") or t.startswith("salt=")][0]
        out.append(Case("pass_dec", pw=c.a["pw"], data=F, rs=rng.choice(["-", "c1,c1,c1,c1,c1", "c36,c16,c1"]),
                        oracle=ok_eq(P, "password round trip (%s)" % what), tags=["dec", c.tags[-1]]))
        if others and "password-length" in c.tags:
            for lab, w in kva_other_passwords(ctx, c.a["pw"], full):
                out.append(Case("pass_dec", pw=w, data=F, oracle=kva_reject("%s, other=%s" % (what, lab)),
                                tags=["wrong-password", "other=" + lab.split("-")[0].split("@")[0]]))
        elif others and full:
            w = c.a["pw"] + b"x"
            out.append(Case("pass_dec", pw=w, data=F, oracle=kva_reject(what), tags=["wrong-password"]))
    return out


def kva_reference_pass_file(ctx, pw, salt, P, cs, rs="-"):
    """An INDEPENDENT writer of the documented password-file format: magic, salt, then the chunk stream under the
    RFC 7914 reference key (OpenSSL) with the magic as additional data, with ANY chunk size 1..65536 and read
    partition (chunkings the real encryptor never emits).  None when no reference scrypt is available."""
    key = kva_ref_kdf(pw, salt)
    if key is None:
        return None
    magic = bytes([0x65, 0x67, 0x6b, 0x20])
    body = Case("enc_chunks", key=key, aad=magic, cs=cs, data=P, rs=rs)
    vlib.run_impl(ctx.bin, [body])
    if body.result["code"] != 0:
        return None
    return magic + salt + body.result["out"]


def r2_c02_boundary_cases(ctx, full, first=True):
    """password-mode round trips of plaintexts that end EXACTLY on a chunk boundary (65536; thorough: also 131072), delivered
    by one full read (slice / regular file: the single chunk is full AND final), by an explicit full read, and split just
    before / just after the boundary; each file decrypted from a slice and from short reads.  first=True: the one-read
    shape only (the cases that are also compared with the model); first=False: the other shapes (direct oracle only)"""
    rng = ctx.rng
    shapes = [(BIG, "-")] if first else [(BIG, "c65536"), (BIG, "c65535,c1"), (BIG, "c1,c65535"), (BIG, "c32768,c32768")]
    if full and not first:
        shapes += [(2 * BIG, "-"), (2 * BIG, "c65536,c65536"), (2 * BIG, "c65536,c65535,c1"), (2 * BIG, "c1,c65536,c65535")]
    elif not first:
        shapes = rng.sample(shapes, 2)
    encs = []
    for n, rs in shapes:
        P = ctx.rbytes(n)
        pw = rng.choice(PASSWORDS[:5])
        encs.append((P, Case("pass_enc", pw=pw, salt=ctx.rbytes(32), data=P, rs=rs,
                             oracle=ok_only("password encryption of a %d-byte plaintext read as %s succeeds" % (n, rs)),
                             tags=["enc", "len=%d" % n, "chunk-boundary"])))
    vlib.run_impl(ctx.bin, [c for _, c in encs])
    out = []
    for P, c in encs:
        out.append(c)
        if c.result["code"] != 0:
            continue
        for rs in (["-"] if first else ["-", rng.choice(["c36,c16,c65552", "c100,c31,c1,c50000", "c1,c1,c1,c1,c1"])]):
            out.append(Case("pass_dec", pw=c.a["pw"], data=c.result["out"], rs=rs,
                            oracle=ok_eq(P, "password round trip of a %d-byte plaintext (encryptor's reads: %s; decryptor's: %s)"
                                         % (len(P), c.a["rs"], rs)), tags=["dec", "len=%d" % len(P), "chunk-boundary"]))
    return out


class C02(KvaRefKdf, Prop):
    id = "C02"
    rule = ("cases: password-mode encryptions (7 passwords incl. empty, non-ASCII, >64 bytes; random salts; lengths "
            "0,1,65537 (+65535,65536,2 chunks)) decrypted with the same password under other schedules, and every file "
            "decrypted with every OTHER password (must fail, nothing released); passwords of 0..5000 bytes on both sides "
            "of 64/128/256/512/1024/.. in six content styles, each file also tried with close passwords (last byte, "
            "bytes beyond every power-of-two boundary, prefixes, extensions, case, halves swapped) that are NOT related "
            "by RFC 2104 key normalisation; special salts (all-zero, all-0xff, constant byte, ascending, ..) round-tripped; "
            "at the command line (real `kestrel password encrypt|decrypt --env-pass` processes): round trips of every "
            "plaintext length 0..40 and around 65536/131072 from a file argument and from stdin (one write; first delivery of "
            "1,2,3,.. bytes; byte by byte; random cuts; ciphertext cut inside magic/salt/chunk header), each delivery sent only "
            "after the previous one was taken; passwords of many surface shapes each tried against ~50 look-alike DIFFERENT "
            "passwords (quoted, blanks/CR/LF/TAB/BOM added or trimmed, NFC/NFD/NFKC, case, escapes, truncations, ..): exit 1, "
            "nothing released; input/output NAME families in one directory with bystander files (same stem other extension, "
            "output = input + suffix and back, hidden, blanks, non-ASCII, leading dash, other directory) with whole-directory "
            "snapshots; files literally named `-`, `--`, `-o` (as input, -o value and decrypted file, with and without `--`, "
            "stdin the null device or a pipe with unrelated bytes); in-process: plaintexts of exactly 65536 (131072) bytes from one "
            "full read (the single chunk is full and final), from an explicit full read and split just before / after the boundary; "
            "non-trivial = all")
    assumptions = ["scrypt at N=32768 is not evaluated in Coq: the model takes the derived key from a table filled with "
                   "the RFC 7914 reference value (OpenSSL's scrypt through hashlib, the reference of C18; the "
                   "implementation's own scrypt only if no reference is available)",
                   "wrong-password rejection is proved under the no-forgery-in-run premise"]

    def cases(self, ctx):
        out = api_roundtrip_cases(ctx, ctx.thorough(), "pass")
        files = [c for c in out if c.op == "pass_enc" and c.result and c.result["code"] == 0]
        sel = files if ctx.thorough() else files[:3]
        for c in sel:
            for pw in PASSWORDS:
                if pw == c.a["pw"]:
                    continue

                def orc(res):
                    if res["code"] == 0:
                        return ("a different password is rejected", "ok")
                    if res["out"]:
                        return ("a rejected password releases no plaintext", "out=" + res["out"][:32].hex())
                    return None
                if len(c.result["out"]) > 5000 and not ctx.thorough():
                    continue
                out.append(Case("pass_dec", pw=pw, data=c.result["out"], oracle=orc, tags=["wrong-password"]))
        # KNOWN FINDING (PBKDF2-HMAC key hashing, RFC 2104): a password longer than the 64-byte HMAC block and its
        # 32-byte SHA-256 digest derive the same scrypt key, so the digest is a DIFFERENT password that decrypts
        import hashlib
        for c in files[:1]:
            longpw = b"L" * 65
            P = c.a["data"]
            enc = Case("pass_enc", pw=longpw, salt=ctx.rbytes(32), data=P[:64])
            vlib.run_impl(ctx.bin, [enc])

            def orc2(res, P=P[:64]):
                if res["code"] == 0:
                    return ("a different password is rejected", "ok: the SHA-256 digest of a >64-byte password decrypts the file",
                            "hmac-key-hashing")
                return None
            out.append(enc)
            out.append(Case("pass_dec", pw=hashlib.sha256(longpw).digest(), data=enc.result["out"], oracle=orc2,
                            tags=["digest-of-long-password"]))
        out = out + roundtrip_chunk_cases(ctx, False)[:120]
        # password LENGTH / content families and special salts; close-but-different passwords must be refused
        out = out + kva_password_family_cases(ctx, ctx.thorough())
        # a plaintext of exactly one chunk from ONE full read: the first chunk is both full and final
        return out + r2_c02_boundary_cases(ctx, ctx.thorough(), first=True)

    def explore(self, ctx):
        super().explore(ctx)
        # the other exact-boundary shapes (split before / after the boundary, two chunks): direct oracle only
        self.run_cases(ctx, r2_c02_boundary_cases(ctx, ctx.thorough(), first=False), model=False)
        # the command-line half (`kestrel password encrypt|decrypt --env-pass`, tools/props_lib_cli.py)
        props_lib_cli.c02_cli_part(self, ctx)

    def replay(self, ctx, payload):
        if payload.get("input", {}).get("kind") == "proc":
            return props_lib_cli.s2_replay(ctx, payload)
        return super().replay(ctx, payload)


def frozen_corpus_cases(ctx):
    """files written once by the pinned code (corpus/frozen, committed) and the repository's golden files must keep
    decrypting — by the current implementation AND by the model"""
    import hashlib, json
    d = os.path.join(vlib.VERIF, "corpus", "frozen")
    idx = json.load(open(os.path.join(d, "index.json")))
    out = []
    for ent in idx["files"]:
        if ent["len"] > 5000 and not ctx.thorough() and ent["len"] != 65537:
            continue
        if ent["len"] == 65537 and not ctx.thorough() and ent["mode"] == "pass":
            continue
        data = open(os.path.join(d, ent["file"]), "rb").read()

        def orc(res, ent=ent):
            if res["code"] != 0:
                return ("a file written by the pinned release keeps decrypting (%s)" % ent["file"], res["outcome"])
            if hashlib.sha256(res["out"]).hexdigest() != ent["plaintext_sha256"]:
                return ("frozen file %s decrypts to its original plaintext" % ent["file"], "sha256=" + hashlib.sha256(res["out"]).hexdigest())
            if ent["mode"] == "key" and res["extra"].hex() != ent["sender"]:
                return ("frozen file %s names its sender" % ent["file"], "sender=" + res["extra"].hex())
            return None
        tag = ["golden" if ent["file"].startswith("golden") else "frozen"]
        if ent["mode"] == "key":
            out.append(Case("key_dec", r=bytes.fromhex(ent["r"]), rpk=bytes.fromhex(ent["rpk"]), data=data, oracle=orc, tags=tag))
        else:
            out.append(Case("pass_dec", pw=bytes.fromhex(ent["pw"]), data=data, oracle=orc, tags=tag))
    return out


def kva_key_relation_cases(ctx, full):
    """key-mode files whose keys stand in a RELATION the format does not forbid and random keys never hit: sender ==
    recipient (a file to oneself), ephemeral == sender static, ephemeral == recipient, all three equal, payload key
    equal to a key / all-zero / all-0xff.  Noise X and the documented format put no constraint between these, so the
    encryptor's bytes must be the reference's and the file must decrypt to its plaintext and sender."""
    rng = ctx.rng
    (a, A), (b, B), (e, E) = keypairs(ctx, 3)
    rel = [("self", a, A, a, A, e, E, None), ("self", b, B, b, B, e, E, None),
           ("self+eph", a, A, a, A, a, A, None), ("eph=sender", a, A, b, B, a, A, None),
           ("eph=recipient", a, A, b, B, b, B, None), ("payload=recipient-key", a, A, b, B, e, E, B),
           ("payload=sender-private", a, A, b, B, e, E, a), ("payload=zero", a, A, b, B, e, E, bytes(32)),
           ("payload=ff", a, A, a, A, e, E, b"\xff" * 32)]
    if not full:
        rel = rel[:1] + rng.sample(rel[1:], 2)
    encs = []
    for lab, s, spk, r, rpk, ee, eepk, pk in rel:
        n = rng.choice([0, 1, 20, 70])
        P = ctx.rbytes(n)
        rs = rng.choice(["-", "c1", "c3,c64", "c7"])
        if rs != "-":
            rs = ",".join([rs] * (n + 2))
        encs.append((P, r, rpk, lab, Case("key_enc", s=s, spk=spk, r=rpk, e=ee, epk=eepk, pk=(pk if pk is not None else ctx.rbytes(32)),
                                     data=P, rs=rs, oracle=ok_only("key encryption succeeds (%s)" % lab),
                                     tags=["enc", "key-relation", "rel=" + lab.split("=")[0]])))
    vlib.run_impl(ctx.bin, [c for _, _, _, _, c in encs])
    out = []
    for P, r, rpk, lab, c in encs:
        out.append(c)
        if c.result["code"] != 0:
            continue

        def orc(res, P=P, spk=c.a["spk"], lab=lab):
            if res["code"] != 0 or res["out"] != P:
                return ("a conforming key file decrypts to its plaintext (%s)" % lab, res["outcome"] + " |out|=%d" % len(res["out"]))
            if res["extra"] != spk:
                return ("and to its sender (%s)" % lab, "sender=" + res["extra"].hex())
            return None
        out.append(Case("key_dec", r=r, rpk=rpk, data=c.result["out"], rs=rng.choice(["-", "c1,c1,c1", "c4,c128,c16"]),
                        oracle=orc, tags=["dec", "key-relation", c.tags[-1]]))
    return out


def kva_reference_pass_cases(ctx, full):
    """password files written by the independent reference writer (kva_reference_pass_file): long passwords, special
    salts, chunk sizes and partitions the encryptor never emits; every one must decrypt to its plaintext"""
    rng = ctx.rng
    out = []
    salts = kva_special_salts(ctx, True)
    plan = [(rng.choice([65, 127, 128, 129]), 1), (rng.choice([255, 256, 257, 300]), 7), (rng.choice([1000, 1025, 4097, 5000]), 65536),
            (rng.choice([0, 1, 63, 64]), rng.randrange(2, 65536))]
    if full:
        plan += [(n, rng.choice([1, 2, 100, 65535, 65536])) for n in KVA_PW_EDGES]
    for i, (n, cs) in enumerate(plan):
        pw = kva_password(ctx, n)
        lab, salt = rng.choice(salts) if i % 2 else ("random", ctx.rbytes(32))
        P = ctx.rbytes(rng.choice([0, 1, 9, 30]))
        parts = []
        left = len(P)
        while left > 0:
            k = rng.randrange(1, min(cs, left) + 1)
            parts.append(k)
            left -= k
        F = kva_reference_pass_file(ctx, pw, salt, P, cs, script_of(parts))
        if F is None:
            continue
        out.append(Case("pass_dec", pw=pw, data=F, rs=rng.choice(["-", "c1,c1,c1,c1", "c36,c3,c50"]),
                        oracle=ok_eq(P, "a conforming password file (pwlen=%d, salt %s, %d chunks) decrypts" % (n, lab, len(parts))),
                        tags=["reference-writer", "pwlen=%d" % n, "salt=" + lab.split("-")[0]]))
    return out


# --- r2: a reference WRITER in Python that shares no code with the implementation under test (RFC 8439 / 7748 / 5869 / 2104
# from the c19_* transcriptions below, SHA-256 and scrypt from OpenSSL through hashlib), for the "reference-produced files
# with arbitrary legal chunkings" and "Noise_X" halves of C06.  The files of kva_reference_pass_file are sealed by the
# implementation's own chunk loop and so follow any change of it that is applied to both directions.
def r2_ref_chunk_stream(key, aad, pieces):
    """docs/file-format.txt: per chunk 8-byte BE counter, 4-byte BE last-chunk flag, 4-byte BE length, then the AEAD of the
    piece under nonce = 4 zero bytes || LE64 counter with AD = aad || flag || length.  pieces: the plaintext of each chunk
    (1..65536 bytes each, the last one is the final chunk; [] = the empty plaintext = one empty final chunk)"""
    pieces = list(pieces) or [b""]
    out = b""
    for i, p in enumerate(pieces):
        meta = (1 if i == len(pieces) - 1 else 0).to_bytes(4, "big") + len(p).to_bytes(4, "big")
        out += i.to_bytes(8, "big") + meta + c19_seal(key, c19_noise_nonce(i), aad + meta, p)
    return out


def r2_ref_noise_x(s, spk, rpk, e, epk, prologue, payload):
    """Noise rev 34, pattern X (<- s ... -> e, es, s, ss), 25519 / ChaChaPoly / SHA256: (message, handshake hash)"""
    import hashlib
    sha = lambda m: hashlib.sha256(m).digest()   # noqa: E731
    h = NOISE_NAME + bytes(32 - len(NOISE_NAME))     # 31 bytes <= HASHLEN: padded, not hashed
    ck = h
    h = sha(h + prologue)                            # MixHash(prologue) — also for an empty prologue
    h = sha(h + rpk)                                 # pre-message: responder's static key
    h = sha(h + epk)                                 # e
    o = c19_hkdf(ck, c19_x25519(e, rpk), b"", 64)    # es
    ck, k = o[:32], o[32:]
    c1 = c19_seal(k, c19_noise_nonce(0), h, spk)     # s
    h = sha(h + c1)
    o = c19_hkdf(ck, c19_x25519(s, rpk), b"", 64)    # ss
    ck, k = o[:32], o[32:]
    c2 = c19_seal(k, c19_noise_nonce(0), h, payload)
    return epk + c1 + c2, sha(h + c2)


def r2_ref_key_file(s, spk, rpk, e, epk, payload, pieces):
    msg, hh = r2_ref_noise_x(s, spk, rpk, e, epk, PROLOGUE_KEY, payload)
    return PROLOGUE_KEY + msg + r2_ref_chunk_stream(c19_hkdf(b"", payload, hh, 32), b"", pieces)


def r2_ref_pass_file(pw, salt, pieces):
    key = kva_ref_kdf(pw, salt)
    if key is None:
        return None
    magic = bytes([0x65, 0x67, 0x6b, 0x20])
    return magic + salt + r2_ref_chunk_stream(key, magic, pieces)


def r2_pieces(P, parts):
    out, i = [], 0
    for k in parts:
        out.append(P[i:i + k])
        i += k
    assert i == len(P)
    return out


def r2_c06_reference_cases(ctx, full):
    """(1) WRITER side: the implementation encrypts (chunk hook at small sizes, key mode, password mode) from sources whose
    reads are short before the end, so that the files have short NON-FINAL chunks: the bytes must be those of the Python
    reference writer (and of the Gallina model).  (2) READER side: reference-written files in chunkings the encryptor never
    emits (short chunks in the middle, one-byte chunks, a full chunk after a short one) must decrypt to plaintext and
    sender.  (3) Noise X through the exported noise_encrypt / noise_decrypt with prologues of every kind — EMPTY, one
    byte, the two file magics, lengths around the SHA-256 block (23, 24, 32, 64), random: message and handshake hash equal
    the reference's, and the reference's messages are accepted with the reference's payload, sender and handshake hash."""
    rng = ctx.rng
    out = []

    def equals(F, what):
        def f(res):
            if res["code"] != 0 or res["out"] != F:
                return ("the encryptor's output equals the reference writer's %d bytes (%s)" % (len(F), what),
                        res["outcome"] + " |out|=%d, first difference at byte %d" % (len(res["out"]), props_lib_cli.s2_first_diff(res["out"], F)))
            return None
        return f

    def decrypts(P, sender, what):
        def f(res):
            if res["code"] != 0 or res["out"] != P:
                return ("a conforming file decrypts to its plaintext (%s)" % what, res["outcome"] + " |out|=%d" % len(res["out"]))
            if sender is not None and res["extra"] != sender:
                return ("and names its sender (%s)" % what, "sender=" + res["extra"].hex())
            return None
        return f
    (s, spk), (r, rpk), (e, epk) = keypairs(ctx, 3)
    DEC_RS = ["-", "c1,c1,c1,c1,c1,c1", "c16,c1,c7", "c100", "c36,c16,c3"]
    # (1) + (2) chunk hook, small chunk sizes
    for cs in ((2, 3, 5, 16) if full else (3, rng.choice([2, 5, 16]))):
        for _ in range(4 if full else 2):
            key, aad = ctx.rbytes(32), rng.choice([b"", b"egk\x20", ctx.rbytes(rng.randrange(1, 9))])
            n = rng.randrange(cs + 1, 4 * cs + 2)
            P = ctx.rbytes(n)
            parts = r2_short_partition(rng, n, cs)
            F = r2_ref_chunk_stream(key, aad, r2_pieces(P, parts))
            what = "chunk size %d, %d bytes read as %s" % (cs, n, "/".join(map(str, parts)))
            out.append(Case("enc_chunks", key=key, aad=aad, cs=cs, data=P, rs=script_of(parts), oracle=equals(F, what),
                            tags=["reference-bytes", "short-non-final-chunk", "op=enc_chunks"]))
            out.append(Case("dec_chunks", key=key, aad=aad, cs=cs, data=F, rs=rng.choice(DEC_RS),
                            oracle=decrypts(P, None, "reference-written chunk stream, " + what),
                            tags=["reference-file", "short-non-final-chunk", "op=dec_chunks"]))
    # production chunk size, both file modes
    for mode in ("key", "pass"):
        for i in range(3 if full else 2):
            n = rng.randrange(2, 200)
            P = ctx.rbytes(n)
            parts = r2_short_partition(rng, n, 65536, pieces=rng.choice([2, 3, 4]) if n >= 4 else None)
            what = "%s mode, %d bytes read as %s" % (mode, n, "/".join(map(str, parts)))
            if mode == "key":
                pk = ctx.rbytes(32)
                F = r2_ref_key_file(s, spk, rpk, e, epk, pk, r2_pieces(P, parts))
                out.append(Case("key_enc", s=s, spk=spk, r=rpk, e=e, epk=epk, pk=pk, data=P, rs=script_of(parts),
                                oracle=equals(F, what), tags=["reference-bytes", "short-non-final-chunk", "op=key_enc"]))
                out.append(Case("key_dec", r=r, rpk=rpk, data=F, rs=rng.choice(DEC_RS), oracle=decrypts(P, spk, "reference-written file, " + what),
                                tags=["reference-file", "short-non-final-chunk", "op=key_dec"]))
            else:
                pw, salt = kva_password(ctx, rng.choice([0, 6, 20, 70])), ctx.rbytes(32)
                F = r2_ref_pass_file(pw, salt, r2_pieces(P, parts))
                if F is None:
                    continue
                out.append(Case("pass_enc", pw=pw, salt=salt, data=P, rs=script_of(parts),
                                oracle=equals(F, what), tags=["reference-bytes", "short-non-final-chunk", "op=pass_enc"]))
                out.append(Case("pass_dec", pw=pw, data=F, rs=rng.choice(DEC_RS), oracle=decrypts(P, None, "reference-written file, " + what),
                                tags=["reference-file", "short-non-final-chunk", "op=pass_dec"]))
    # (3) Noise X with every kind of prologue
    pros = [b"", b"", bytes([rng.randrange(256)]), PROLOGUE_KEY, bytes([0x65, 0x67, 0x6b, 0x20]), b"Prologue123",
            ctx.rbytes(23), ctx.rbytes(24), ctx.rbytes(32), ctx.rbytes(64), ctx.rbytes(rng.randrange(2, 200)), bytes(rng.randrange(1, 40))]
    if not full:
        pros = pros[:2] + rng.sample(pros[2:], 4)
    for pro in pros:
        pk = ctx.rbytes(32)
        msg, hh = r2_ref_noise_x(s, spk, rpk, e, epk, pro, pk)
        what = "prologue of %d bytes %s" % (len(pro), pro[:12].hex())

        def enc_orc(res, msg=msg, hh=hh, what=what):
            if res["code"] != 0 or res["out"] != msg:
                return ("noise_encrypt writes the Noise_X_25519_ChaChaPoly_SHA256 message (%s)" % what,
                        res["outcome"] + " first difference at byte %d of %d" % (props_lib_cli.s2_first_diff(res["out"], msg), len(msg)))
            if res["extra"] != hh:
                return ("and reports the Noise handshake hash (%s)" % what, "hh=" + res["extra"].hex())
            return None

        def dec_orc(res, pk=pk, hh=hh, what=what):
            if res["code"] != 0 or res["out"] != pk:
                return ("noise_decrypt accepts a conforming Noise X message and returns its payload (%s)" % what, res["outcome"])
            if res["extra"] != hh + spk:
                return ("with the handshake hash and the sender's static key (%s)" % what, "hh+sender=" + res["extra"].hex())
            return None
        tg = ["noise", "prologue=%s" % ("empty" if not pro else "file" if pro == PROLOGUE_KEY else "other")]
        out.append(Case("noise_enc", s=s, spk=spk, r=rpk, e=e, epk=epk, prologue=pro, payload=pk, oracle=enc_orc, tags=tg + ["reference-bytes"]))
        out.append(Case("noise_dec", r=r, rpk=rpk, prologue=pro, msg=msg, oracle=dec_orc, tags=tg + ["reference-file"]))
    return out


class C06(KvaRefKdf, Prop):
    id = "C06"
    model_is_reference = True
    rule = ("cases: exact output bytes of key/password encryption (injected ephemeral, payload key, salt) compared with "
            "the Gallina transcription of the documented format over the RFC specifications, under all read partitions "
            "at small chunk sizes and selected schedules at 65536; Noise-AEAD nonce layout at counters across the 64-bit "
            "range; handshake/HKDF components; password files over password lengths 0..5000 (both sides of 64/128/256/..), "
            "content styles and special salts, with the model's scrypt value taken from the RFC 7914 reference; "
            "reference-written password files in chunkings the encryptor never emits; key files with related keys "
            "(sender == recipient, ephemeral == static, special payload keys); frozen files incl. long passwords, "
            "special salts and self-addressed key files; an independent Python reference writer (OpenSSL SHA-256/scrypt, RFC 8439/"
            "7748/5869 transcriptions): encryptions from sources with short reads (files with short NON-FINAL chunks; chunk hook, "
            "key and password mode) equal its bytes, its files in chunkings the encryptor never emits decrypt to plaintext and "
            "sender; noise_encrypt/noise_decrypt with EMPTY, one-byte, 23/24/32/64-byte and random prologues against its Noise X "
            "message, handshake hash, payload and sender; across entry points: files written by the real `kestrel password encrypt` "
            "under ASCII / Latin-1-range / U+0100.. / other-script / astral / random passwords equal the reference writer's bytes "
            "for the password's UTF-8 bytes and the file's salt, decrypt in the library and the model, and reference-written files "
            "(short non-final chunks) are opened by `kestrel password decrypt`; non-trivial = all")
    assumptions = ["the Gallina RFC specifications are validated by the RFCs' own test vectors (Spec/*Kat.v)",
                   "scrypt at N=32768 is not evaluated in Coq: the model's value is OpenSSL's (hashlib.scrypt), the "
                   "reference C18 names"]

    def cases(self, ctx):
        rng = ctx.rng
        out = roundtrip_chunk_cases(ctx, ctx.thorough())[: (4000 if ctx.thorough() else 400)]
        out += api_roundtrip_cases(ctx, ctx.thorough(), "key") + api_roundtrip_cases(ctx, False, "pass")
        key = ctx.rbytes(32)
        ns = [0, 1, 255, 256, 2 ** 32 - 1, 2 ** 32, 2 ** 63, 2 ** 64 - 2] + [rng.getrandbits(64) % (2 ** 64 - 1) for _ in range(40 if ctx.thorough() else 8)]
        for n in ns:
            ad, pt = ctx.rbytes(rng.randrange(0, 20)), ctx.rbytes(rng.randrange(0, 40))
            c = Case("nseal", key=key, n=n, ad=ad, x=pt, tags=["nonce"])
            out.append(c)
        out += frozen_corpus_cases(ctx)
        (s, spk), (r, rpk), (e, epk) = keypairs(ctx, 3)
        for _ in range(4 if ctx.thorough() else 2):
            out.append(Case("noise_enc", s=s, spk=spk, r=rpk, e=e, epk=epk, prologue=bytes([0x65, 0x67, 0x6b, 0x10]),
                            payload=ctx.rbytes(32), tags=["noise"]))
            out.append(Case("hkdfn", ck=ctx.rbytes(32), ikm=ctx.rbytes(rng.choice([0, 32])), tags=["hkdfn"]))
        # password length / content / salt families against the reference (the model's scrypt values are the RFC 7914
        # reference's, see KvaRefKdf), reference-written password files, key files with related keys
        out += kva_password_family_cases(ctx, ctx.thorough(), others=False, n_lens=6)
        out += kva_reference_pass_cases(ctx, ctx.thorough())
        out += kva_key_relation_cases(ctx, ctx.thorough())
        # an independent Python reference writer: short non-final chunks on both sides, Noise X with empty / odd prologues
        out += r2_c06_reference_cases(ctx, ctx.thorough())
        return out

    def explore(self, ctx):
        super().explore(ctx)
        # cross-entry-point conformance: command-line-written files against the reference writer, the library and the
        # model; reference-written files into the command line (tools/props_lib_cli.py)
        props_lib_cli.r2_c06_cli_part(self, ctx)

    def replay(self, ctx, payload):
        if payload.get("input", {}).get("kind") == "proc":
            return props_lib_cli.s2_replay(ctx, payload)
        return super().replay(ctx, payload)


class C09(Prop):
    id = "C09"
    run_modules = ("Run/RunLib.v", "Run/RunKeyring.v", "Run/RunCli.v")   # also runs CLI / keyring cases (props_cli)
    rule = ("cases: every length 0..200 (thorough 0..400) of all-zero / all-0xff / random / authentic-prefix content at "
            "each binary surface (chunk loop, key file, password file, Noise handshake message, AEAD ciphertext), hostile "
            "length fields; outcome must be a value (Ok/Err), never panic/abort; memory while rejecting: peak heap of single "
            "decrypt calls (counting allocator, driver op c09mem) on chunk-hook / key / password files whose length field at "
            "the first or a later record announces cs+1 .. 2^28 (thorough 2^32-1), cut behind the header or not, must not "
            "exceed the peak for legal length fields (+4 KiB) nor one chunk buffer (+ scrypt's 32 MiB); "
            "forged locked private keys (every value of version byte 3, swept values of bytes 0..2 incl. 0x30..0x3f / 0xff, whole version "
            "fields, 17 lengths, 9 base64 misspellings) as the argument of key extract-pub / key change-pass and as PrivateKey of the keyring "
            "section used by decrypt -t / encrypt -f, each process under RLIMIT_CPU 20 s / RLIMIT_AS 1 GiB: exit 1 with an Error: line, no "
            "signal, CPU time and peak resident memory (wait4) no more than the genuine key with a wrong password costs (3x + 1 s, + 8 MiB); "
            "keyring LOCATIONS (~ forms incl. ~ + multi-byte character, empty, -, ., directories, trailing slashes, 255/256-byte components, "
            "paths of 4 KiB..70 KiB, non-UTF-8 bytes, control characters) via -k / --keyring= / KESTREL_KEYRING with HOME set / unset / empty / "
            "dangling / relative: exit 1 with an Error: line unless the location is a usable keyring (tools/props_kvs.py); "
            "raw key bytes of every length 0..80 (thorough 0..300) and long ones given to PublicKey::try_from / PrivateKey::try_from and, when "
            "accepted, USED in every operation taking a key (driver op c09key): a value at every step; locked-key texts of every decoded length "
            "78..90 and text lengths 100..120 with 0..3 trailing '='; keyring sections whose Name / PublicKey / PrivateKey value is a single "
            "punctuation character or a short string of them, in several spellings and positions, read by decrypt / encrypt processes: exit 0 or "
            "exit 1 with an Error: line; "
            "non-trivial = all but the empty input")
    assumptions = ["termination of the real process is observed with a watchdog, not proved",
                   "the keyring surface is covered by C17; the argv surface by the parse correspondence appended here "
                   "(exhaustive argument vectors of <= 3 (thorough 4) tokens over a 35-token vocabulary + random vectors)"]

    def cases(self, ctx):
        rng = ctx.rng
        N = 400 if ctx.thorough() else 200

        def nopanic(r):
            if r["code"] in (0,) or (1 < r["code"] < 900):
                return None
            return ("an error value or a normal result, never a panic/abort", r["outcome"])
        out = []
        (s, spk), (r, rpk), (e, epk) = keypairs(ctx, 3)
        auth = [Case("key_enc", s=s, spk=spk, r=rpk, e=e, epk=epk, pk=ctx.rbytes(32), data=ctx.rbytes(150)),
                Case("pass_enc", pw=b"pw", salt=ctx.rbytes(32), data=ctx.rbytes(150)),
                Case("noise_enc", s=s, spk=spk, r=rpk, e=e, epk=epk, prologue=b"egk\x10", payload=ctx.rbytes(32))]
        key = ctx.rbytes(32)
        auth.append(Case("enc_chunks", key=key, aad=b"", cs=64, data=ctx.rbytes(150)))
        auth.append(Case("seal", key=key, nonce=bytes(12), ad=b"ad", x=ctx.rbytes(100)))
        vlib.run_impl(ctx.bin, auth)
        KF, PF, NM, CF, CT = [c.result["out"] for c in auth]
        for n in range(0, N + 1):
            kinds = [bytes(n), b"\xff" * n, ctx.rbytes(n)]
            tag = ["trivial"] if n == 0 else []
            for content in (kinds if (ctx.thorough() or n % 8 == 0 or n < 24) else kinds[2:]):
                out.append(Case("dec_chunks", key=key, aad=b"", cs=64, data=content, oracle=nopanic, tags=tag + ["junk"]))
                if n < 100 or n % 16 == 0 or ctx.thorough():     # beyond the length guard each case costs the model an X25519
                    out.append(Case("noise_dec", r=r, rpk=rpk, prologue=b"egk\x10", msg=content, oracle=nopanic, tags=tag + ["junk"]))
                if n <= 64 or n % 8 == 0:
                    out.append(Case("open", key=key, nonce=bytes(12), ad=b"", x=content, oracle=nopanic, tags=tag + ["junk"]))
                    out.append(Case("nopen", key=key, n=rng.getrandbits(40), ad=b"", x=content, oracle=nopanic, tags=tag + ["junk"]))
            # authentic prefixes reach deeper code
            out.append(Case("key_dec", r=r, rpk=rpk, data=KF[:n], oracle=nopanic, tags=tag + ["auth-prefix"]))
            out.append(Case("pass_dec", pw=b"pw", data=PF[:n], oracle=nopanic, tags=tag + ["auth-prefix"]))
            if n < 100 or n % 8 == 0 or n >= 120 and n <= 136 or ctx.thorough():
                out.append(Case("noise_dec", r=r, rpk=rpk, prologue=b"egk\x10", msg=NM[:n], oracle=nopanic, tags=tag + ["auth-prefix"]))
            out.append(Case("dec_chunks", key=key, aad=b"", cs=64, data=CF[:n], oracle=nopanic, tags=tag + ["auth-prefix"]))
            if n <= len(CT):
                out.append(Case("open", key=key, nonce=bytes(12), ad=b"ad", x=CT[:n], oracle=nopanic, tags=tag + ["auth-prefix"]))
            if n % 16 == 0:
                out.append(Case("key_dec", r=r, rpk=rpk, data=KF[:4] + ctx.rbytes(n), oracle=nopanic, tags=["magic+junk"]))
                out.append(Case("pass_dec", pw=b"pw", data=PF[:36] + ctx.rbytes(n), oracle=nopanic, tags=["hdr+junk"]))
        for v in (0, 64, 65, 2 ** 31, 2 ** 32 - 1):
            x = bytearray(CF)
            x[12:16] = v.to_bytes(4, "big")
            out.append(Case("dec_chunks", key=key, aad=b"", cs=64, data=bytes(x), oracle=nopanic, tags=["len-field"]))
            y = bytearray(KF)
            y[132 + 12:132 + 16] = v.to_bytes(4, "big")
            out.append(Case("key_dec", r=r, rpk=rpk, data=bytes(y), oracle=nopanic, tags=["len-field"]))
        big = ctx.rbytes(65536 + 100)
        out.append(Case("noise_dec", r=r, rpk=rpk, prologue=b"egk\x10", msg=big[:65536], oracle=nopanic, tags=["too-long"]))
        out.append(Case("noise_dec", r=r, rpk=rpk, prologue=b"egk\x10", msg=big[:65535], oracle=nopanic, tags=["max-len"]))
        return out

    # ---- "memory use ... while rejecting [is] bounded by constants that no attacker-chosen header field can raise"
    def mem_while_rejecting(self, ctx):
        """peak heap of single decrypt calls (driver op `c09mem`: input from a slice, counting sink, counting allocator) on
        files whose chunk-header LENGTH FIELD is hostile - at the first and at a later record, file cut right behind the
        header or continued - compared with the peak of rejecting/decrypting the same file with every LEGAL field value
        class, and with the constant the code documents (one chunk buffer; password mode: scrypt's 32 MiB work area)"""
        rng = ctx.rng
        SLACK = 4096
        (s, spk), (r, rpk), (e, epk) = keypairs(ctx, 3)
        jobs = []      # (surface label, prefix of the driver line, file bytes, offsets of the record headers, chunk size, absolute bound)
        for cs in ([16, 64, 4096] if not ctx.thorough() else [1, 16, 64, 1000, 4096, 65536]):
            key, aad = ctx.rbytes(32), rng.choice([b"", b"egk\x20"])
            enc = Case("enc_chunks", key=key, aad=aad, cs=cs, data=ctx.rbytes(2 * cs + rng.randrange(1, cs + 1)))
            vlib.run_impl(ctx.bin, [enc])
            F = enc.result["out"]
            jobs.append(("chunk loop cs=%d" % cs, "c09mem dec_chunks %s %s %d" % (vlib.hexs(key), vlib.hexs(aad), cs), F,
                         [0, 32 + cs, 2 * (32 + cs)], cs, 2 * (cs + 16) + 65536))
        kenc = [Case("key_enc", s=s, spk=spk, r=rpk, e=e, epk=epk, pk=ctx.rbytes(32), data=ctx.rbytes(rng.randrange(1, 300))),
                Case("key_enc", s=s, spk=spk, r=rpk, e=e, epk=epk, pk=ctx.rbytes(32), data=ctx.rbytes(BIG + rng.randrange(1, 300))),
                Case("pass_enc", pw=b"pw", salt=ctx.rbytes(32), data=ctx.rbytes(rng.randrange(1, 300)))]
        vlib.run_impl(ctx.bin, kenc)
        one_chunk = 2 * (BIG + 16) + 65536            # the fixed buffer, one AEAD output, small change
        jobs.append(("key file", "c09mem key_dec %s %s" % (vlib.hexs(r), vlib.hexs(rpk)), kenc[0].result["out"], [132], BIG, one_chunk))
        jobs.append(("key file, second record", "c09mem key_dec %s %s" % (vlib.hexs(r), vlib.hexs(rpk)), kenc[1].result["out"],
                     [132, 132 + 32 + BIG], BIG, one_chunk))
        jobs.append(("password file", "c09mem pass_dec %s" % vlib.hexs(b"pw"), kenc[2].result["out"], [36], BIG,
                     128 * 32768 * 8 + one_chunk))
        lines, meta = [], []

        def put(label, pre, data, kind, note):
            meta.append((label, pre, data, kind, note))
            lines.append("%d %s %s" % (len(lines), pre, vlib.hexs(data)))

        def with_len(F, off, v, cut):
            x = bytearray(F)
            x[off + 12:off + 16] = v.to_bytes(4, "big")
            return bytes(x[:off + 16]) if cut else bytes(x)
        for label, pre, F, offs, cs, bound in jobs:
            pwmode = label.startswith("password")
            put(label, pre, F, "ref", "authentic file")
            for off in offs:
                if off + 16 > len(F):
                    continue
                for v in sorted(set([0, 1, cs // 2, cs - 1, cs])):           # legal announcements: what rejecting may cost
                    for cut in (False, True):
                        if not pwmode or (v == cs and cut):
                            put(label, pre, with_len(F, off, v, cut), "ref", "legal length field %d at offset %d%s" % (v, off, ", cut behind the header" if cut else ""))
                hostile = [cs + 1, cs + 15, cs + 16, cs + 17, 2 * cs, 2 * cs + 16, 65537, 1 << 20, 1 << 24, (1 << 28) - 1, 1 << 28,
                           rng.randrange(cs + 1, cs + (1 << 16)), rng.randrange(1 << 17, 1 << 24), rng.randrange(1 << 24, 1 << 28)]
                if ctx.thorough():
                    hostile += [1 << 30, (1 << 31) - 1, 1 << 31, (1 << 32) - 17, (1 << 32) - 1]
                if pwmode:
                    hostile = [65537, 1 << 26, (1 << 27) + 5, 1 << 28] + ([(1 << 32) - 1] if ctx.thorough() else [])
                for v in sorted(set(h for h in hostile if h > cs)):
                    for cut in ((False, True) if not pwmode else (True,)):
                        put(label, pre, with_len(F, off, v, cut), "hostile", "length field %d (> chunk size %d) in the record header at offset %d%s"
                            % (v, cs, off, ", file cut behind that header" if cut else ""))
        res, _ = vlib.run_driver(ctx.bin, lines)
        bounds = dict((j[0], j[5]) for j in jobs)
        refpeak = {}
        parsed = []
        for i, (label, pre, data, kind, note) in enumerate(meta):
            kv = dict(p.partition("=")[::2] for p in res.get(str(i), "x outcome=missing").split()[1:])
            parsed.append(kv)
            if kind == "ref" and kv.get("peak", "").isdigit():
                refpeak[label] = max(refpeak.get(label, 0), int(kv["peak"]))
        ctx.evaluations += len(meta)
        for (label, pre, data, kind, note), kv in zip(meta, parsed):
            ctx.oracle_checks += 1
            ctx.distribution["c09mem:" + kind] = ctx.distribution.get("c09mem:" + kind, 0) + 1
            o = kv.get("outcome", "missing")
            bad = None
            if not (o == "ok" or o.startswith("err:")):
                bad = ("an error value or a normal result, never a panic/abort", o)
            elif kind == "hostile":
                ctx.distinct_nontrivial += 1
                pk_ = int(kv.get("peak", "0"))
                if o == "ok":
                    bad = ("a length field above the chunk size is rejected", o)
                elif pk_ > refpeak.get(label, 0) + SLACK or pk_ > bounds[label]:
                    bad = ("%s: heap used while rejecting is bounded by a constant no header field can raise: at most what legal "
                           "length fields cost (measured %d bytes) and %d bytes" % (note, refpeak.get(label, 0), bounds[label]),
                           "%s with peak heap %d bytes" % (o, pk_))
            elif int(kv.get("peak", "0")) > bounds[label]:
                bad = ("%s (%s): one decrypt call needs at most one chunk buffer (+ scrypt's work area): %d bytes" % (label, note, bounds[label]),
                       "%s with peak heap %s bytes" % (o, kv.get("peak")))
            if bad:
                if ctx.distribution.get("c09mem:violations", 0) < 6:
                    ctx.violations.append({"input": {"op": "c09mem", "surface": label, "what": note, "line": pre, "data": data.hex() if len(data) < 4096 else
                                                     data[:200].hex() + "..(%d bytes; header at the stated offset)" % len(data)},
                                           "expected": bad[0], "observed": bad[1], "finding_key": None})
                ctx.distribution["c09mem:violations"] = ctx.distribution.get("c09mem:violations", 0) + 1
        if len(ctx.samples) < 8 and parsed:
            ctx.samples.append({"op": "c09mem", "reference_peaks": refpeak, "example": meta[-1][4], "reply": parsed[-1]})

    # ---- "an encoded key ... of whatever length": the validating constructors, and the constructed key IN USE
    def r3_key_constructors(self, ctx):
        """raw key bytes of every length 0..80 (thorough 0..300) and some long ones - random, all-zero, all-0xff, a genuine key
        followed by filler (key + checksum, key + key ...), a genuine key cut short - handed to PublicKey::try_from and
        PrivateKey::try_from (driver op `c09key`); when the constructor answers Ok the key is USED in every public operation that
        takes one (clone, diffie_hellman, to_public, noise_encrypt / key_encrypt in each key position, noise_decrypt / key_decrypt),
        each step under its own catch_unwind: the constructor and every use end in a value, never a panic."""
        rng = ctx.rng
        (s, spk), (r, rpk) = keypairs(ctx, 2)
        auth = [Case("noise_enc", s=s, spk=spk, r=rpk, e=s, epk=spk, prologue=b"egk\x10", payload=ctx.rbytes(32)),
                Case("key_enc", s=s, spk=spk, r=rpk, e=s, epk=spk, pk=ctx.rbytes(32), data=ctx.rbytes(40))]
        vlib.run_impl(ctx.bin, auth)
        if any(c.result["code"] != 0 for c in auth):
            ctx.broken.append({"kind": "machinery", "what": "C09.r3_key_constructors: could not prepare an authentic message / file"})
            return
        NM, KF = [c.result["out"] for c in auth]
        top = 300 if ctx.thorough() else 80
        lens = list(range(0, top + 1)) + [127, 128, 129, 255, 256, 257, 1023, 1024, 4096, 65535, 65536] + [rng.randrange(top + 1, 5000) for _ in range(4)]
        lines, meta = [], []

        def put(kind, raw, what):
            meta.append((kind, raw, what))
            lines.append("%d c09key %s %s %s %s %s %s" % (len(lines), kind, vlib.hexs(raw), vlib.hexs(r), vlib.hexs(rpk), vlib.hexs(NM), vlib.hexs(KF)))
        import hashlib
        for n in lens:
            for kind, good in (("pub", rpk), ("priv", r)):
                fill = hashlib.sha256(good).digest()[:4] + good + ctx.rbytes(max(0, n - 68))
                shapes = [("random", ctx.rbytes(n)), ("a genuine key cut short / followed by its checksum, itself and filler", (good + fill)[:n])]
                if n <= 80 and (n % 4 == 0 or n in (31, 33) or ctx.thorough()):
                    shapes += [("all zero", bytes(n)), ("all 0xff", b"\xff" * n)]
                for what, raw in shapes:
                    put(kind, raw, what)
        res, _ = vlib.run_driver(ctx.bin, lines)
        ctx.evaluations += len(lines)
        nviol = 0
        for i, (kind, raw, what) in enumerate(meta):
            kv = dict(p.partition("=")[::2] for p in res.get(str(i), "x outcome=missing").split()[1:])
            o = kv.get("outcome", "missing")
            ctx.oracle_checks += 1
            if len(raw):
                ctx.distinct_nontrivial += 1
            ctx.distribution["c09key:%s:%s" % (kind, o)] = ctx.distribution.get("c09key:%s:%s" % (kind, o), 0) + 1
            ctor = "PublicKey::try_from" if kind == "pub" else "PrivateKey::try_from"
            bad = None
            if o not in ("ok", "ctor_err"):
                msg = ""
                try:
                    msg = bytes.fromhex(kv.get("msg", "")).decode("utf-8", "replace")
                except ValueError:
                    pass
                bad = ("%d raw bytes (%s) offered to %s, the key then used wherever the API takes one: an error value or a normal result at "
                       "every step, never a panic/abort" % (len(raw), what, ctor),
                       "%s at step '%s' (%s); constructed key length %s; steps before it: %s" % (o, kv.get("at", "?"), msg, kv.get("len", "?"), kv.get("uses", "-")))
            elif len(raw) == 32 and what != "random" and raw in (r, rpk) and (o != "ok" or "clone:ok" not in kv.get("uses", "")):
                ctx.broken.append({"kind": "machinery", "what": "C09.r3_key_constructors: the genuine 32-byte key was not accepted by %s: %s" % (ctor, kv)})
            if bad:
                nviol += 1
                if nviol <= 6:
                    ctx.violations.append({"input": {"op": "c09key", "kind": kind, "constructor": ctor, "raw": raw.hex() if len(raw) <= 512 else raw[:64].hex() + "..(%d bytes)" % len(raw),
                                                     "raw_len": len(raw), "content": what, "line": lines[i] if len(lines[i]) < 4000 else None},
                                           "expected": bad[0], "observed": bad[1], "finding_key": None})
        ctx.distribution["c09key:violations"] = nviol
        if len(ctx.samples) < 8 and meta:
            ctx.samples.append({"op": "c09key", "cases": len(meta), "lengths": "0..%d and %s" % (top, lens[top + 1:])})

    def explore(self, ctx):
        super().explore(ctx)
        self.mem_while_rejecting(ctx)
        self.r3_key_constructors(ctx)
        # the argv half ("whatever argument vector ... never a panic"): the real parser (clidrv driver op `parse`)
        # against Model/CliParse.v on exhaustive short and random long argument vectors (tools/props_cli.py)
        import props_cli
        if os.path.exists(vlib.CLIDRV):
            props_cli.parse_correspondence(ctx)
            # forged locked private keys under CPU / address-space limits; keyring locations of every shape (tools/props_kvs.py)
            import props_kvs
            props_kvs.c09_cli_hostile(ctx)
        else:
            ctx.broken.append({"kind": "correspondence", "what": "clidrv was not built: argv half of C09 not checked"})

    def replay(self, ctx, payload):
        if payload.get("input", {}).get("op") == "parse" or payload.get("input", {}).get("kind") == "proc":
            import props_cli
            return props_cli.k_replay(ctx, payload)
        if payload.get("input", {}).get("op") == "c09key":
            d = payload["input"]
            if not d.get("line"):
                return {"holds": None, "note": "input too long to store: re-run the check with the recorded seed", "what": d["content"]}
            res, _ = vlib.run_driver(ctx.bin, [d["line"]])
            reply = list(res.values())[0] if res else ""
            return {"holds": ("outcome=ok" in reply or "outcome=ctor_err" in reply), "implementation": reply[:400], "expected": payload.get("expected")}
        if payload.get("input", {}).get("op") == "c09mem":
            d = payload["input"]
            if ".." in d["data"]:
                return {"holds": None, "note": "input too long to store: re-run the check with the recorded seed", "what": d["what"]}
            res, _ = vlib.run_driver(ctx.bin, ["1 %s %s" % (d["line"], d["data"] or "-")])
            return {"holds": None, "implementation": res.get("1", "")[:400], "expected": payload.get("expected")}
        return super().replay(ctx, payload)


def fault_variants(base_trace, rs, ws, fs):
    """single-fault scripts derived from a fault-free run's trace: fail the k-th read/write/flush"""
    nr = len([t for t in base_trace if t[0] in (1, 2)])
    nw = len([t for t in base_trace if t[0] in (3, 4)])
    nf = len([t for t in base_trace if t[0] in (5, 6)])
    out = []

    def pad(script, n, fill):
        items = [] if script == "-" else script.split(",")
        while len(items) < n:
            items.append(fill)
        return items
    for k in range(nr):
        for kind in ("i", "o", "z", "u"):
            it = pad(rs, k, "c70000")
            it = it[:k] + [kind] + it[k:]
            out.append((",".join(it), ws, fs, "read-%s@%d" % (kind, k)))
    for k in range(nw):
        for kind in ("i", "o", "z", "y"):
            it = pad(ws, k, "c70000")
            it = it[:k] + [kind] + it[k:]
            out.append((rs, ",".join(it), fs, "write-%s@%d" % (kind, k)))
    for k in range(nw):
        # a short write followed by a WouldBlock error (non-blocking sink): must be an error, nothing re-sent
        it = pad(ws, k, "c70000")
        it = it[:k] + ["c1", "b"] + it[k:]
        out.append((rs, ",".join(it), fs, "write-b@%d" % k))
    for k in range(nf):
        for kind in ("i", "o"):
            it = pad(fs, k, "k")
            it = it[:k] + [kind] + it[k:]
            out.append((rs, ws, ",".join(it), "flush-%s@%d" % (kind, k)))
    return out


def t2_panic_observation_cases(ctx):
    """Audit finding 7: what a run has read / written / traced BEFORE a panic.  A key that is not 32 bytes is a
    caller error (`expect` / `assert_eq!` inside the AEAD wrappers), reached only after the look-ahead reads
    (encrypt) resp. after the header and body reads of the first record (decrypt) and before any write; the driver
    reports the shared trace / output / consumed counter of the panicked run and the model keeps the same partial
    state.  Correspondence only (no direct oracle: the panic is not part of any property)."""
    out = []
    key = ctx.rbytes(32)
    tag = ["panic-observation"]
    P8 = b"abcdefgh"
    # the audit's two cases: 31-byte key, chunk size 4
    out.append(Case("enc_chunks", key=key[:31], aad=b"ad", cs=4, data=P8, tags=tag))
    good = [Case("enc_chunks", key=key, aad=b"ad", cs=4, data=P8),
            Case("enc_chunks", key=key, aad=b"", cs=3, data=b"xyzuvw1"),
            Case("enc_chunks", key=key, aad=b"", cs=4, data=b"")]
    vlib.run_impl(ctx.bin, good)
    F8, F7, F0 = [c.result["out"] for c in good]
    out.append(Case("dec_chunks", key=key[:31], aad=b"ad", cs=4, data=F8, tags=tag))
    # other wrong lengths, short reads before the panic, empty input, chunk size 0
    for bad in (b"", key[:1], key + b"\x00", key + key):
        out.append(Case("enc_chunks", key=bad, aad=b"", cs=3, data=b"xyzuvw1", rs=ctx.rng.choice(["-", "c2,c1", "c1,c3"]), tags=tag))
        out.append(Case("dec_chunks", key=bad, aad=b"", cs=3, data=F7, rs=ctx.rng.choice(["-", "c7,c9,c20", "c16,c1,i,c40"]), tags=tag))
    out.append(Case("enc_chunks", key=key[:31], aad=b"", cs=4, data=b"", tags=tag))          # r4:0,r4:0 then the panic
    out.append(Case("enc_chunks", key=key[:31], aad=b"", cs=0, data=b"abc", tags=tag))       # r0:0,r0:0 then the panic
    out.append(Case("enc_chunks", key=key[:31], aad=b"", cs=4, data=P8, rs="c4,z", ws="o", fs="o", tags=tag))   # sink never reached
    out.append(Case("dec_chunks", key=key[:31], aad=b"", cs=4, data=F0, tags=tag))           # empty final record: r16:16,r16:16
    out.append(Case("dec_chunks", key=key[:31], aad=b"", cs=4, data=F0, ws="o", fs="o", tags=tag))
    # contrast: an error determined BEFORE the key is looked at is an error value also with a bad key
    out.append(Case("enc_chunks", key=key[:31], aad=b"", cs=4, data=P8, rs="c4,o", tags=tag + ["error-first"]))
    out.append(Case("dec_chunks", key=key[:31], aad=b"ad", cs=4, data=F8[:20], tags=tag + ["error-first"]))
    out.append(Case("dec_chunks", key=key[:31], aad=b"ad", cs=3, data=F8, tags=tag + ["error-first"]))       # ChunkLen before the body read
    # file level: a payload key that is not 32 bytes panics in PayloadKey::new before any I/O
    (s, spk), (r, rpk), (e, epk) = keypairs(ctx, 3)
    out.append(Case("key_enc", s=s, spk=spk, r=rpk, e=e, epk=epk, pk=key[:31], data=P8, tags=tag))
    return out


def r2_short_partition(rng, n, cs, pieces=None):
    """a partition of n into reads of 1..cs bytes in which at least one read that is NOT the last is shorter than cs
    (needs n >= 2): the encryptor turns every read into one chunk, so the file has a short non-final chunk"""
    for _ in range(200):
        parts, left = [], n
        while left > 0:
            k = rng.randrange(1, min(cs, left) + 1)
            parts.append(k)
            left -= k
        if pieces and len(parts) != pieces:
            continue
        if len(parts) >= 2 and any(k < cs for k in parts[:-1]):
            return parts
    return [1] + ([n - 1] if n - 1 <= cs else r2_short_partition(rng, n - 1, cs))


def r2_c10_schedule_cases(ctx):
    """the FIRST sentence of C10, with direct oracles on fault-free runs: "the same result over any conforming source and
    sink".  Encryptions (chunk hook at small chunk sizes, key mode and password mode at the production size) of plaintexts
    whose read partition has short non-final chunks are repeated over sinks that accept k bytes per call for every
    k in 1..40 and over sinks that accept k in 0..40 bytes at exactly ONE call (every call position, so also the call that
    starts a record): the bytes must be those of the all-accepting sink (k = 0: a write error, a prefix, no panic).  The
    files (short non-final chunks) are decrypted over sources that return 1, 2, 3, 7, 15, 16, 17, 31, 32, 33, 100, .. bytes
    per call, as much as the buffer holds (slice) and random sizes, and over capped sinks: always the plaintext.  Finally a
    failure of EVERY read call (also the last, end-of-input one) of these runs, unsampled."""
    rng = ctx.rng
    full = ctx.thorough()
    key = ctx.rbytes(32)
    (s, spk), (r, rpk), (e, epk) = keypairs(ctx, 3)
    encs = []
    for cs in ((3, 4, 5, 16) if full else (3, rng.choice([4, 5]))):
        n = rng.randrange(cs + 2, 3 * cs + 2)
        encs.append(Case("enc_chunks", key=key, aad=rng.choice([b"", b"egk\x20"]), cs=cs, data=ctx.rbytes(n),
                         rs=script_of(r2_short_partition(rng, n, cs))))
    for mode in ("key", "pass"):
        for _ in range(2 if full else 1):
            n = rng.randrange(30, 140)
            rs = script_of(r2_short_partition(rng, n, 65536, pieces=rng.choice([2, 3, 4])))
            if mode == "key":
                encs.append(Case("key_enc", s=s, spk=spk, r=rpk, e=e, epk=epk, pk=ctx.rbytes(32), data=ctx.rbytes(n), rs=rs))
            else:
                encs.append(Case("pass_enc", pw=b"pw", salt=ctx.rbytes(32), data=ctx.rbytes(n), rs=rs))
    vlib.run_impl(ctx.bin, encs)
    out = []

    def rep(k, total, calls):
        return ",".join(["c%d" % k] * (total // max(1, k) + 2 * calls + 6))

    def same(F, what):
        def f(res):
            if res["code"] == 1 or res["code"] >= 900:
                return ("a conforming source/sink never causes a panic (%s)" % what, res["outcome"])
            if res["code"] != 0 or res["out"] != F:
                return ("the same result as over an all-at-once source/sink (%s): Ok and the same %d bytes" % (what, len(F)),
                        res["outcome"] + " |out|=%d, first difference at %d" % (len(res["out"]), props_lib_cli.s2_first_diff(res["out"], F)))
            return None
        return f

    def plain(P, spk_, what):
        def f(res):
            if res["code"] == 1 or res["code"] >= 900:
                return ("a conforming source/sink never causes a panic (%s)" % what, res["outcome"])
            if res["code"] != 0 or res["out"] != P:
                return ("decryption gives the plaintext over every conforming source/sink (%s)" % what,
                        res["outcome"] + " |out|=%d" % len(res["out"]))
            if spk_ is not None and res["extra"] != spk_:
                return ("and the sender (%s)" % what, "sender=" + res["extra"].hex())
            return None
        return f

    def read_fault(F, kind, what, enc_side):
        def f(res):
            if res["code"] == 1 or res["code"] >= 900:
                return ("a failing read is reported as an error value, never a panic (%s)" % what, res["outcome"])
            if not F.startswith(res["out"]):
                return ("what was written before the failing read is a prefix of the fault-free output (%s)" % what,
                        "|out|=%d, first difference at %d: %s" % (len(res["out"]), props_lib_cli.s2_first_diff(res["out"], F),
                                                                 res["out"][-48:].hex()))
            if res["code"] == 0:
                if not (kind == "i" and res["out"] == F):
                    return ("success only after a retried interruption with everything written (%s)" % what, "ok |out|=%d" % len(res["out"]))
            elif kind != "i" and res["code"] not in (range(20, 30) if enc_side else range(60, 70)):
                return ("the error identifies the read side (%s)" % what, res["outcome"])
            return None
        return f

    for b in encs:
        b.tags = ["fault-free", "trivial", "short-non-final-chunk"]
        b.expect_fn = ok_only("encryption over a source with short reads succeeds")
        out.append(b)
        if b.result["code"] != 0:
            continue
        F, P = b.result["out"], b.a["data"]
        hook = b.op == "enc_chunks"
        wcalls = [t for t in b.result["trace"] if t[0] == 3]
        nreads = len([t for t in b.result["trace"] if t[0] in (1, 2)])
        # --- sinks with a per-call quota
        ks = list(range(1, 41)) if (full or hook) else sorted(set([1, 15, 16, 17] + rng.sample(range(2, 41), 5)))
        for k in ks:
            a = dict(b.a)
            a["ws"] = rep(k, len(F), len(wcalls))
            out.append(Case(b.op, oracle=same(F, "%s, every write accepts at most %d bytes" % (b.op, k)), tags=["sink-quota"], **a))
        # --- exactly one call accepts only k bytes, at every call position
        for j, t in enumerate(wcalls):
            top = min(40, t[1] - 1)
            kk = list(range(0, top + 1))
            if not full and hook:
                kk = sorted(set([0, 1, min(15, top), top] + rng.sample(kk, min(len(kk), 3))))
            elif not full:
                kk = sorted(set([0, rng.randrange(1, min(15, top) + 1), top]))
            for k in kk:
                a = dict(b.a)
                a["ws"] = ",".join(["c70000"] * j + ["c%d" % k])
                what = "%s, write call #%d (of %d bytes) accepts %d" % (b.op, j, t[1], k)
                if k == 0:
                    def orc0(res, F=F, what=what):
                        if res["code"] == 1 or res["code"] >= 900:
                            return ("a write that accepts nothing is an error value, never a panic (%s)" % what, res["outcome"])
                        if res["code"] not in range(30, 40) or not F.startswith(res["out"]):
                            return ("a write error, and the bytes written are a prefix of the fault-free output (%s)" % what,
                                    res["outcome"] + " |out|=%d" % len(res["out"]))
                        return None
                    out.append(Case(b.op, oracle=orc0, tags=["sink-one-short-call", "accepts=0"], **a))
                else:
                    out.append(Case(b.op, oracle=same(F, what), tags=["sink-one-short-call"], **a))
        # --- every read call fails once (also the final, end-of-input read)
        items = b.a["rs"].split(",")
        for j in range(nreads):
            for kind in ("i", "o", "u"):
                it = list(items)
                while len(it) < j:
                    it.append("c70000")
                a = dict(b.a)
                a["rs"] = ",".join(it[:j] + [kind] + it[j:])
                what = "%s, read call #%d of %d fails (%s)" % (b.op, j, nreads, kind)
                out.append(Case(b.op, oracle=read_fault(F, kind, what, True), tags=["read-fault-every-index", "read-" + kind]
                                + (["final-read"] if j == nreads - 1 else []), **a))
        # --- decryption of the file (short non-final chunks) over many sources / sinks
        dop = {"enc_chunks": "dec_chunks", "key_enc": "key_dec", "pass_enc": "pass_dec"}[b.op]
        if hook:
            da = dict(key=b.a["key"], aad=b.a["aad"], cs=b.a["cs"], data=F)
        elif b.op == "key_enc":
            da = dict(r=r, rpk=rpk, data=F)
        else:
            da = dict(pw=b.a["pw"], data=F)
        sp = spk if b.op == "key_enc" else None
        base = Case(dop, **da)
        vlib.run_impl(ctx.bin, [base])
        base.tags = ["fault-free", "source-slice", "short-non-final-chunk"]
        base.expect_fn = plain(P, sp, "%s, the source fills every request" % dop)
        out.append(base)
        dreads = len([t for t in base.result["trace"] if t[0] in (1, 2)])
        rks = [1, 2, 3, 5, 7, 15, 16, 17, 18, 19, 20, 31, 32, 33, 48, 100]
        if not (full or hook):
            rks = sorted(set([1, 7, 16, 100] + rng.sample(rks, 3)))
        for k in rks:
            out.append(Case(dop, rs=rep(k, len(F), dreads), oracle=plain(P, sp, "%s, every read returns at most %d bytes" % (dop, k)),
                            tags=["source-quota"], **da))
        for _ in range(6 if full else 2):
            sizes = [rng.choice([1, 2, 3, 16, 17, rng.randrange(1, 60), 70000]) for _ in range(len(F) + 8)]
            out.append(Case(dop, rs=script_of(sizes), ws=rng.choice(["-", rep(rng.randrange(1, 9), len(P), 4)]),
                            oracle=plain(P, sp, "%s, random read sizes" % dop), tags=["source-random"], **da))
        for k in ([1, 2, 3, 7] if full else [rng.choice([1, 2, 3, 7])]):
            out.append(Case(dop, ws=rep(k, len(P), 8), oracle=plain(P, sp, "%s, every write accepts at most %d bytes" % (dop, k)),
                            tags=["sink-quota"], **da))
        if base.result["code"] == 0 and (full or hook):
            for j in range(dreads):
                for kind in ("i", "o"):
                    rsj = ",".join(["c70000"] * j + [kind])
                    what = "%s, read call #%d of %d fails (%s)" % (dop, j, dreads, kind)
                    out.append(Case(dop, rs=rsj, oracle=read_fault(P, kind, what, False), tags=["read-fault-every-index", "read-" + kind], **da))
    return out


class C10(Prop):
    id = "C10"
    rule = ("cases: for base runs (both directions, chunk hooks at cs 2..3 with assorted partitions, and both file modes "
            "through the public API) the k-th read / write / flush call is made to fail for EVERY k (Interrupted, other "
            "error, zero-length), plus random multi-fault scripts; observation = outcome class, bytes written, full I/O "
            "trace; plus caller errors that PANIC in the middle of a run (key of 0/1/31/33/64 bytes at the chunk hooks, 31-byte "
            "payload key): the reads made before the panic and the untouched sink are compared with the model's partial state; "
            "at the command line (real processes, all four file commands): outputs of 0,1,100,8191,8192,8193,65536,65537,.. "
            "bytes sent to a full device (private node 1:7), to a pipe without reader, to a file under RLIMIT_FSIZE (last byte / "
            "random tail does not fit; control: fits exactly), -o a directory / in a missing directory, input a directory: "
            "exit 1 with an Error line naming the failing side whenever the complete output did not arrive, never a crash, "
            "file content a prefix of the fault-free output; "
            "fault-free PARTIAL schedules with direct oracles: encryptions whose read partition has short non-final chunks (chunk "
            "hooks, key and password mode at 65536) over sinks accepting k bytes per call for every k in 1..40 and over sinks "
            "where exactly one call (every position, so also the start of a record) accepts k in 0..40 bytes: same bytes as the "
            "all-accepting sink; the resulting files decrypted over sources returning 1,2,3,5,7,15..20,31..33,48,100 bytes per "
            "call, whole-buffer (slice) and random sizes: always the plaintext; every read call of these runs (also the final "
            "end-of-input read) failing once, unsampled; "
            "non-trivial = runs containing at least one fault")
    assumptions = ["std::io::Read::read_exact / Write::write_all default loops are transcribed in IO.v"]

    def base(self, ctx):
        rng = ctx.rng
        key = ctx.rbytes(32)
        bases = []
        for cs in (2, 3):
            for n in ((0, 1, 3, 5) if not ctx.thorough() else range(0, 7)):
                P = ctx.rbytes(n)
                parts = rng.choice(all_partitions(n, cs))
                bases.append(Case("enc_chunks", key=key, aad=b"", cs=cs, data=P, rs=script_of(parts), ws=rng.choice(["-", "c5,c3"])))
        (s, spk), (r, rpk), (e, epk) = keypairs(ctx, 3)
        bases.append(Case("key_enc", s=s, spk=spk, r=rpk, e=e, epk=epk, pk=ctx.rbytes(32), data=ctx.rbytes(10)))
        bases.append(Case("pass_enc", pw=b"pw", salt=ctx.rbytes(32), data=ctx.rbytes(10)))
        vlib.run_impl(ctx.bin, bases)
        decs = []
        for c in bases:
            F = c.result["out"]
            if c.op == "enc_chunks":
                decs.append((c.a["data"], Case("dec_chunks", key=key, aad=b"", cs=c.a["cs"], data=F, rs=rng.choice(["-", "c7,c9,c1,c30"]))))
            elif c.op == "key_enc":
                decs.append((c.a["data"], Case("key_dec", r=r, rpk=rpk, data=F)))
            else:
                decs.append((c.a["data"], Case("pass_dec", pw=b"pw", data=F)))
        vlib.run_impl(ctx.bin, [d for _, d in decs])
        return [(None, c) for c in bases] + decs

    def cases(self, ctx):
        out = []
        for P, b in self.base(ctx):
            good = b.result
            enc_side = b.op in ("enc_chunks", "key_enc", "pass_enc")
            b.tags = ["fault-free", "trivial"]
            out.append(b)
            variants = fault_variants(good["trace"], b.a.get("rs", "-"), b.a.get("ws", "-"), b.a.get("fs", "-"))
            if not ctx.thorough() and len(variants) > 60:
                variants = ctx.rng.sample(variants, 60)
            for rs, ws, fs, tag in variants:
                a = dict(b.a)
                a.update(rs=rs, ws=ws, fs=fs)

                def orc(res, good=good, tag=tag, enc_side=enc_side):
                    side, kind = tag.split("@")[0].split("-")
                    if res["code"] == 1 or res["code"] >= 900:
                        return ("an I/O failure is reported as an error value, never a panic", res["outcome"])
                    triggered = any(t[0] in (2, 4, 6) or (t[0] == 3 and t[2] == 0 and t[1] > 0) or (t[0] == 1 and t[2] == 0)
                                    for t in res["trace"])
                    if not triggered or kind == "b" and not any(t[0] == 4 for t in res["trace"]):
                        # the scripted fault was never reached (e.g. the partial write completed the buffer)
                        if res["code"] != good["code"] or res["out"] != good["out"]:
                            return ("same result as the fault-free run when no fault occurred", res["outcome"])
                        return None
                    if side == "read" and kind == "z":
                        # a zero-length read is end-of-input by the Read contract, not a failure: the encryptor
                        # finalises there, the decryptor reports truncation (or, at the probe, success)
                        if (not enc_side) and not good["out"].startswith(res["out"]):
                            return ("released bytes are a prefix of the plaintext", "out=" + res["out"][:40].hex())
                        return None
                    if not good["out"].startswith(res["out"]):
                        return ("bytes written under a fault are a prefix of the fault-free output", "out=" + res["out"][:40].hex())
                    rd = range(20, 30) if enc_side else range(60, 70)
                    wr = range(30, 40) if enc_side else range(70, 80)
                    if res["code"] == 0:
                        # success is allowed only when the failure was a retried interruption and all was written
                        if not (kind == "i" and res["out"] == good["out"]):
                            return ("success only after a retried interruption with everything written", "ok out=" + res["out"][:40].hex())
                    elif kind in ("o", "b", "u", "y"):
                        want = rd if side == "read" else wr
                        if res["code"] not in want:
                            return ("error identifies the failing side (%s)" % side, res["outcome"])
                    return None
                out.append(Case(b.op, oracle=orc, tags=[tag.split("@")[0]], **a))
        out += t2_panic_observation_cases(ctx)
        # fault-free partial schedules with direct oracles (sinks accepting k bytes for every k, one short call at every
        # position, sources of every read size on files with short non-final chunks), every read index failing once
        out += r2_c10_schedule_cases(ctx)
        return out

    def explore(self, ctx):
        super().explore(ctx)
        # the command-line half (the four file commands with output that cannot be delivered, tools/props_lib_cli.py)
        props_lib_cli.c10_cli_part(self, ctx)

    def replay(self, ctx, payload):
        if payload.get("input", {}).get("kind") == "proc":
            return props_lib_cli.s2_replay(ctx, payload)
        return super().replay(ctx, payload)


def t2_hkdf_panic_cases(ctx):
    """Audit finding 5: hkdf_sha256(salt, ikm, info, len) is `derive_key(..).unwrap()`; orion refuses len = 0 and
    len > 255 * 32 = 8160, so the exported function PANICS there (the model: AeadWrap.hkdf_sha256 = Panic PUnwrap)
    and returns exactly len bytes for 1..8160.  Both sides of both boundaries."""
    out = []
    for n in (0, 8161, 8192, 70000):
        out.append(Case("hkdf", salt=ctx.rbytes(ctx.rng.choice([0, 32])), ikm=ctx.rbytes(ctx.rng.choice([0, 1, 32])),
                        info=ctx.rbytes(ctx.rng.choice([0, 7])), n=n,
                        oracle=(lambda r: None if r["code"] != 0 else
                                ("a length outside 1..8160 has no HKDF output (RFC 5869: L <= 255*HashLen): no bytes may be returned", r["outcome"])),
                        tags=["hkdf", "hkdf-out-of-range"]))
    for n in (1, 8160):
        out.append(Case("hkdf", salt=b"", ikm=ctx.rbytes(32), info=ctx.rbytes(32), n=n,
                        oracle=(lambda r, n=n: None if r["code"] == 0 and len(r["out"]) == n else ("%d bytes of output" % n, r["outcome"])),
                        tags=["hkdf", "hkdf-boundary"]))
    return out


# ---- C19: the RFC definitions written out in Python (expectations of the direct oracles; checked against the RFCs' own vectors
# by C19.c19_selftest before they are used, and the Gallina specifications are compared with the same implementation results)
def c19_chacha_block(key, counter, nonce):
    """RFC 8439 section 2.3"""
    import struct
    M = 0xffffffff
    st = [0x61707865, 0x3320646e, 0x79622d32, 0x6b206574] + list(struct.unpack("<8L", key)) + [counter & M] + list(struct.unpack("<3L", nonce))
    x = list(st)

    def rotl(v, n):
        return ((v << n) & M) | (v >> (32 - n))

    def qr(a, b, c, d):
        x[a] = (x[a] + x[b]) & M; x[d] = rotl(x[d] ^ x[a], 16)
        x[c] = (x[c] + x[d]) & M; x[b] = rotl(x[b] ^ x[c], 12)
        x[a] = (x[a] + x[b]) & M; x[d] = rotl(x[d] ^ x[a], 8)
        x[c] = (x[c] + x[d]) & M; x[b] = rotl(x[b] ^ x[c], 7)
    for _ in range(10):
        qr(0, 4, 8, 12); qr(1, 5, 9, 13); qr(2, 6, 10, 14); qr(3, 7, 11, 15)
        qr(0, 5, 10, 15); qr(1, 6, 11, 12); qr(2, 7, 8, 13); qr(3, 4, 9, 14)
    return struct.pack("<16L", *[(x[i] + st[i]) & M for i in range(16)])


def c19_poly1305(key32, msg):
    """RFC 8439 section 2.5"""
    r = int.from_bytes(key32[:16], "little") & 0x0ffffffc0ffffffc0ffffffc0fffffff
    s = int.from_bytes(key32[16:32], "little")
    acc, p = 0, (1 << 130) - 5
    for i in range(0, len(msg), 16):
        acc = (acc + int.from_bytes(msg[i:i + 16] + b"\x01", "little")) * r % p
    return ((acc + s) & ((1 << 128) - 1)).to_bytes(16, "little")


def c19_seal(key, nonce, aad, pt):
    """RFC 8439 section 2.8: ciphertext || tag"""
    import struct
    otk = c19_chacha_block(key, 0, nonce)[:32]
    ks = b"".join(c19_chacha_block(key, 1 + i, nonce) for i in range((len(pt) + 63) // 64))
    ct = bytes(a ^ b for a, b in zip(pt, ks))
    pad = lambda b: b"\x00" * ((16 - len(b) % 16) % 16)   # noqa: E731
    return ct + c19_poly1305(otk, aad + pad(aad) + ct + pad(ct) + struct.pack("<QQ", len(aad), len(ct)))


def c19_noise_nonce(n):
    return bytes(4) + (n & (2 ** 64 - 1)).to_bytes(8, "little")


def c19_hmac(key, msg):
    import hmac, hashlib
    return hmac.new(key, msg, hashlib.sha256).digest()


def c19_hmac_spelled_out(key, msg):
    """RFC 2104 over hashlib.sha256 only: a key longer than the BLOCK (64 bytes) is hashed, every other key is zero-padded to 64"""
    import hashlib
    if len(key) > 64:
        key = hashlib.sha256(key).digest()
    key = key + bytes(64 - len(key))
    return hashlib.sha256(bytes(b ^ 0x5c for b in key) + hashlib.sha256(bytes(b ^ 0x36 for b in key) + msg).digest()).digest()


def c19_hkdf(salt, ikm, info, n):
    """RFC 5869 sections 2.2, 2.3 (1 <= n <= 8160)"""
    prk = c19_hmac_spelled_out(salt, ikm)
    t, okm, i = b"", b"", 1
    while len(okm) < n:
        t = c19_hmac_spelled_out(prk, t + info + bytes([i]))
        okm += t
        i += 1
    return okm[:n]


def c19_x25519(k, u):
    """RFC 7748 section 5 (the value; the all-zero check is the caller's)"""
    P = 2 ** 255 - 19
    kk = int.from_bytes(k, "little")
    kk &= ~7 & ((1 << 256) - 1)
    kk &= (1 << 255) - 1
    kk |= 1 << 254
    x1 = (int.from_bytes(u, "little") & ((1 << 255) - 1)) % P
    x2, z2, x3, z3, swap = 1, 0, x1, 1, 0
    for t in range(254, -1, -1):
        kt = (kk >> t) & 1
        swap ^= kt
        if swap:
            x2, x3, z2, z3 = x3, x2, z3, z2
        swap = kt
        A = (x2 + z2) % P; AA = A * A % P; B = (x2 - z2) % P; BB = B * B % P
        E = (AA - BB) % P; C = (x3 + z3) % P; D = (x3 - z3) % P
        DA = D * A % P; CB = C * B % P
        x3 = (DA + CB) ** 2 % P; z3 = x1 * (DA - CB) ** 2 % P
        x2 = AA * BB % P; z2 = E * (AA + 121665 * E) % P
    if swap:
        x2, x3, z2, z3 = x3, x2, z3, z2
    return (x2 * pow(z2, P - 2, P) % P).to_bytes(32, "little")


def c19_reference(c):
    """the RFC value of one driver request (a vlib.Case): ("ok", bytes) | ("reject", None) | None when the op has no reference here"""
    import hashlib
    a, op = c.a, c.op
    if op == "seal" and len(a["key"]) == 32 and len(a["nonce"]) == 12:
        return ("ok", c19_seal(a["key"], a["nonce"], a["ad"], a["x"]))
    if op == "nseal" and len(a["key"]) == 32 and 0 <= a["n"] < 2 ** 64 - 1:
        return ("ok", c19_seal(a["key"], c19_noise_nonce(a["n"]), a["ad"], a["x"]))
    if op in ("open", "nopen") and len(a["key"]) == 32:
        nonce = a["nonce"] if op == "open" else c19_noise_nonce(a["n"])
        if len(nonce) != 12:
            return None
        x = a["x"]
        if len(x) < 16:
            return ("reject", None)
        otk = c19_chacha_block(a["key"], 0, nonce)[:32]
        pad = lambda b: b"\x00" * ((16 - len(b) % 16) % 16)   # noqa: E731
        ct = x[:-16]
        import struct
        if c19_poly1305(otk, a["ad"] + pad(a["ad"]) + ct + pad(ct) + struct.pack("<QQ", len(a["ad"]), len(ct))) != x[-16:]:
            return ("reject", None)
        ks = b"".join(c19_chacha_block(a["key"], 1 + i, nonce) for i in range((len(ct) + 63) // 64))
        return ("ok", bytes(p ^ q for p, q in zip(ct, ks)))
    if op == "sha256":
        return ("ok", hashlib.sha256(a["m"]).digest())
    if op == "hmac":
        return ("ok", c19_hmac_spelled_out(a["k"], a["m"]))
    if op == "hkdf" and 1 <= a["n"] <= 8160:
        return ("ok", c19_hkdf(a["salt"], a["ikm"], a["info"], a["n"]))
    if op == "x25519" and len(a["k"]) == 32 and len(a["u"]) == 32:
        v = c19_x25519(a["k"], a["u"])
        return ("reject", None) if v == bytes(32) else ("ok", v)
    if op == "xpub" and len(a["k"]) == 32:
        return ("ok", c19_x25519(a["k"], b"\x09" + bytes(31)))
    return None


C19_WHAT = {"seal": "RFC 8439 2.8 AEAD seal", "nseal": "RFC 8439 seal under the Noise nonce (4 zero bytes || 64-bit little-endian counter)",
            "open": "RFC 8439 2.8 AEAD open", "nopen": "RFC 8439 open under the Noise nonce", "sha256": "FIPS 180-4 SHA-256",
            "hmac": "RFC 2104 HMAC-SHA-256 (a key is hashed only when longer than the 64-byte block)", "hkdf": "RFC 5869 HKDF-SHA-256",
            "x25519": "RFC 7748 X25519 (an all-zero result is an error)", "xpub": "RFC 7748 X25519 of the base point 9"}


def c19_verdict(c, r):
    """None when the driver result r of request c equals the RFC value, else (expected, observed)"""
    ref = c19_reference(c)
    if ref is None:
        return None
    kind, val = ref
    if kind == "ok":
        if r["code"] == 0 and r["out"] == val:
            return None
        return ("%s: the value %s%s" % (C19_WHAT[c.op], val[:64].hex(), "" if len(val) <= 64 else "..(%d bytes, sha256 %s)" % (
            len(val), __import__("hashlib").sha256(val).hexdigest())),
                "%s out=%s%s" % (r["outcome"], r["out"][:64].hex(), "" if len(r["out"]) <= 64 else "..(%d bytes)" % len(r["out"])))
    if r["code"] in (51, 83):
        return None
    return ("%s: an error, no value" % C19_WHAT[c.op], "%s out=%s" % (r["outcome"], r["out"][:64].hex()))


def c19_with_reference(c):
    """adds the RFC-value oracle to a case (keeps an oracle it already has: both are evaluated)"""
    prev = c.expect_fn

    def f(r, c=c, prev=prev):
        m = prev(r) if prev is not None else None
        if m:
            return m
        return c19_verdict(c, r)
    c.expect_fn = f
    return c


class C19(Prop):
    id = "C19"
    model_is_reference = True
    rule = ("cases: each exported primitive vs its Gallina RFC specification: AEAD seal/open over plaintext lengths x AAD "
            "lengths at block boundaries (thorough: all 0..130 x 0..40), single-bit flips of ciphertext/tag/nonce/key/AD "
            "(must be rejected), X25519 on RFC vectors, low-order and non-canonical points and random pairs (symmetry), "
            "HKDF lengths 1..8160 and the panicking lengths 0, 8161, 8192, 70000 (no output outside RFC 5869's range), "
            "HMAC/SHA-256 message lengths 0..200, Noise nonce at counters across 64 bits; every result is also compared with the RFC value "
            "computed by Python transcriptions of RFC 8439 / 7748 / 5869 / 2104 (checked against the RFCs' vectors). call sequences, each on the one "
            "thread of ONE driver process: the RFC 8439 2.8.2 vector three times in a row; one request repeated 2-3 times for every exported function; "
            "one key and ONE nonce with message x AAD lengths swept (thorough: all 0..130 x 0..40) with nothing in between, Noise form with one counter; "
            "(key, nonce) pairs alternating and returning; Noise counters stuck / going back; HMAC key lengths 0..140 (all); HKDF output lengths at "
            "every multiple of 32 +-1 up to 8160 and 8128..8160; SHA-256 lengths 0..300: every call must return the RFC value of its own arguments; "
            "structured families (each call alone against the RFC value, a sample also through the Gallina specifications): OPEN ACCEPTS EXACTLY WHAT WAS SEALED: for sealed "
            "(key, nonce/counter, AAD empty and non-empty, plaintext) the exact opening and openings with a related AAD (empty <-> non-empty, prefix, suffix, extension, "
            "zero padding to the Poly1305 block, doubled, zeroed, reversed), the AAD/ciphertext boundary moved, ciphertext truncated / extended / tag only, related nonces, "
            "counters (+-1, bit 32, bit 63, byte order) and keys, IETF and Noise form crossed; HKDF GRID: info empty / 1 byte / longer x lengths 32, 64, 96 and neighbours "
            "x (salt, ikm) different / exchanged / equal / of other lengths / either or both empty; X25519 STRUCTURED u: 9 + x*2^(8i) for every byte i, 9 + x*2^248 "
            "for several x (thorough: all 1..127), 9 + 2^k, small u alone and with a high byte, one non-zero byte at each position, values next to p and 2^255, "
            "each also with bit 255 set; non-trivial = all")
    assumptions = ["orion is not modelled: its functions are compared with the RFC specifications, not proved equal",
                   "X25519 commutativity and AEAD unforgeability are not proved"]
    LOW_ORDER = ["00" * 32, "01" + "00" * 31,
                 "e0eb7a7c3b41b8ae1656e3faf19fc46ada098deb9c32b1fd866205165f49b800",
                 "5f9c95bca3508c24b1d0b1559c83ef5b04445cc4581c8e86d8224eddd09f1157",
                 "ecffffffffffffffffffffffffffffffffffffffffffffffffffffffffffff7f",
                 "edffffffffffffffffffffffffffffffffffffffffffffffffffffffffffff7f",
                 "eeffffffffffffffffffffffffffffffffffffffffffffffffffffffffffff7f",
                 ]
    LOW_ORDER = LOW_ORDER + [x[:62] + "%02x" % (int(x[62:], 16) | 0x80) for x in LOW_ORDER]

    def cases(self, ctx):
        rng = ctx.rng
        out = []
        key, nonce = ctx.rbytes(32), ctx.rbytes(12)
        if ctx.thorough():
            grid = [(p, a) for p in range(0, 131) for a in range(0, 41, 1 if p % 16 in (0, 1, 15) else 8)]
        else:
            grid = [(p, a) for p in (0, 1, 15, 16, 17, 63, 64, 65, 127, 128, 129) for a in (0, 1, 15, 16, 17, 40)]
        seals = []
        for p, a in grid:
            c = Case("seal", key=key, nonce=nonce, ad=ctx.rbytes(a), x=ctx.rbytes(p), tags=["seal"])
            seals.append(c)
        vlib.run_impl(ctx.bin, seals)
        def ct_of(c):   # a seal that gave no value (its own oracle reports that) does not stop the cases derived from it: they use the RFC value
            return c.result["out"] if c.result["code"] == 0 and len(c.result["out"]) == len(c.a["x"]) + 16 else c19_seal(c.a["key"], c.a["nonce"], c.a["ad"], c.a["x"])
        for c in seals:
            out.append(c)
            ct = ct_of(c)
            out.append(Case("open", key=key, nonce=nonce, ad=c.a["ad"], x=ct, oracle=ok_eq(c.a["x"], "open inverts seal"), tags=["open"]))

        def rej(r):
            return None if r["code"] == 51 else ("an altered ciphertext/tag/nonce/key/AD is rejected", r["outcome"])
        for c in (seals if ctx.thorough() else seals[::6]):
            ct = ct_of(c)
            bit = rng.randrange(len(ct) * 8)
            out.append(Case("open", key=key, nonce=nonce, ad=c.a["ad"], x=flip(ct, bit), oracle=rej, tags=["flip-ct"]))
            out.append(Case("open", key=flip(key, rng.randrange(256)), nonce=nonce, ad=c.a["ad"], x=ct, oracle=rej, tags=["flip-key"]))
            out.append(Case("open", key=key, nonce=flip(nonce, rng.randrange(96)), ad=c.a["ad"], x=ct, oracle=rej, tags=["flip-nonce"]))
            if c.a["ad"]:
                out.append(Case("open", key=key, nonce=nonce, ad=flip(c.a["ad"], rng.randrange(len(c.a["ad"]) * 8)), x=ct, oracle=rej, tags=["flip-ad"]))
            out.append(Case("open", key=key, nonce=nonce, ad=c.a["ad"] + b"\x00", x=ct, oracle=rej, tags=["ext-ad"]))
        for n in [0, 1, 255, 256, 2 ** 32 - 1, 2 ** 32, 2 ** 63, 2 ** 64 - 2] + [rng.getrandbits(64) % (2 ** 64 - 1) for _ in range(12)]:
            out.append(Case("nseal", key=key, n=n, ad=b"x", x=b"noise", tags=["nonce"]))
        # X25519
        pairs = keypairs(ctx, 4 if not ctx.thorough() else 16)
        for i in range(0, len(pairs), 2):
            (a, A), (b, B) = pairs[i], pairs[i + 1]
            ca, cb = Case("x25519", k=a, u=B, tags=["dh"]), Case("x25519", k=b, u=A, tags=["dh"])
            vlib.run_impl(ctx.bin, [ca, cb])
            sh = ca.result["out"]
            cb.expect_fn = (lambda r, sh=sh: None if r["out"] == sh and r["code"] == 0 else ("DH is symmetric", r["outcome"]))
            out += [ca, cb, Case("xpub", k=a, tags=["xpub"])]
        # u-coordinates with bit 255 set and non-canonical values (>= p) must be accepted and masked/reduced (RFC 7748 s.5)
        out.append(Case("x25519", k=bytes.fromhex("4b66e9d4d1b4673c5ad22691957d6af5c11b6421e0ea01d42ca4169e7918ba0d"),
                        u=bytes.fromhex("e5210f12786811d3f4b7959d0538ae2c31dbe7106fc03c3efc4cd549c715a493"),
                        oracle=ok_eq(bytes.fromhex("95cbde9476e8907d7aade45cb4b873f88b595a68799fa152e6f8f7647aac7957"), "RFC 7748 5.2 vector 2"),
                        tags=["rfc-vector", "high-bit"]))
        for (a, A), (b, B) in zip(pairs[::2], pairs[1::2]):
            hb = B[:31] + bytes([B[31] | 0x80])
            ref = Case("x25519", k=a, u=B)
            vlib.run_impl(ctx.bin, [ref])
            out.append(Case("x25519", k=a, u=hb, oracle=ok_eq(ref.result["out"], "bit 255 of the u-coordinate is ignored"), tags=["high-bit"]))
        for tail in ("ee" + "ff" * 30 + "7f", "f0" + "ff" * 30 + "7f", "ff" * 32, "ef" + "ff" * 30 + "ff"):
            out.append(Case("x25519", k=pairs[0][0], u=bytes.fromhex(tail) if tail != "ee" + "ff" * 30 + "7f" else bytes.fromhex("ef" + "ff" * 30 + "7f"),
                            oracle=(lambda r: None if r["code"] in (0, 83) else ("a value, never a panic", r["outcome"])), tags=["non-canonical"]))
        for u in self.LOW_ORDER:
            for k in ([pairs[0][0]] if not ctx.thorough() else [p[0] for p in pairs[:3]]):
                out.append(Case("x25519", k=k, u=bytes.fromhex(u),
                                oracle=(lambda r: None if r["code"] == 83 else ("all-zero shared secret is an error", r["outcome"])),
                                tags=["low-order"]))
        out.append(Case("x25519", k=bytes.fromhex("a546e36bf0527c9d3b16154b82465edd62144c0ac1fc5a18506a2244ba449ac4"),
                        u=bytes.fromhex("e6db6867583030db3594c1a424b15f7c726624ec26b3353b10a903a6d0ab1c4c"),
                        oracle=ok_eq(bytes.fromhex("c3da55379de9c6908e94ea4df28d084f32eccf03491c71f754b4075577a28552"), "RFC 7748 5.2"),
                        tags=["rfc-vector"]))
        # scalar edge cases: RFC 7748 clamps EVERY 32-byte string, incl. all zeros (= 2^254) and all ones
        for k in (bytes(32), b"\xff" * 32, bytes(31) + b"\x40", b"\x01" + bytes(31)):
            out.append(Case("xpub", k=k, oracle=ok_only("public-key derivation accepts every 32-byte scalar"), tags=["scalar-edge"]))
            out.append(Case("x25519", k=k, u=pairs[0][1], oracle=ok_only("X25519 accepts every 32-byte scalar"), tags=["scalar-edge"]))
        zp = Case("xpub", k=bytes(32))
        vlib.run_impl(ctx.bin, [zp])
        if zp.result["code"] == 0:
            ra = Case("x25519", k=bytes(32), u=pairs[0][1])
            rb = Case("x25519", k=pairs[0][0], u=zp.result["out"])
            vlib.run_impl(ctx.bin, [ra])
            rb.expect_fn = (lambda r, sh=ra.result["out"]: None if r["code"] == 0 and r["out"] == sh else ("DH is symmetric (zero scalar string)", r["outcome"]))
            rb.tags = ["scalar-edge"]
            out.append(rb)
        # the exported AEAD is not limited to one chunk: open inverts seal beyond 65536 + 16 bytes
        big = Case("seal", key=key, nonce=nonce, ad=b"big", x=ctx.rbytes(65536 + (300 if not ctx.thorough() else 70000)), tags=["seal-large"])
        vlib.run_impl(ctx.bin, [big])
        out.append(big)
        out.append(Case("open", key=key, nonce=nonce, ad=b"big", x=ct_of(big), oracle=ok_eq(big.a["x"], "open inverts seal for large messages"), tags=["open-large"]))
        # HKDF / HMAC / SHA-256
        for n in ([1, 31, 32, 33, 64, 255] + ([8160] if ctx.thorough() else [1000])):
            out.append(Case("hkdf", salt=ctx.rbytes(rng.choice([0, 1, 32, 100])), ikm=ctx.rbytes(rng.choice([0, 22, 80])),
                            info=ctx.rbytes(rng.choice([0, 10, 100])), n=n, tags=["hkdf"]))
        out += t2_hkdf_panic_cases(ctx)
        for n in (range(0, 201) if ctx.thorough() else list(range(0, 70)) + [119, 120, 127, 128, 129, 200]):
            out.append(Case("sha256", m=ctx.rbytes(n), tags=["sha256"]))
            if n % 3 == 0:
                out.append(Case("hmac", k=ctx.rbytes(rng.choice([0, 1, 32, 64, 65, 100])), m=ctx.rbytes(n), tags=["hmac"]))
        # HMAC keys between the hash's output size and its block size (RFC 2104 hashes a key only above the BLOCK size 64)
        for kl in (31, 33, 40, 48, 63, 66, 128, 131, rng.randrange(33, 64), rng.randrange(33, 64)):
            out.append(Case("hmac", k=ctx.rbytes(kl), m=ctx.rbytes(rng.choice([0, 3, 64, 100])), tags=["hmac", "hmac-key-%s" % ("33..64" if 33 <= kl <= 64 else "other")]))
        # every case also carries the RFC value (Python transcription) as a direct expectation
        return [c19_with_reference(c) for c in out]


    # ---------------------------------------------------------------- the RFC values as direct expectations; call sequences
    def c19_selftest(self, ctx):
        """the Python transcriptions against the RFCs' own vectors (RFC 8439 2.8.2, RFC 7748 5.2 / 6.1, RFC 5869 A.1, RFC 4231 cases 1, 2, 6)"""
        h = bytes.fromhex
        try:
            key, nonce, aad, pt, ct = self.c19_rfc8439()
            ok = c19_seal(key, nonce, aad, pt) == ct
            ok = ok and c19_x25519(h("a546e36bf0527c9d3b16154b82465edd62144c0ac1fc5a18506a2244ba449ac4"), h("e6db6867583030db3594c1a424b15f7c726624ec26b3353b10a903a6d0ab1c4c")) == \
                h("c3da55379de9c6908e94ea4df28d084f32eccf03491c71f754b4075577a28552")
            ok = ok and c19_x25519(h("77076d0a7318a57d3c16c17251b26645df4c2f87ebc0992ab177fba51db92c2a"), b"\x09" + bytes(31)) == \
                h("8520f0098930a754748b7ddcb43ef75a0dbf3a0d26381af4eba4a98eaa9b4e6a")
            ok = ok and c19_hkdf(h("000102030405060708090a0b0c"), h("0b" * 22), h("f0f1f2f3f4f5f6f7f8f9"), 42) == \
                h("3cb25f25faacd57a90434f64d0362f2a2d2d0a90cf1a5a4c5db02d56ecc4c5bf34007208d5b887185865")
            ok = ok and c19_hmac_spelled_out(h("0b" * 20), b"Hi There") == h("b0344c61d8db38535ca8afceaf0bf12b881dc200c9833da726e9376c2e32cff7")
            ok = ok and c19_hmac_spelled_out(b"Jefe", b"what do ya want for nothing?") == h("5bdcc146bf60754e6a042426089575c75a003f089d2739839dec58b964ec3843")
            ok = ok and c19_hmac_spelled_out(h("aa" * 131), b"Test Using Larger Than Block-Size Key - Hash Key First") == \
                h("60e431591ee0b67f0d8a26aacbf5b77f8e0bc6213728c5140546040f0ee37f54")
            for kl in (0, 1, 32, 33, 63, 64, 65, 131):
                ok = ok and c19_hmac_spelled_out(bytes(range(kl)), b"abc") == c19_hmac(bytes(range(kl)), b"abc")
        except Exception as ex:   # noqa
            ok = False
            ctx.broken.append({"kind": "machinery", "what": "C19 reference transcriptions raised %r" % ex})
            return False
        if not ok:
            ctx.broken.append({"kind": "machinery", "what": "the Python transcriptions of RFC 8439 / 7748 / 5869 / 2104 fail the RFCs' own test vectors"})
        return ok

    @staticmethod
    def c19_rfc8439():
        """RFC 8439 section 2.8.2: key, nonce, aad, plaintext, ciphertext || tag"""
        h = bytes.fromhex
        pt = b"Ladies and Gentlemen of the class of '99: If I could offer you only one tip for the future, sunscreen would be it."
        ct = h("d31a8d34648e60db7b86afbc53ef7ec2a4aded51296e08fea9e2b5a736ee62d63dbea45e8ca9671282fafb69da92728b1a71de0a9e060b2905d6a5b67ecd3b36"
               "92ddbd7f2d778b8c9803aee328091b58fab324e4fad675945585808b4831d7bc3ff4def08e4b7a9de576d26586cec64b61161ae10b594f09e26a7e902ecbd0600691")
        return (h("808182838485868788898a8b8c8d8e8f909192939495969798999a9b9c9d9e9f"), h("070000004041424344454647"), h("50515253c0c1c2c3c4c5c6c7"), pt, ct)

    def c19_gen_sequences(self, ctx):
        """(family, [Case, ...]): every sequence is run IN ORDER on the one thread of ONE driver process of its own.  The functions
        are pure: whatever was computed before (the same request, the same key and nonce with another message, another key), every
        call returns the RFC value of its own arguments."""
        rng = ctx.rng
        full = ctx.thorough()
        seqs = []
        key, nonce, aad, pt, _ = self.c19_rfc8439()
        # 1. the RFC 8439 vector evaluated three times in a row; then with its open in between; then as a Noise seal
        seqs.append(("rfc8439-vector-repeated", [Case("seal", key=key, nonce=nonce, ad=aad, x=pt) for _ in range(3)]))
        s_ = Case("seal", key=key, nonce=nonce, ad=aad, x=pt)
        seqs.append(("rfc8439-vector-repeated", [s_, Case("open", key=key, nonce=nonce, ad=aad, x=c19_seal(key, nonce, aad, pt)),
                                                 Case("seal", key=key, nonce=nonce, ad=aad, x=pt), Case("seal", key=key, nonce=nonce, ad=aad, x=pt)]))
        # 2. one and the same request twice / three times in a row, for every exported function
        for _ in range(6 if full else 2):
            k, n12 = ctx.rbytes(32), ctx.rbytes(12)
            ad, x = ctx.rbytes(rng.choice([0, 1, 16, 33])), ctx.rbytes(rng.choice([0, 1, 15, 16, 17, 64, 65, 130]))
            cnt = rng.choice([0, 1, 255, 2 ** 32, rng.getrandbits(63)])
            sk, pk = ctx.rbytes(32), c19_x25519(ctx.rbytes(32), b"\x09" + bytes(31))
            for mk in (lambda: Case("seal", key=k, nonce=n12, ad=ad, x=x),
                       lambda: Case("nseal", key=k, n=cnt, ad=ad, x=x),
                       lambda: Case("open", key=k, nonce=n12, ad=ad, x=c19_seal(k, n12, ad, x)),
                       lambda: Case("nopen", key=k, n=cnt, ad=ad, x=c19_seal(k, c19_noise_nonce(cnt), ad, x)),
                       lambda: Case("hmac", k=k[:rng.choice([0, 7, 32])] if rng.random() < 0.5 else ctx.rbytes(rng.randrange(33, 140)), m=x),
                       lambda: Case("hkdf", salt=ad, ikm=k, info=x[:20], n=rng.choice([1, 32, 33, 64, 100])),
                       lambda: Case("sha256", m=x),
                       lambda: Case("x25519", k=sk, u=pk),
                       lambda: Case("xpub", k=sk)):
                first = mk()
                rep = rng.choice([2, 2, 3])
                seqs.append(("same-request-repeated/" + first.op, [first] + [Case(first.op, **dict(first.a)) for _ in range(rep - 1)]))
        # 3. one key and ONE nonce, the message and AAD lengths swept without anything in between (the way the property's
        #    0..130 x 0..40 grid is naturally written); the Noise form with one counter likewise
        for fam_i in range(3 if full else 1):
            k, n12 = ctx.rbytes(32), ctx.rbytes(12)
            if full:
                grid = [(p, a) for p in range(0, 131) for a in range(0, 41)] if fam_i == 0 else [(p, rng.randrange(0, 41)) for p in range(0, 131)]
            else:
                grid = [(p, rng.choice([0, 1, 12, 15, 16, 17, 40])) for p in range(0, 131, 1)][::2] + [(p, a) for p in (0, 16, 64) for a in (0, 1, 16, 40)]
            seqs.append(("length-sweep-one-key-one-nonce/seal", [Case("seal", key=k, nonce=n12, ad=ctx.rbytes(a), x=ctx.rbytes(p)) for p, a in grid]))
            cnt = rng.choice([0, 7, 2 ** 40 + 3])
            seqs.append(("length-sweep-one-key-one-nonce/nseal", [Case("nseal", key=k, n=cnt, ad=ctx.rbytes(a), x=ctx.rbytes(p)) for p, a in grid[::4]]))
        # 4. pairs alternating and returning: A B A A B B, (key, nonce) differing in the key only / the nonce only
        for _ in range(4 if full else 2):
            k1, k2, n1, n2 = ctx.rbytes(32), ctx.rbytes(32), ctx.rbytes(12), ctx.rbytes(12)
            A, B = rng.choice([((k1, n1), (k2, n1)), ((k1, n1), (k1, n2)), ((k1, n1), (k2, n2))])
            order = rng.choice([[A, B, A, A, B, B], [A, A, B, A], [B, A, B, B, A, A]])
            seqs.append(("pairs-alternating", [Case("seal", key=kk, nonce=nn, ad=ctx.rbytes(rng.choice([0, 5])), x=ctx.rbytes(rng.randrange(0, 70))) for kk, nn in order]))
        # 5. Noise counters in order, stuck, and going back (the exported function does not police its caller)
        k = ctx.rbytes(32)
        cs_ = [0, 1, 2, 2, 3, 1, 0, 0, 2 ** 64 - 2, 2 ** 64 - 2]
        seqs.append(("noise-counter-stuck-or-going-back", [Case("nseal", key=k, n=c_, ad=b"", x=ctx.rbytes(rng.randrange(0, 40))) for c_ in cs_]))
        # 6. HMAC: every key length 0..140 (the hash's output size 32 and its block size 64 are both boundaries), one message; the
        #    same key twice with different messages
        for m in ([b"", ctx.rbytes(rng.randrange(1, 100))] + ([ctx.rbytes(64), ctx.rbytes(200)] if full else [])):
            base = ctx.rbytes(141)
            seqs.append(("hmac-key-length-sweep", [Case("hmac", k=base[:kl] if rng.random() < 0.7 else ctx.rbytes(kl), m=m) for kl in range(0, 141)]))
        kk = ctx.rbytes(rng.choice([33, 48, 64]))
        seqs.append(("hmac-key-length-sweep", [Case("hmac", k=kk, m=ctx.rbytes(i)) for i in (0, 1, 55, 56, 64, 119)]))
        # 7. HKDF: output lengths at every block boundary up to the maximum 8160, the last block completely, small lengths densely
        lens = sorted(set(list(range(1, 70)) + [32 * i + d for i in range(1, 256) for d in (-1, 0, 1)] + list(range(8128, 8161))))
        lens = [n for n in lens if 1 <= n <= 8160]
        if not full:
            lens = sorted(set(rng.sample(lens, 150) + [1, 31, 32, 33, 64, 8128, 8129, 8159, 8160] + list(range(8150, 8161))))
        h = bytes.fromhex
        fixed = (h("000102030405060708090a0b0c"), h("0b" * 22), h("f0f1f2f3f4f5f6f7f8f9"))
        seqs.append(("hkdf-length-sweep/rfc5869-A.1-inputs", [Case("hkdf", salt=fixed[0], ikm=fixed[1], info=fixed[2], n=n) for n in lens]))
        seqs.append(("hkdf-length-sweep/random-inputs", [Case("hkdf", salt=ctx.rbytes(rng.choice([0, 1, 32, 64, 65, 100])), ikm=ctx.rbytes(rng.choice([0, 1, 32, 80])),
                                                         info=ctx.rbytes(rng.choice([0, 1, 10, 100])), n=n) for n in lens[::3] + [8160, 8160]]))
        # 8. SHA-256 message lengths 0..300, all
        seqs.append(("sha256-length-sweep", [Case("sha256", m=ctx.rbytes(n)) for n in range(0, 301)]))
        return seqs

    @staticmethod
    def c19_body(c):
        c.id = "0"
        return c.rust_line().split(" ", 1)[1]

    def c19_sequences(self, ctx):
        from concurrent.futures import ThreadPoolExecutor
        seqs = self.c19_gen_sequences(ctx)
        with ThreadPoolExecutor(max_workers=vlib.NPROC) as ex:
            list(ex.map(lambda s: vlib.run_impl(ctx.bin, s[1]), seqs))
        dist = collections.Counter(ctx.distribution)
        nviol = 0
        sample = []
        for fam, cs in seqs:
            dist["sequence:" + fam] += 1
            bodies = None
            for i, c in enumerate(cs):
                ctx.evaluations += 1
                ctx.distinct_nontrivial += 1
                ctx.oracle_checks += 1
                dist["sequence-op:" + c.op] += 1
                v = c19_verdict(c, c.result)
                if v is None:
                    continue
                nviol += 1
                if nviol > 12:
                    dist["further-sequence-violations-not-written-as-replays"] += 1
                    continue
                if bodies is None:
                    bodies = [self.c19_body(x) for x in cs]
                first_same = next((j for j in range(i) if bodies[j] == bodies[i]), None)
                ctx.violations.append({
                    "input": {"driver": "libdrv", "lines": bodies[:i + 1], "family": fam, "call": c.full(),
                              "note": "the lines are executed in this order on the one thread of ONE driver process; the LAST line is the failing call"
                                      + ("; line %d is the identical request" % first_same if first_same is not None else "")},
                    "expected": "call %d of the sequence returns, as every call does whatever was computed before it, " % i + v[0],
                    "observed": v[1], "finding_key": None})
            if len(sample) < 60 and fam.split("/")[0] in ("rfc8439-vector-repeated", "same-request-repeated", "pairs-alternating", "noise-counter-stuck-or-going-back"):
                sample += cs[:6]
        ctx.distribution = dict(dist)
        if not ctx.samples or len(ctx.samples) < 8:
            ctx.samples.append({"gen": "sequences", "families": sorted(set(f for f, _ in seqs)), "sequences": len(seqs), "calls": sum(len(c) for _, c in seqs)})
        # a part of the sequences also through the Gallina specifications (which have no state), again in order in one process
        if sample:
            fresh = [Case(c.op, **dict(c.a)) for c in sample]
            self.run_cases(ctx, fresh, model=True)

    # ---------------------------------------------------------------- structured families (every call alone against the RFC value)
    def c19_r7_gen_structured(self, ctx):
        """(family, Case) list.  Three families whose members are RELATED to one another rather than random:
        open-exact: for sealed (key, nonce, aad, plaintext) every opening whose key / nonce / AAD / ciphertext is related to but
        different from what was sealed (AAD empty <-> non-empty, prefix, suffix, extension, zero padding to the Poly1305 block,
        AAD/ciphertext boundary moved, nonce and counter neighbours, truncated / extended ciphertext) next to the exact opening;
        hkdf-grid: info empty / non-empty x output lengths around 1, 2, 3, 4 hash blocks x salt / ikm different, equal, exchanged, empty;
        x25519-structured-u: u = 9 + x*2^k, small u with a high byte, one non-zero byte at every position, values next to 9, p and
        2^255, each also with bit 255 set, under random and structured scalars."""
        rng = ctx.rng
        full = ctx.thorough()
        out = []
        # ---- AEAD: open accepts exactly what seal produced
        shapes = [(0, 0), (0, 1), (0, 16), (0, 65), (1, 0), (1, 17), (12, 64), (16, 16), (17, 1), (33, 130)]
        if not full:
            shapes = shapes[:4] + rng.sample(shapes[4:], 3)
        for (al, pl) in shapes:
            key, nonce, aad, pt = ctx.rbytes(32), ctx.rbytes(12), ctx.rbytes(al), ctx.rbytes(pl)
            cnt = rng.choice([0, 1, 255, 2 ** 32 - 1, 2 ** 32, rng.getrandbits(63)])
            ct = c19_seal(key, nonce, aad, pt)
            nct = c19_seal(key, c19_noise_nonce(cnt), aad, pt)
            fam = "open-exact/sealed-aad-%s" % ("empty" if not aad else "nonempty")
            out.append((fam + "/exact", Case("open", key=key, nonce=nonce, ad=aad, x=ct)))
            out.append((fam + "/exact", Case("nopen", key=key, n=cnt, ad=aad, x=nct)))
            if not aad:
                aads = [b"\x00", bytes(16), bytes(rng.randrange(2, 40)), ctx.rbytes(1), ctx.rbytes(16), ctx.rbytes(rng.randrange(2, 41)), nonce, key, ct[:16], pt[:1] or b"a"]
            else:
                aads = [b"", aad[:-1], aad[1:], aad + b"\x00", aad + bytes((16 - len(aad) % 16) % 16 or 16), aad + ctx.rbytes(1), aad * 2,
                        aad.rstrip(b"\x00") if aad.rstrip(b"\x00") != aad else aad[:len(aad) // 2], bytes(len(aad)), aad[::-1] if aad[::-1] != aad else aad + aad]
            for a2 in aads:
                if a2 == aad:
                    continue
                out.append((fam + "/other-aad", Case("open", key=key, nonce=nonce, ad=a2, x=ct)))
                out.append((fam + "/other-aad", Case("nopen", key=key, n=cnt, ad=a2, x=nct)))
            # the AAD / ciphertext boundary moved (both directions), ciphertext truncated / extended / tag only
            for (a2, x2) in ((aad + ct[:1], ct[1:]), (aad[:-1], aad[-1:] + ct), (aad, ct[:-1]), (aad, ct + b"\x00"), (aad, ct[-16:]), (aad, ct[1:]),
                             (aad, b"\x00" + ct), (ct[:-16], aad + ct[-16:])):
                if (a2, x2) != (aad, ct):
                    out.append((fam + "/boundary-or-length", Case("open", key=key, nonce=nonce, ad=a2, x=x2)))
            # related nonces / counters / keys
            for n2 in (bytes(12), nonce[::-1], nonce[1:] + nonce[:1], nonce[:4] + bytes(8), bytes(4) + nonce[4:], flip(nonce, rng.randrange(96))):
                if n2 != nonce:
                    out.append((fam + "/other-nonce", Case("open", key=key, nonce=n2, ad=aad, x=ct)))
            for c2 in (cnt + 1, max(0, cnt - 1), cnt ^ (1 << 32), cnt ^ (1 << 63), int.from_bytes(cnt.to_bytes(8, "little"), "big"), 0):
                if c2 != cnt and 0 <= c2 < 2 ** 64 - 1:
                    out.append((fam + "/other-counter", Case("nopen", key=key, n=c2, ad=aad, x=nct)))
            # the Noise form and the IETF form see the same bytes: a Noise ciphertext opens under the nonce 0^4 || LE64(counter) only
            out.append((fam + "/exact", Case("open", key=key, nonce=c19_noise_nonce(cnt), ad=aad, x=nct)))
            out.append((fam + "/other-nonce", Case("open", key=key, nonce=cnt.to_bytes(8, "little") + bytes(4), ad=aad, x=nct)) if cnt else
                       (fam + "/other-key", Case("open", key=bytes(32), nonce=nonce, ad=aad, x=ct)))
            for k2 in (bytes(32), key[::-1], key[1:] + key[:1], flip(key, rng.randrange(256)), (aad + key)[:32]):
                if k2 != key:
                    out.append((fam + "/other-key", Case("open", key=k2, nonce=nonce, ad=aad, x=ct)))
        # ---- HKDF: info empty / not x lengths around the hash blocks x salt / ikm relations
        lens = [1, 31, 32, 33, 63, 64, 65, 95, 96, 97, 128] if full else [32, 64, 96] + rng.sample([1, 31, 33, 63, 65, 95, 97, 128], 3)
        for info in (b"", ctx.rbytes(1), ctx.rbytes(rng.choice([10, 32, 64]))):
            for n in lens:
                s32, i32, s_, i_ = ctx.rbytes(32), ctx.rbytes(32), ctx.rbytes(rng.choice([1, 13, 64, 65, 100])), ctx.rbytes(rng.choice([1, 22, 64, 80]))
                for rel, salt, ikm in (("different", s32, i32), ("exchanged", i32, s32), ("equal", s32, s32), ("different-lengths", s_, i_), ("exchanged-lengths", i_, s_),
                                       ("salt-empty", b"", i_), ("ikm-empty", s_, b""), ("both-empty", b"", b"")):
                    out.append(("hkdf-grid/info-%s/len=%d/%s" % ("empty" if not info else "nonempty", n, rel), Case("hkdf", salt=salt, ikm=ikm, info=info, n=n)))
        # ---- X25519: structured u-coordinates
        us = []
        base = b"\x09" + bytes(31)

        def at(i, x, first=9):
            b = bytearray(32)
            b[0] = first
            b[i] = x if i else first
            return bytes(b)
        for i in range(1, 32):        # 9 + x * 2^(8i): every byte position, the last one densely
            us.append(("9+x*2^%d" % (8 * i), at(i, rng.randrange(1, 256 if i < 31 else 128))))
        for x in (range(1, 128) if full else [1, 2, 0x40, 0x7f] + rng.sample(range(3, 0x7f), 6)):
            us.append(("9+x*2^248", at(31, x)))
        for k in ([3, 4, 7, 9, 100, 200, 247, 250, 253, 254] if full else rng.sample([3, 4, 7, 9, 100, 200, 247, 250, 253, 254], 4)):   # not byte aligned
            us.append(("9+2^%d" % k, (9 + (1 << k)).to_bytes(32, "little")))
        for s in ([2, 3, 4, 5, 6, 7, 8, 10, 11, 16, 255, 256] if full else [2, 8, 10] + rng.sample([3, 4, 5, 6, 7, 11, 16, 255, 256], 3)):    # small u, alone and with a high byte
            us.append(("small-u", s.to_bytes(32, "little")))
            us.append(("small-u+high-byte", (s + (rng.randrange(1, 128) << 248)).to_bytes(32, "little")))
        for i in (range(32) if full else rng.sample(range(32), 8)):        # exactly one non-zero byte
            us.append(("single-byte-u", at(i, rng.randrange(2, 128), first=0) if i else bytes([rng.randrange(2, 256)]) + bytes(31)))
        P = 2 ** 255 - 19
        for v in (P - 9, P + 9, P - 2, P + 2, 2 ** 255 - 1 - 9, 2 ** 254 + 9, 2 ** 254, 9 << 8, 9 << 248 & (2 ** 255 - 1)):
            us.append(("next-to-p-or-2^255", (v % 2 ** 255).to_bytes(32, "little")))
        us.append(("base-point", base))
        ks = [ctx.rbytes(32), ctx.rbytes(32)] + ([ctx.rbytes(32), ctx.rbytes(32), b"\x09" + bytes(31), bytes(32)] if full else [rng.choice([b"\x09" + bytes(31), bytes(32), b"\xff" * 32])])
        for fam, u in us:
            for k in (ks if full else [rng.choice(ks[:2])] + ([ks[2]] if rng.random() < 0.25 else [])):
                out.append(("x25519-structured-u/" + fam, Case("x25519", k=k, u=u)))
                out.append(("x25519-structured-u/" + fam + "/bit255-set", Case("x25519", k=k, u=u[:31] + bytes([u[31] | 0x80]))))
        return out

    def c19_r7_structured(self, ctx):
        from concurrent.futures import ThreadPoolExecutor
        fc = self.c19_r7_gen_structured(ctx)
        cs = [c for _, c in fc]
        nsh = max(1, min(vlib.NPROC, len(cs) // 50))
        with ThreadPoolExecutor(max_workers=nsh) as ex:
            list(ex.map(lambda part: vlib.run_impl(ctx.bin, part), [cs[k::nsh] for k in range(nsh)]))
        dist = collections.Counter(ctx.distribution)
        nviol, per_fam, model_sample = 0, collections.Counter(), []
        for fam, c in fc:
            top = fam.split("/")[0]
            dist["structured:" + "/".join(fam.split("/")[:2]) if top != "hkdf-grid" else "structured:" + fam.split("/len=")[0]] += 1
            ctx.evaluations += 1
            ctx.distinct_nontrivial += 1
            ref = c19_reference(c)
            if ref is None:
                ctx.broken.append({"kind": "machinery", "what": "C19 structured case without a reference value: %s %s" % (fam, c.op)})
                continue
            ctx.oracle_checks += 1
            dist["structured-expected:%s/%s" % (top, ref[0])] += 1
            v = c19_verdict(c, c.result)
            if v is None:
                if per_fam[top + c.op] < (6 if ctx.thorough() else 1) and ctx.rng.random() < 0.1:
                    per_fam[top + c.op] += 1
                    model_sample.append(c)
                continue
            nviol += 1
            per_fam["violations/" + top] += 1
            if per_fam["violations/" + top] > 5:        # a few failing inputs per family
                dist["further-structured-violations-not-written-as-replays"] += 1
                continue
            exp = v[0]
            if ref[0] == "reject":
                exp = ("%s: the key / nonce / associated data / ciphertext of this call differ from what was sealed (family %s): RFC 8439 2.8 recomputes the tag over "
                       "THIS call's associated data and ciphertext, it does not match, so the call returns an error and no plaintext" % (C19_WHAT[c.op], fam))
            ctx.violations.append({"input": c.full(), "expected": "[%s] %s" % (fam, exp), "observed": v[1], "finding_key": None})
        ctx.distribution = dict(dist)
        if len(ctx.samples) < 9:
            ctx.samples.append({"gen": "structured", "calls": len(fc), "families": sorted(set(f.split("/")[0] for f, _ in fc))})
        # a few members of each family through the Gallina specifications too
        if model_sample:
            self.run_cases(ctx, [Case(c.op, **dict(c.a)) for c in model_sample], model=True)

    def explore(self, ctx):
        if not self.c19_selftest(ctx):
            return
        super().explore(ctx)
        singles, ctx.violations = ctx.violations, []
        self.c19_sequences(ctx)
        self.c19_r7_structured(ctx)
        # failing inputs that carry the calls made before them come first; a single-call failing input is re-run alone in a fresh
        # process, and said to depend on the process's history when it does not fail there
        if len(singles) > 25:
            ctx.distribution["further-violations-not-written-as-replays"] = ctx.distribution.get("further-violations-not-written-as-replays", 0) + len(singles) - 25
            singles = singles[:25]
        for v in singles:
            try:
                c = case_from_full(v["input"])
                vlib.run_impl(ctx.bin, [c])
                if c19_reference(c) is not None and c19_verdict(c, c.result) is None:
                    v["observed"] = str(v["observed"]) + "  [alone in a fresh process the same call returns the RFC value: the failure depends on the calls made " \
                                                         "before it in the same process; the replays with input.lines give such a history]"
            except Exception:   # noqa
                pass
        ctx.violations += singles
        ctx.search_note = (ctx.search_note + "; " if ctx.search_note else "") + \
            "every result compared with the RFC value computed in Python (%d oracle checks), call sequences in one process included" % ctx.oracle_checks

    def replay(self, ctx, payload):
        inp = payload.get("input", {})
        if isinstance(inp, dict) and inp.get("lines") and inp.get("call"):
            res, _ = vlib.run_driver(ctx.bin, ["%d %s" % (i + 1, b) for i, b in enumerate(inp["lines"])])
            last = res.get(str(len(inp["lines"])), "%d outcome=missing" % len(inp["lines"]))
            c = case_from_full(inp["call"])
            return {"holds": c19_verdict(c, vlib.parse_result(c.op, last)) is None, "implementation": [res.get(str(i + 1), "")[:300] for i in range(len(inp["lines"]))][-6:],
                    "expected": payload.get("expected")}
        out = super().replay(ctx, payload)
        try:
            c = case_from_full(inp)
            vlib.run_impl(ctx.bin, [c])
            if c19_reference(c) is not None:
                out["holds"] = c19_verdict(c, c.result) is None
        except Exception:   # noqa
            pass
        return out


for cls in (C01, C02, C06, C09, C10, C19):
    REGISTRY[cls.id] = cls()


class C04(Prop):
    id = "C04"
    rule = ("cases: the C03 adversarial chunk stream (bit flips, truncations, extensions, rearrangements at chunk size 2/3; every "
            "whole-record edit and extension of files of every chunk layout incl. the empty plaintext and short non-final chunks) "
            "and authentic files, each additionally run under read/write/flush fault schedules derived from its own "
            "fault-free trace (every call position, Interrupted / other error / zero-length); observation = outcome, bytes "
            "written and the full I/O trace (order and sizes of every read, write, flush), which must equal the model's; "
            "direct oracle on the implementation: released bytes are a prefix of the plaintext in whole chunks unless the "
            "sink itself cut a write, Ok only with the complete plaintext after a 0-byte probe read, no I/O event after the "
            "event that determined an error; non-trivial = not the unmodified fault-free run; CLI half (s4a_c04_cli_release): real "
            "`decrypt` / `password decrypt` processes on key and password files of 0, 1, 64 KiB-1/+0/+1, 2 and 3 chunks (thorough: more), "
            "intact and damaged in chunk 1, 2, 3.. (header / body / tag bit, truncation inside and between chunks, appended bytes), "
            "plaintext destination {stdout pipe | stdout redirected to a file | -o} x stderr {pipe | file | terminal}, sender's key "
            "first / last / absent in the keyring: the destination receives EXACTLY the plaintext resp. the authenticated prefix; and the "
            "same on a pseudo-terminal with the password prompted for and every prompt answered (tools/ptyrun.py): the prefix, once, exit 1")
    assumptions = ["no-forgery-in-run premise for the authenticity part (as C03)",
                   "the CLI half observes the destination after the process has ended (not at every moment); the lazily created output file is C13"]

    def oracle(self, P, cs, writer_faulty):
        def f(r):
            if r["code"] == 1 or r["code"] >= 900:
                return ("error value or success, never a panic", r["outcome"])
            out = r["out"]
            if not P.startswith(out):
                return ("bytes released are a prefix of the authentic plaintext", "out=" + out.hex())
            if r["code"] == 0 and out != P:
                return ("success only with the complete plaintext", "ok out=" + out.hex())
            if not writer_faulty and r["code"] != 0 and len(out) not in cs:
                return ("only whole authenticated chunks are released", "out=" + out.hex())
            tr = r["trace"]
            if r["code"] == 0:
                # the final chunk's write must come after a probe read that returned 0 bytes
                probe = [i for i, t in enumerate(tr) if t == (1, 1, 0)]
                writes = [i for i, t in enumerate(tr) if t[0] == 3]
                lastrec = [i for i, t in enumerate(tr) if t[0] == 1 and t[1] != 1]
                if not probe:
                    return ("Ok only after the 1-byte end-of-input probe read 0 bytes", "trace has no r1:0")
                if writes and lastrec and any(w > lastrec[-1] and w < probe[-1] for w in writes):
                    return ("the final chunk is written only after the probe", "write before probe")
            else:
                # nothing may follow the failing I/O event
                bad = [i for i, t in enumerate(tr) if t[0] in (4, 6) or (t[0] == 2 and t[2] != 1) or (t[0] == 3 and t[2] == 0 and t[1] > 0)]
                if bad and bad[0] != len(tr) - 1:
                    return ("once an error is determined nothing further happens", "events after the failing call: %s" % (tr[bad[0]:],))
            return None
        return f

    def cases(self, ctx):
        rng = ctx.rng
        c3 = REGISTRY["C03"]
        base = [c for c in c3.chunk_stream(ctx, False) if c.op == "dec_chunks"]
        if not ctx.thorough():
            keep = [c for c in base if "authentic" in c.tags]
            rest = [c for c in base if "authentic" not in c.tags]
            base = keep + rng.sample(rest, min(len(rest), 150))
        # whole-record edits and extensions of files of every chunk layout (empty plaintext, short non-final chunks, ...): all kept
        base += [c for c in r1_c03_record_edit_cases(c3, ctx, False) if c.op == "dec_chunks"]
        # plaintext of each base case is what its C03 oracle was built with: recover by running authentic files
        auth = {}
        for c in base:
            if "authentic" in c.tags:
                auth[(c.a["key"], c.a["cs"])] = auth.get((c.a["key"], c.a["cs"]), []) + [c]
        vlib.run_impl(ctx.bin, base)
        plain = {}
        for c in base:
            if "authentic" in c.tags:
                plain[c.a["data"]] = c.result["out"]
        out = []
        # every base case once, fault free, with the C04 oracle against the longest authentic plaintext it extends
        def plaintext_for(c):
            best = b""
            for f, p in plain.items():
                if c.a["key"] == [k for k in [c.a["key"]]][0] and (c.a["data"][:16] == f[:16] or True):
                    pass
            return None
        auth_files = [c for c in base if "authentic" in c.tags]
        for c in auth_files:
            P = c.result["out"]
            cs = {0}
            acc = 0
            for rec in records(c.a["data"]):
                acc += len(rec) - 32
                cs.add(acc)
            good = c.result
            out.append(Case("dec_chunks", oracle=self.oracle(P, cs, False), tags=["fault-free", "trivial"], **dict(c.a)))
            variants = fault_variants(good["trace"], "-", "-", "-")
            if not ctx.thorough() and len(variants) > 40:
                variants = rng.sample(variants, 40)
            for rs, ws, fs, tag in variants:
                a = dict(c.a)
                a.update(rs=rs, ws=ws, fs=fs)
                out.append(Case("dec_chunks", oracle=self.oracle(P, cs, tag.startswith("write")), tags=[tag.split("@")[0]], **a))
            # partial reads / partial writes, no faults
            for rs, ws in (("c1,c1,c1,c1,c1,c1,c1,c1,c1,c1,c1,c1,c1,c1,c1,c1,c1", "c1,c1,c1"), ("c5,c11,c2,c9", "c2,c1")):
                a = dict(c.a)
                a.update(rs=rs, ws=ws)
                out.append(Case("dec_chunks", oracle=self.oracle(P, cs, False), tags=["partial-io"], **a))
        # modified files: correspondence on the full trace (the model's monitor theorem covers them), prefix oracle
        # against every authentic plaintext under the same key
        for c in base:
            if "authentic" in c.tags:
                continue
            cands = [x.result["out"] for x in auth_files if x.a["key"] == c.a["key"] and x.a["cs"] == c.a["cs"]]

            def orc(r, cands=cands):
                if r["code"] == 1 or r["code"] >= 900:
                    return ("error value or success, never a panic", r["outcome"])
                if not any(p.startswith(r["out"]) for p in cands):
                    return ("released bytes are a prefix of an authentic plaintext", "out=" + r["out"].hex())
                if r["code"] == 0 and r["out"] not in cands:
                    return ("success only with a complete authentic plaintext", "ok out=" + r["out"].hex())
                return None
            a = dict(c.a)
            a.update(ws=rng.choice(["-", "c1,c2"]), rs=rng.choice(["-", "c3,c7,c1,c40"]))
            out.append(Case("dec_chunks", oracle=orc, tags=["modified"] + [t for t in c.tags if t != "trivial"], **a))
        return out

    # ---- CLI half: what ARRIVES at the plaintext destination of `kestrel decrypt` / `kestrel password decrypt`
    def explore(self, ctx):
        super().explore(ctx)
        if os.path.exists(vlib.CLIDRV):
            s4a_c04_cli_release(self, ctx)
        else:
            ctx.broken.append({"kind": "correspondence", "what": "clidrv was not built: CLI half of C04 (bytes at the plaintext destination) not checked"})

    def replay(self, ctx, payload):
        if payload.get("input", {}).get("kind") == "proc":
            import props_cli
            return props_cli.k_replay(ctx, payload)
        return super().replay(ctx, payload)


def s4a_ptyrun(job):
    """tools/ptyrun.py in a process of its own: one command on a pseudo-terminal, typed lines delivered at the password prompts"""
    import json, subprocess, sys
    try:
        p = subprocess.run([sys.executable, os.path.join(vlib.VERIF, "tools", "ptyrun.py")], input=json.dumps(job).encode(),
                           stdout=subprocess.PIPE, stderr=subprocess.PIPE, timeout=float(job.get("timeout", 120)) + 30)
        d = json.loads(p.stdout.decode() or "{}")
    except (subprocess.TimeoutExpired, ValueError) as e:
        d = {"error": repr(e)[:200]}
    d.setdefault("rc", 125)
    for k in ("stdout", "stderr", "pty"):
        d[k] = bytes.fromhex(d.get(k, ""))
    return d


def s4a_c04_cli_release(self, ctx):
    """C04 at the command line.  The plaintext destination of a decrypting command is the -o file or, without -o, STANDARD
    OUTPUT; whatever arrives there must be exactly the authenticated plaintext (success) resp. exactly the authenticated
    prefix in whole chunks (failure) — no byte that is not the output of a verified chunk, no chunk twice.
    Part 1 (passwords from the environment): key and password files of lengths 0, 1, 64 KiB -1/+0/+1, 2 and 3 chunks, intact and
      damaged (bit flips in header / body / tag of chunk 1, 2, 3.., truncations inside and between chunks, appended bytes),
      decrypted to {stdout pipe | stdout redirected to a file | -o} x stderr {pipe | file | terminal} with the sender's key
      first / last / absent in the recipient's keyring (an unknown sender makes the tool print MORE: none of it may reach
      the destination).
    Part 2 (pseudo-terminal, tools/ptyrun.py): the password is PROMPTED for and every prompt is answered; files damaged in
      chunk 2+ and intact ones, `password decrypt FILE -o out` and key `decrypt` (first answer wrong: the unlock prompt is
      legitimately repeated): the destination holds exactly the authenticated prefix, once; exit 1."""
    import time, hashlib
    import props_cli as pc
    from concurrent.futures import ThreadPoolExecutor
    rng = ctx.rng
    full = ctx.thorough()
    CH = pc.CHUNK
    t_start = time.time()
    dist = ctx.distribution

    def count(k, n=1):
        dist[k] = dist.get(k, 0) + n

    def judge(ok, scen, cmds, exp, obs):
        ctx.oracle_checks += 1
        if not ok:
            ctx.violations.append({"input": {"kind": "proc", "scenario": scen, "commands": cmds}, "expected": exp, "observed": obs, "finding_key": None})
        return ok
    sks = [ctx.rbytes(32) for _ in range(3)]
    pks = [vlib.unhex(r_["out"]) for r_ in pc.lib_ops(ctx.bin, ["xpub " + vlib.hexs(k) for k in sks])]
    (b, B), (m, M), (c, C) = zip(sks, pks)
    EB, EM, EC = [c05_pk_text(x) for x in (B, M, C)]
    pwb = rng.choice([b"pw-bob", "b\u00f6b \u2713".encode("utf-8"), b"x y"])
    pwm = b"pw mallory"
    ppw = ("pass phrase %s" % ctx.rbytes(3).hex()).encode()
    locked_b, locked_m = pc.lock_keys([(b, pwb, ctx.rbytes(32)), (m, pwm, ctx.rbytes(32))])
    blk = pc.key_block
    bob = blk(b"bob", EB, locked_b)
    rings = {"first": blk(b"mallory", EM) + b"\n" + bob + b"\n" + blk(b"carol", EC),
             "last": blk(b"carol", EC) + b"\n" + bob + b"\n" + blk(b"mallory", EM),
             "absent": bob + b"\n" + blk(b"carol", EC),
             "absent-alone": bob}
    lens = [0, 1, CH - 1, CH, CH + 1, 2 * CH, 2 * CH + rng.randrange(1, CH), 3 * CH]
    if full:
        lens += [2, 1000, 2 * CH - 1, 2 * CH + 1, 3 * CH + 5, 4 * CH, 5 * CH + rng.randrange(1, CH)]
    w = pc.World(prefix="kv_c04_")
    try:
        w.write("kr_send", blk(b"mallory", EM, locked_m) + b"\n" + blk(b"bob", EB))
        for k, v in rings.items():
            w.write("kr_" + k, v)
        PT = {}
        for n in lens:
            PT[n] = ctx.rng.getrandbits(8 * n).to_bytes(n, "big") if n else b""
            w.write("pt_%d" % n, PT[n])

        def enc(job):
            mode, n = job
            if mode == "key":
                return w.run(["encrypt", "pt_%d" % n, "-t", "bob", "-f", "mallory", "-o", "kct_%d" % n, "-k", "kr_send", "--env-pass"], env=pc.env_pw(pwm))
            return w.run(["password", "encrypt", "pt_%d" % n, "-o", "pct_%d" % n, "--env-pass"], env=pc.env_pw(ppw))
        ejobs = [(mode, n) for mode in ("key", "pass") for n in lens]
        with ThreadPoolExecutor(max_workers=vlib.NPROC) as ex:
            eres = list(ex.map(enc, ejobs))
        F = {}
        for (mode, n), r in zip(ejobs, eres):
            hdr = pc.HDR if mode == "key" else pc.PHDR
            nrec = max(1, -(-n // CH))
            data = w.read(("kct_%d" if mode == "key" else "pct_%d") % n)
            if not judge(r.rc == 0 and data is not None and len(data) == hdr + 32 * nrec + n, "C04 cli setup: %s encryption of %d bytes" % (mode, n),
                         [r.describe()], "exit 0 and a file of %d bytes" % (hdr + 32 * nrec + n), "exit %d, %s bytes" % (r.rc, None if data is None else len(data))):
                continue
            F[(mode, n)] = (data, hdr, nrec)

        def damages(mode, n, only_later=False):
            """[(label, bytes, authenticated prefix length, kind)] for the file (mode, n); kind: header | body | tag (a bit of that part
            of a chunk flipped; bytes 0..7 of a chunk header are not looked at by the format and are left alone) | cut | cut-boundary | tail"""
            data, hdr, nrec = F[(mode, n)]
            out = []
            off = hdr
            for i in range(nrec):
                size = 32 + (CH if i < nrec - 1 else n - (nrec - 1) * CH)
                if i > 0 or not only_later:
                    rel = {"header": rng.randrange(8, 16), "tag": size - 1 - rng.randrange(0, 16)}
                    if size > 32:
                        rel["body"] = rng.randrange(16, size - 16)
                    for part, o in rel.items():
                        bit = 1 << rng.randrange(8)
                        out.append(("bit %#x of byte %d (chunk %d of %d, %s) flipped" % (bit, off + o, i + 1, nrec, part),
                                    data[:off + o] + bytes([data[off + o] ^ bit]) + data[off + o + 1:], i * CH, part))
                    cut = off + rng.randrange(1, size)
                    out.append(("truncated to %d bytes (inside chunk %d of %d)" % (cut, i + 1, nrec), data[:cut], i * CH, "cut"))
                    if i > 0:
                        out.append(("truncated to %d bytes (after chunk %d of %d, which is not marked final)" % (off, i, nrec), data[:off], i * CH, "cut-boundary"))
                off += size
            tail = ctx.rbytes(rng.choice([1, 2, 16, 33]))
            out.append(("%d bytes appended after the final chunk" % len(tail), data + tail, (nrec - 1) * CH, "tail"))
            return out
        jobs = []

        def add(mode, n, label, data, keep, ok, ring, o, e):
            i = len(jobs)
            name = "in_%d" % i
            w.write(name, data)
            jobs.append({"i": i, "mode": mode, "n": n, "label": label, "in": name, "want": PT[n][:keep] if not ok else PT[n], "ok": ok, "ring": ring,
                         "out": o, "err": e, "sha": hashlib.sha256(data).hexdigest(), "size": len(data)})
        outs = ("pipe", "pipe", "file", "o")
        errs = ("pipe", "file", "pty")
        for mode in ("key", "pass"):
            for n in lens:
                if (mode, n) not in F:
                    continue
                for ring in (("first", "last", "absent") if mode == "key" else (None,)):
                    for o in (("pipe", "file", "o") if full else (rng.choice(outs),)):
                        add(mode, n, "intact", F[(mode, n)][0], n, True, ring, o, rng.choice(errs))
                if mode == "key":
                    add(mode, n, "intact", F[(mode, n)][0], n, True, "absent-alone", "pipe", rng.choice(errs))
                ds = damages(mode, n)
                for (label, data, keep, _kind) in (ds if full else rng.sample(ds, min(len(ds), 2 if F[(mode, n)][2] == 1 else 4))):
                    add(mode, n, label, data, keep, False, rng.choice(["first", "last", "absent", "absent"]) if mode == "key" else None,
                        rng.choice(outs), rng.choice(errs))

        def one(j):
            i = j["i"]
            if j["mode"] == "key":
                argv = ["decrypt", j["in"], "-t", "bob", "-k", "kr_" + j["ring"], "--env-pass"]
                env = pc.env_pw(pwb)
            else:
                argv = ["password", "decrypt", j["in"], "--env-pass"]
                env = pc.env_pw(ppw)
            if j["out"] == "o":
                argv += ["-o", "dst_%d" % i]
            r = pc.s4a_proc(w, argv, env=env, out=("file", w.p("so_%d" % i)) if j["out"] == "file" else "pipe",
                            err={"pipe": "pipe", "pty": "pty", "file": ("file", w.p("se_%d" % i))}[j["err"]])
            if r is None:           # no pseudo-terminal here: the same run with stderr on a pipe
                r = pc.s4a_proc(w, argv, env=env, out=("file", w.p("so_%d" % i)) if j["out"] == "file" else "pipe", err="pipe")
            filed = w.read("dst_%d" % i) if j["out"] == "o" else None
            for f in ("dst_%d" % i, "so_%d" % i, "se_%d" % i, j["in"]):
                try:
                    os.remove(w.p(f))
                except OSError:
                    pass
            return r, filed
        with ThreadPoolExecutor(max_workers=vlib.NPROC) as ex:
            res = list(ex.map(one, jobs))
        where = {"pipe": "standard output (a pipe)", "file": "standard output (redirected to a file)", "o": "the -o file"}
        for j, (r, filed) in zip(jobs, res):
            ctx.evaluations += 1
            ctx.distinct_nontrivial += 1
            count("c04cli:%s-%s->%s" % (j["mode"], "intact" if j["ok"] else "damaged", j["out"]))
            if j["ring"]:
                count("c04cli:sender-" + j["ring"])
            scen = ("C04 cli: %s file of a %d-byte plaintext (%d chunk(s)), %s [%d bytes, sha256 %s]; plaintext destination = %s; stderr = %s%s"
                    % ("key" if j["mode"] == "key" else "password", j["n"], max(1, -(-j["n"] // CH)), j["label"], j["size"], j["sha"][:16], where[j["out"]], j["err"],
                       "; sender's key %s in the recipient's keyring" % j["ring"] if j["ring"] else ""))
            got = (filed or b"") if j["out"] == "o" else r.out
            cmds = [dict(r.describe(), keyring=rings[j["ring"]].decode()) if j["ring"] else r.describe()]
            judge(r.rc == (0 if j["ok"] else 1), scen, cmds, "exit %d" % (0 if j["ok"] else 1), "exit %d; stderr %r" % (r.rc, r.err[-200:]))
            judge(got == j["want"], scen, cmds,
                  "the destination receives exactly the %d bytes of the %s and nothing else" % (len(j["want"]), "authentic plaintext" if j["ok"] else
                                                                                             "authenticated prefix (whole chunks before the failure)"),
                  "%d bytes arrived, first difference at %s; bytes past the expected end: %r" % (len(got), pc.first_diff(got, j["want"]), got[len(j["want"]):][:80]))
            if j["out"] == "o":
                judge(r.out == b"", scen, cmds, "with -o nothing is written to standard output", "stdout %r" % r.out[:80])
        count("c04cli:seconds-part1", round(time.time() - t_start, 1))

        # ---------------- Part 2: prompted passwords on a pseudo-terminal
        t2 = time.time()
        multi = [n for n in lens if (("pass", n) in F and F[("pass", n)][2] >= 2)]
        pj = []

        def addp(mode, n, label, data, keep, ok, typed, dest):
            i = len(pj)
            name = "pin_%d" % i
            w.write(name, data)
            if mode == "pass":
                argv = ["password", "decrypt", name]
            else:
                argv = ["decrypt", name, "-t", "bob", "-k", "kr_" + rng.choice(["first", "last", "absent"])]
            so = "pipe"
            if dest == "o":
                argv += ["-o", "pdst_%d" % i]
                so = rng.choice(["pipe", "file", "pty"])
            elif dest == "file":
                so = "file"
            pj.append({"i": i, "mode": mode, "n": n, "label": label, "want": PT[n] if ok else PT[n][:keep], "ok": ok, "dest": dest, "size": len(data),
                       "sha": hashlib.sha256(data).hexdigest(),
                       "job": {"argv": [vlib.CLIDRV] + argv, "env": {"PATH": "/usr/bin:/bin", "HOME": w.dir, "LANG": "C.UTF-8", "RUST_BACKTRACE": "0"},
                               "cwd": w.dir, "ctty": rng.random() < 0.5, "stdin": "pty", "stdout": so, "stderr": rng.choice(["pipe", "file", "pty"]),
                               "stdout_path": w.p("pso_%d" % i), "stderr_path": w.p("pse_%d" % i), "typed": typed, "timeout": 90}})
        P3 = [ppw.decode()] * 3

        def pick(ds):
            """every run of the quick tier sees each way a LATER chunk can fail: an authentication failure (body, tag) is not the
            same error as a framing or a read error"""
            if full:
                return ds
            by = {}
            for d in ds:
                by.setdefault(d[3], []).append(d)
            return [rng.choice(v) for k, v in sorted(by.items()) if k in ("body", "tag")] + [rng.choice([d for d in ds if d[3] not in ("body", "tag")])]
        for n in (multi if full else rng.sample(multi, min(len(multi), 2))):
            for (label, data, keep, _kind) in pick(damages("pass", n, only_later=True)):
                addp("pass", n, label, data, keep, False, P3, rng.choice(["o", "o", "o", "pipe", "file"]))
        n = rng.choice(multi)
        addp("pass", n, "intact", F[("pass", n)][0], n, True, P3, "o")
        n = rng.choice([x for x in lens if ("pass", x) in F])
        first = [d for d in damages("pass", n) if d[2] == 0]
        addp("pass", n, first[0][0], first[0][1], 0, False, P3, "o")
        kmulti = [n for n in lens if (("key", n) in F and F[("key", n)][2] >= 2)]
        K4 = ["not " + pwb.decode(), pwb.decode(), pwb.decode(), pwb.decode()]
        for n in (kmulti if full else rng.sample(kmulti, min(len(kmulti), 1))):
            for (label, data, keep, _kind) in pick(damages("key", n, only_later=True)):
                addp("key", n, label, data, keep, False, K4, rng.choice(["o", "pipe"]))
            addp("key", n, "intact", F[("key", n)][0], n, True, K4, "o")
        with ThreadPoolExecutor(max_workers=vlib.NPROC) as ex:
            pres = list(ex.map(lambda x: s4a_ptyrun(x["job"]), pj))
        for j, d in zip(pj, pres):
            job = j["job"]
            if d.get("error") or (d["rc"] == 125 and not d["pty"] and not d["stderr"]):
                count("c04cli:pty-not-available")
                continue
            ctx.evaluations += 1
            ctx.distinct_nontrivial += 1
            count("c04cli:pty-%s-%s->%s" % (j["mode"], "intact" if j["ok"] else "damaged", j["dest"]))
            if j["dest"] == "o":
                got = w.read("pdst_%d" % j["i"]) or b""
            elif j["dest"] == "file":
                got = w.read("pso_%d" % j["i"]) or b""
            else:
                got = d["stdout"]
            said = d["pty"] + d["stderr"] + (w.read("pse_%d" % j["i"]) or b"")
            scen = ("C04 cli on a terminal: %s file of a %d-byte plaintext (%d chunks), %s [%d bytes, sha256 %s]; the password is prompted for on a "
                    "pseudo-terminal (stdin; controlling terminal: %s) and every prompt is answered with %r; plaintext destination = %s"
                    % (j["mode"], j["n"], max(1, -(-j["n"] // CH)), j["label"], j["size"], j["sha"][:16], "yes" if job["ctty"] else "none", job["typed"],
                       where[j["dest"]]))
            cmds = [{"argv": ["kestrel"] + job["argv"][1:], "stdin": "pseudo-terminal", "stdout": job["stdout"], "stderr": job["stderr"],
                     "typed_at_the_prompts": job["typed"], "exit": d["rc"], "timed_out": d.get("timed_out"), "prompts_answered": d.get("sent"),
                     "said": said[-400:].decode("utf-8", "replace")}]
            judge(d["rc"] == (0 if j["ok"] else 1) and not d.get("timed_out"), scen, cmds, "exit %d after ONE attempt" % (0 if j["ok"] else 1),
                  "exit %d%s, %s prompts answered" % (d["rc"], " (killed after the timeout)" if d.get("timed_out") else "", d.get("sent")))
            judge(got == j["want"], scen, cmds,
                  "the destination holds exactly the %d bytes of the %s, once" % (len(j["want"]), "authentic plaintext" if j["ok"] else "authenticated prefix"),
                  "%d bytes arrived, first difference at %s; the first chunk occurs %d time(s)" % (
                      len(got), pc.first_diff(got, j["want"]), got.count(PT[j["n"]][:CH]) if j["n"] >= CH else -1))
        count("c04cli:seconds-part2", round(time.time() - t2, 1))
    finally:
        w.close()


REGISTRY["C04"] = C04()


# =========================================================================== C05
def drv(ctx, cases):
    vlib.run_impl(ctx.bin, cases)
    return [c.result for c in cases]


NOISE_NAME = b"Noise_X_25519_ChaChaPoly_SHA256"
PROLOGUE_KEY = bytes([0x65, 0x67, 0x6b, 0x10])


def reference_key_file(ctx, e, epk, s_or_none, spk, rpk, payload, P, es_override=None, ss_override=None):
    """An INDEPENDENT writer of the documented key-file format, assembled from the library's exported primitives
    (sha256, hkdf_noise, Noise AEAD, X25519, HKDF) step by step through the driver; overrides allow forged handshakes."""
    sha = lambda m: drv(ctx, [Case("sha256", m=m)])[0]["out"]
    h0 = NOISE_NAME + bytes(32 - len(NOISE_NAME))
    ck = h0
    h = sha(h0 + PROLOGUE_KEY)
    h = sha(h + rpk)
    h = sha(h + epk)
    if es_override is not None:
        dh1 = es_override
    else:
        r1 = drv(ctx, [Case("x25519", k=e, u=rpk)])[0]
        if r1["code"] != 0:
            return None
        dh1 = r1["out"]
    o = drv(ctx, [Case("hkdfn", ck=ck, ikm=dh1)])[0]["out"]
    ck, k = o[:32], o[32:]
    c1 = drv(ctx, [Case("nseal", key=k, n=0, ad=h, x=spk)])[0]["out"]
    h = sha(h + c1)
    if ss_override is not None:
        dh2 = ss_override
    else:
        r2 = drv(ctx, [Case("x25519", k=s_or_none, u=rpk)])[0]
        if r2["code"] != 0:
            return None
        dh2 = r2["out"]
    o = drv(ctx, [Case("hkdfn", ck=ck, ikm=dh2)])[0]["out"]
    ck, k = o[:32], o[32:]
    c2 = drv(ctx, [Case("nseal", key=k, n=0, ad=h, x=payload)])[0]["out"]
    hh = sha(h + c2)
    fk = drv(ctx, [Case("hkdf", salt=b"", ikm=payload, info=hh, n=32)])[0]["out"]
    body = drv(ctx, [Case("enc_chunks", key=fk, aad=b"", cs=65536, data=P)])[0]["out"]
    return PROLOGUE_KEY + epk + c1 + c2 + body


class C05(Prop):
    id = "C05"
    run_modules = ("Run/RunLib.v", "Run/RunKeyring.v", "Run/RunCli.v")   # also runs CLI / keyring cases (props_cli)
    rule = ("cases: files written by the real encryptor and by an independent reference writer (assembled from the exported "
            "primitives) for every combination of private key used / public key claimed / recipient addressed; decryption "
            "with wrong recipient private key, wrong recipient public key, both; all low-order and non-canonical-low-order "
            "X25519 points (14 encodings) as recipient for encryption, as ephemeral key and as claimed sender key (with the "
            "all-zero secret an attacker would have to use) in forged files; a forger WITHOUT any sender private key (claimed sender = "
            "each low-order encoding / an honest public key; second MixKey input = the es secret again, the claimed key, the ephemeral / "
            "recipient public key, DH(ephemeral, claimed key), hashes, constants, random): always rejected; CLI look-alike contacts also "
            "differ from the sender key in ONE NIBBLE at chosen byte positions incl. all values of both nibbles of the last byte; "
            "header splices are in C03; non-trivial = every "
            "case except the two honest reference files; CLI (s4a_c05_key_bytes): encode_public_key / decode_public_key on raw keys with "
            "bit 255 set, non-canonical field elements, single bits, random; `kestrel decrypt` on library-made files whose embedded sender "
            "key is S and S | bit 255, keyrings listing the canonical key / the bit-255 key / both / neither: the entry named is the one "
            "whose key EQUALS the bytes the library authenticated, an unknown key is printed with an encoding that decodes to them")
    assumptions = ["X25519 symmetry and hardness (CDH), key separation of HKDF are not proved",
                   "that every low-order point yields the all-zero output for every scalar is exercised, not proved"]

    def cases(self, ctx):
        rng = ctx.rng
        (s, spk), (r, rpk), (e, epk), (s2, spk2), (r2, rpk2) = keypairs(ctx, 5)
        P = ctx.rbytes(37)
        out = []

        def accept(who):
            def f(res):
                if res["code"] != 0 or res["out"] != P:
                    return ("an honest file decrypts to the plaintext", res["outcome"])
                if res["extra"] != who:
                    return ("the reported sender is the key that took part in creating the file", "sender=" + res["extra"].hex())
                return None
            return f

        def reject(res):
            if res["code"] == 0:
                return ("rejected: the file was not created for this recipient by the claimed sender",
                        "ok sender=%s out=%s" % (res["extra"].hex(), res["out"].hex()))
            if res["code"] == 1 or res["code"] >= 900:
                return ("an error value, never a panic", res["outcome"])
            if res["out"]:
                return ("a rejected file releases nothing", "out=" + res["out"].hex())
            return None
        # 1. reference writer, honest: validates the writer and the format
        F_ref = reference_key_file(ctx, e, epk, s, spk, rpk, ctx.rbytes(32), P)
        out.append(Case("key_dec", r=r, rpk=rpk, data=F_ref, oracle=accept(spk), tags=["reference-writer", "trivial"]))
        # real encryptor, honest
        enc = Case("key_enc", s=s, spk=spk, r=rpk, e=e, epk=epk, pk=ctx.rbytes(32), data=P, oracle=ok_only("honest encryption succeeds"), tags=["trivial"])
        drv(ctx, [enc])
        F = enc.result["out"]
        out.append(enc)
        out.append(Case("key_dec", r=r, rpk=rpk, data=F, oracle=accept(spk), tags=["honest", "trivial"]))
        # 2. wrong recipient private / public / both
        out.append(Case("key_dec", r=r2, rpk=rpk, data=F, oracle=reject, tags=["wrong-recipient-private"]))
        out.append(Case("key_dec", r=r, rpk=rpk2, data=F, oracle=reject, tags=["wrong-recipient-public"]))
        out.append(Case("key_dec", r=r2, rpk=rpk2, data=F, oracle=reject, tags=["wrong-recipient-pair"]))
        # 3. sender claims a public key that does not match the private key used (real encryptor and reference writer)
        for claim in (spk2, rpk, epk):
            m = Case("key_enc", s=s, spk=claim, r=rpk, e=e, epk=epk, pk=ctx.rbytes(32), data=P, tags=["mismatched-claim-enc"])
            drv(ctx, [m])
            out.append(m)
            if m.result["code"] == 0:
                out.append(Case("key_dec", r=r, rpk=rpk, data=m.result["out"], oracle=reject, tags=["mismatched-claim"]))
            Fm = reference_key_file(ctx, e, epk, s, claim, rpk, ctx.rbytes(32), P)
            out.append(Case("key_dec", r=r, rpk=rpk, data=Fm, oracle=reject, tags=["mismatched-claim-ref"]))
        # the sender used someone else's private key but claims spk
        Fx = reference_key_file(ctx, e, epk, s2, spk, rpk, ctx.rbytes(32), P)
        out.append(Case("key_dec", r=r, rpk=rpk, data=Fx, oracle=reject, tags=["wrong-private-used"]))
        # 4. low-order points
        lows = [bytes.fromhex(x) for x in C19.LOW_ORDER]
        if not ctx.thorough():
            lows = lows[:7] + rng.sample(lows[7:], 3)
        zeros = bytes(32)

        def refused(res):
            if res["code"] != 40:
                return ("encryption to a key forcing an all-zero shared secret is refused (Key exchange failed)", res["outcome"])
            if res["out"] or any(t[0] in (3, 4, 5, 6) for t in res["trace"]):
                return ("a refused encryption writes nothing", "out=%s trace=%s" % (res["out"].hex(), res["trace"]))
            return None
        for u in lows:
            out.append(Case("key_enc", s=s, spk=spk, r=u, e=e, epk=epk, pk=ctx.rbytes(32), data=P, oracle=refused, tags=["low-order-recipient"]))
            out.append(Case("noise_enc", s=s, spk=spk, r=u, e=e, epk=epk, prologue=PROLOGUE_KEY, payload=ctx.rbytes(32),
                            oracle=(lambda res: None if res["code"] == 83 else ("noise_encrypt refuses a low-order recipient", res["outcome"])),
                            tags=["low-order-recipient-noise"]))
            # forged files: low-order ephemeral (ES secret would be zero) and low-order claimed sender (SS secret zero)
            Fe = reference_key_file(ctx, e, u, s, spk, rpk, ctx.rbytes(32), P, es_override=zeros)
            out.append(Case("key_dec", r=r, rpk=rpk, data=Fe, oracle=reject, tags=["low-order-ephemeral"]))
            Fs = reference_key_file(ctx, e, epk, None, u, rpk, ctx.rbytes(32), P, ss_override=zeros)
            out.append(Case("key_dec", r=r, rpk=rpk, data=Fs, oracle=reject, tags=["low-order-sender"]))
        # 5. a forger who holds NO sender private key at all: he chooses the ephemeral key (so he knows the es secret) and
        # claims a sender key K - a low-order encoding (the ss exchange is refused) or an honest person's public key - and
        # feeds the second MixKey whatever he can compute from public data and his own ephemeral key
        es = drv(ctx, [Case("x25519", k=e, u=rpk)])[0]["out"]

        def r3_guesses(K):
            g = [("the es secret a second time", es), ("the claimed key itself", K), ("the ephemeral public key", epk),
                 ("the recipient public key", rpk), ("all 0xff", b"\xff" * 32), ("SHA-256 of the es secret", drv(ctx, [Case("sha256", m=es)])[0]["out"]),
                 ("random bytes", ctx.rbytes(32)), ("the es secret with one bit flipped", flip(es, rng.randrange(256)))]
            x = drv(ctx, [Case("x25519", k=e, u=K)])[0]
            if x["code"] == 0:
                g.append(("DH(forger's ephemeral private key, claimed key)", x["out"]))
            return g
        for u in lows:
            g = r3_guesses(u)
            for what, secret in (g if ctx.thorough() else [g[0]] + rng.sample(g[1:], 1)):
                Ff = reference_key_file(ctx, e, epk, None, u, rpk, ctx.rbytes(32), P, ss_override=secret)
                out.append(Case("key_dec", r=r, rpk=rpk, data=Ff, oracle=reject, tags=["forger-without-private-key", "low-order-claim", "second-mixkey=" + what.replace(" ", "-")]))
        for K in (spk, spk2) if ctx.thorough() else (spk,):
            g = r3_guesses(K) + [("all zero", zeros)]
            for what, secret in g:
                Ff = reference_key_file(ctx, e, epk, None, K, rpk, ctx.rbytes(32), P, ss_override=secret)
                out.append(Case("key_dec", r=r, rpk=rpk, data=Ff, oracle=reject, tags=["forger-without-private-key", "honest-claim", "second-mixkey=" + what.replace(" ", "-")]))
        return out

    # ---- CLI half: the NAME `kestrel decrypt` reports must belong to the key whose private key took part
    def explore(self, ctx):
        super().explore(ctx)
        if os.path.exists(vlib.CLIDRV):
            c05_cli_sender_lookup(self, ctx)
            s4a_c05_key_bytes(self, ctx)
        else:
            ctx.broken.append({"kind": "correspondence", "what": "clidrv was not built: CLI half of C05 (sender name lookup) not checked"})

    def replay(self, ctx, payload):
        if payload.get("input", {}).get("op") == "kr_name_from_key" or payload.get("input", {}).get("kind") == "proc":
            import props_cli
            return props_cli.k_replay(ctx, payload)
        return super().replay(ctx, payload)


def c05_pk_text(raw32, ck=None):
    """the CLI's text encoding of a public key: base64(key || first 4 bytes of SHA-256(key)); ck overrides the checksum"""
    import base64, hashlib
    return base64.b64encode(raw32 + (hashlib.sha256(raw32).digest()[:4] if ck is None else ck))


def c05_checksum_twin(ctx, senders, budget):
    """a genuine short-id collision: 32 bytes A (no private key needed: it only has to sit in a keyring) whose VALID
    4-byte checksum equals that of one of the sender keys.  Birthday search over len(senders) x budget; returns
    (index of the sender, A) or None"""
    import hashlib
    want = {}
    for i, pk in enumerate(senders):
        want.setdefault(hashlib.sha256(pk).digest()[:4], i)
    base = int.from_bytes(ctx.rbytes(32), "big") >> 1
    sha = hashlib.sha256
    for j in range(budget):
        a = (base + j).to_bytes(32, "big")
        i = want.get(sha(a).digest()[:4])
        if i is not None and a != senders[i]:
            return i, a
    return None


def c05_lookalikes(ctx, M, full):
    """32-byte keys DIFFERENT from M whose text encoding coincides with M's in part: [(label, encoded text)]"""
    import hashlib
    rng = ctx.rng
    ck = hashlib.sha256(M).digest()[:4]
    out = []

    def add(label, raw, keep_ck=False):
        raw = bytes(raw)
        if raw == M:
            raw = bytes([raw[0] ^ 1]) + raw[1:]
        out.append((label, c05_pk_text(raw, ck if keep_ck else None)))
    # same trailing 4-byte checksum ("key id"), everything else different (the keyring parser does not verify checksums)
    add("same-checksum", ctx.rbytes(32), keep_ck=True)
    add("same-checksum-zero-key", bytes(32), keep_ck=True)
    ks = list(range(1, 32)) if full else sorted(set([1, 3, 4, 8, 16, 24, 30, 31] + rng.sample(range(1, 32), 3)))
    for k in ks:
        tail = bytearray(ctx.rbytes(32 - k))
        tail[0] = tail[0] if tail[0] != M[k] else tail[0] ^ 0x10
        add("same-first-%d-bytes" % k, M[:k] + bytes(tail))
        head = bytearray(ctx.rbytes(32 - k))
        head[-1] = head[-1] if head[-1] != M[31 - k] else head[-1] ^ 0x10
        add("same-last-%d-bytes" % k, bytes(head) + M[32 - k:])
        add("same-last-%d-bytes-and-checksum" % k, bytes(head) + M[32 - k:], keep_ck=True)
    bits = list(range(255)) if full else sorted(set([0, 7, 8, 127, 128, 247, 248, 254] + rng.sample(range(255), 6)))
    for b in bits:                               # bit 255 is left alone: X25519 ignores it, it is arguably the same key
        add("one-bit-%d" % b, flip(M, b))
        add("one-bit-%d-same-checksum" % b, flip(M, b), keep_ck=True)
    # one NIBBLE changed (valid checksum): at every byte position, in particular the last ones - 32 bytes are 42 2/3 base64
    # characters, so the final nibbles share a character with the checksum
    pos = list(range(32)) if full else sorted(set([0, 1, 14, 15, 16, 28, 29, 30, 31] + rng.sample(range(32), 3)))
    for k in pos:
        for hi_ in (False, True):
            vs = list(range(1, 16)) if (full or k == 31) else rng.sample(range(1, 16), 2 if k >= 29 else 1)
            if k == 31 and not full:
                vs = sorted(set([1, 8, 15] + rng.sample(range(1, 16), 3)))
            for v in vs:
                if k == 31 and hi_ and v == 8:
                    continue                             # only bit 255: left alone, see below
                x = bytearray(M)
                x[k] ^= (v << 4) if hi_ else v
                add("nibble-%s-of-byte-%d-xor-%x" % ("high" if hi_ else "low", k, v), x)
    add("reversed", M[::-1])
    add("complement", bytes(x ^ 0xff for x in M))
    add("rotated", M[1:] + M[:1])
    # the same text in another letter case (base64 is case sensitive: other bytes)
    t = c05_pk_text(M)
    idx = [i for i in range(40) if t[i:i + 1].isalpha()]
    for i in rng.sample(idx, min(len(idx), 3)):
        out.append(("case-of-char-%d" % i, t[:i] + t[i:i + 1].swapcase() + t[i + 1:]))
    out.append(("all-upper", t.upper() if t.upper() != t else t.lower()))
    return [(l, e) for l, e in out if e != t]


def c05_cli_sender_lookup(self, ctx):
    """C05 at the command line: 'Success. File from: NAME' names a keyring entry; that entry's public key must be the key
    whose private key took part in creating the file.  Keyrings hold SEVERAL keys, among them look-alikes of the real sender
    key (c05_lookalikes, and a genuine checksum twin), placed BEFORE the exact entry or with the exact entry absent.
    Part A: Keyring::get_name_from_key in-process against Model/Keyring.v (run_kr_name_from_key) + direct oracle.
    Part B: real `kestrel decrypt` processes on files made by the look-alike's victim key pair."""
    import props_cli as pc
    rng = ctx.rng
    full = ctx.thorough()
    nsend = 16384 if not full else 65536
    sks = [ctx.rbytes(32) for _ in range(nsend)]
    pks = [vlib.unhex(r_["out"]) for r_ in pc.lib_ops(ctx.bin, ["xpub " + vlib.hexs(k) for k in sks])]
    twin = c05_checksum_twin(ctx, pks, 1500000 if not full else 4000000)
    ctx.distribution["c05cli:checksum-twin-found"] = 1 if twin else 0
    mi = twin[0] if twin else 0
    m, M = sks[mi], pks[mi]                                   # mallory: a perfectly valid key pair, the real sender
    (b, B), (c, C), (d, D) = [(sks[i], pks[i]) for i in [j for j in range(4) if j != mi][:3]]
    EM, EB, EC, ED = [c05_pk_text(x) for x in (M, B, C, D)]
    enc_chk = pc.cli_ops(["pk_encode " + vlib.hexs(M)])[0]
    if vlib.unhex(enc_chk.get("out", "-")) != EM:
        ctx.violations.append({"input": {"op": "pk_encode", "pk": M.hex()}, "expected": "documented text encoding " + EM.decode(),
                               "observed": str(enc_chk), "finding_key": None})
        return
    looks = c05_lookalikes(ctx, M, full)
    if twin:
        looks.insert(0, ("checksum-twin-valid", c05_pk_text(twin[1])))
    blk = pc.key_block
    others = [(b"bob", EB), (b"carol", EC), (b"dave", ED)]

    # ---------------- Part A
    def text_of(entries):
        return b"\n".join(blk(n, p) for n, p in entries)

    def lookup_oracle(entries, q):
        hit = [n for n, p in entries if p == q]

        def f(r_):
            if hit:
                if r_["code"] != 0 or r_["out"] != hit[0]:
                    return ("the key %s is reported under the name of the entry holding exactly that key: %r" % (q.decode(), hit[0]),
                            r_["raw"][:300])
            elif r_["code"] != 5:
                return ("no entry holds the key %s (others coincide with it only in part): it is an unknown key, no name is "
                        "reported" % q.decode(), r_["raw"][:300])
            return None
        return f
    kcases = []
    for label, L in looks:
        al = (b"alice", L)
        rings = [[al] + others,                                   # look-alike first, real sender absent
                 [others[0], al, others[1]],                      # look-alike in the middle, real sender absent
                 [al, others[0], (b"mallory", EM)],               # look-alike BEFORE the exact entry
                 [(b"mallory", EM), others[1], al]]               # exact entry first
        for ri, ring in enumerate(rings if (full or label.startswith("same-checksum") or label == "checksum-twin-valid") else
                                  [rings[0], rings[2]]):
            t = text_of(ring)
            kcases.append(pc.KCase("kr_name_from_key", text=t, pk=EM, oracle=lookup_oracle(ring, EM), tags=["c05-lookalike", "-".join(label.split("-")[:2])]))
            if ri % 2 == 0:
                kcases.append(pc.KCase("kr_name_from_key", text=t, pk=L, oracle=lookup_oracle(ring, L), tags=["c05-lookalike-query"]))
    # several look-alikes at once
    for _ in range(6 if not full else 40):
        pick = rng.sample(looks, min(len(looks), rng.randrange(2, 6)))
        ring = [(("la%d" % i).encode(), L) for i, (_, L) in enumerate(pick)] + others[:rng.randrange(0, 3)]
        rng.shuffle(ring)
        if rng.random() < 0.5:
            ring.insert(rng.randrange(1, len(ring) + 1), (b"mallory", EM))
        kcases.append(pc.KCase("kr_name_from_key", text=text_of(ring), pk=EM, oracle=lookup_oracle(ring, EM), tags=["c05-lookalike", "several"]))
    pc.k_run_cases(ctx, kcases, model=True, tag="C05k")

    # ---------------- Part B
    pw = rng.choice([b"pw-bob", "b\u00f6b \u2713".encode("utf-8"), b"x"])
    locked_b, locked_m = pc.lock_keys([(b, pw, ctx.rbytes(32)), (m, pw, ctx.rbytes(32))])
    P = ctx.rbytes(rng.randrange(1, 200))
    ek = ctx.rbytes(32)
    epk = vlib.unhex(pc.lib_ops(ctx.bin, ["xpub " + vlib.hexs(ek)])[0]["out"])
    enc = Case("key_enc", s=m, spk=M, r=B, e=ek, epk=epk, pk=ctx.rbytes(32), data=P)
    vlib.run_impl(ctx.bin, [enc])
    w = pc.World(prefix="kv_c05_")
    try:
        if enc.result["code"] != 0:
            ctx.violations.append({"input": enc.full(), "expected": "honest key encryption succeeds", "observed": enc.result["outcome"], "finding_key": None})
            return
        w.write("ct_lib", enc.result["out"])
        # the same sender through the command line itself (mallory's own keyring: her key pair and bob's public key)
        w.write("pt", P)
        w.write("kr_mallory", blk(b"mallory", EM, locked_m) + b"\n" + blk(b"bob", EB))
        r0 = w.run(["encrypt", "pt", "-t", "bob", "-f", "mallory", "-o", "ct_cli", "-k", "kr_mallory", "--env-pass"], env=pc.env_pw(pw))
        cts = ["ct_lib"] + (["ct_cli"] if r0.rc == 0 else [])
        if r0.rc != 0:
            self_viol = {"input": {"kind": "proc", "scenario": "c05 setup: mallory encrypts to bob", "commands": [r0.describe()]},
                         "expected": "exit 0", "observed": "exit %d" % r0.rc, "finding_key": None}
            ctx.violations.append(self_viol)
        bobblk = blk(b"bob", EB, locked_b)
        sel = looks if full else ([x for x in looks if x[0].startswith(("same-checksum", "checksum-twin"))]
                                  + rng.sample([x for x in looks if not x[0].startswith(("same-checksum", "checksum-twin"))], 5))
        jobs = []
        for i, (label, L) in enumerate(sel):
            al = blk(b"alice", L)
            rings = {"absent": al + b"\n" + bobblk + b"\n" + blk(b"carol", EC),
                     "after": blk(b"carol", EC) + b"\n" + al + b"\n" + bobblk + b"\n" + blk(b"mallory", EM)}
            for pos, txt in rings.items():
                name = "kr_%d_%s" % (i, pos)
                w.write(name, txt)
                jobs.append((label, pos, name, cts[(i + (pos == "after")) % len(cts)], L))
        # control: no look-alike at all, sender listed last / not listed
        w.write("kr_plain_known", blk(b"carol", EC) + b"\n" + bobblk + b"\n" + blk(b"dave", ED) + b"\n" + blk(b"mallory", EM))
        w.write("kr_plain_unknown", blk(b"carol", EC) + b"\n" + bobblk + b"\n" + blk(b"dave", ED))
        jobs.append(("no-lookalike", "after", "kr_plain_known", cts[-1], None))
        jobs.append(("no-lookalike", "absent", "kr_plain_unknown", cts[0], None))

        def one(job):
            label, pos, kr, ct, L = job
            out = "out_" + kr
            return w.run(["decrypt", ct, "-t", "bob", "-o", out, "-k", kr, "--env-pass"], env=pc.env_pw(pw)), w.read(out)
        from concurrent.futures import ThreadPoolExecutor
        with ThreadPoolExecutor(max_workers=vlib.NPROC) as ex:
            res = list(ex.map(one, jobs))
        for (label, pos, kr, ct, L), (run, got) in zip(jobs, res):
            ctx.evaluations += 1
            ctx.distinct_nontrivial += 1
            ctx.oracle_checks += 1
            ctx.distribution["c05cli:decrypt-" + pos] = ctx.distribution.get("c05cli:decrypt-" + pos, 0) + 1
            lines = [l for l in run.errtext().splitlines() if l.startswith(("Success.", "Caution.", "Unknown key:"))]
            scen = ("file made with mallory's key pair %s for bob (%s); bob's keyring %s lists 'alice' = %s [%s]%s"
                    % (EM.decode(), ct, kr, L.decode() if L else "-", label,
                       ", and 'mallory' = her exact key after it" if pos == "after" else "; mallory's key is not in it"))
            want = (["Success. File from: mallory"] if pos == "after" else
                    ["Caution. File is from an unknown key.", "Unknown key: " + EM.decode()])
            bad = None
            if run.rc != 0 or got != P:
                bad = ("decryption by the addressed key succeeds with the plaintext (exit 0)", "exit %d, output %s" % (run.rc, "differs/absent" if got != P else "ok"))
            elif lines != want:
                bad = ("the sender reported is the key whose private key took part in creating the file: " + " / ".join(want),
                       " / ".join(lines) if lines else run.errtext()[-300:])
            if bad:
                ctx.violations.append({"input": {"kind": "proc", "scenario": scen, "commands": [run.describe()],
                                                 "keyring": (w.read(kr) or b"").decode("utf-8", "replace")},
                                       "expected": bad[0], "observed": bad[1], "finding_key": None})
            elif len(ctx.samples) < 8:
                ctx.samples.append({"scenario": scen, "stderr": " / ".join(lines)})
    finally:
        w.close()


def s4a_c05_key_bytes(self, ctx):
    """C05 / C12 at the command line: the key `kestrel decrypt` looks up in the keyring and prints is THE 32 BYTES the library
    authenticated — it names the entry whose public key EQUALS them, or reports them as unknown with an encoding that decodes
    to exactly them.  X25519 ignores bit 255 of a public key, so a file whose embedded sender key has that bit set verifies
    under the same private key (the library reports the bytes as embedded); the keyring entry with the bit clear is a
    DIFFERENT byte string.
    Part A (in-process): Keyring::encode_public_key / decode_public_key on a family of raw keys (bit 255 set, all ones,
      zero, the field prime and its neighbours, non-canonical field elements, single bits, random): the documented encoding
      base64(key || sha256(key)[..4]) of exactly these bytes, and back.
    Part B (processes): files made by the library encryptor with sender_public = S and = S | bit 255 (two sender key pairs),
      decrypted with keyrings listing the canonical key / the bit-255 key / both (either order) / neither, over random wirings
      of stdout and stderr: the report is derived from the key the LIBRARY returned for that file."""
    import base64, hashlib
    import props_cli as pc
    from concurrent.futures import ThreadPoolExecutor
    rng = ctx.rng
    full = ctx.thorough()
    dist = ctx.distribution

    def count(k, n=1):
        dist[k] = dist.get(k, 0) + n
    # ---------------- Part A
    p25519 = (1 << 255) - 19
    le = lambda x: x.to_bytes(32, "little")
    raws = [bytes(31) + b"\x80", b"\xff" * 32, bytes(32), b"\x80" + bytes(31), le(p25519), le(p25519 - 1), le(p25519 + 1), le((1 << 255) - 1), le(1 << 255),
            le(p25519 + (1 << 255)), le(9), le(9 + (1 << 255)), le(1), le(8), le(0xf8), bytes([0xf8]) + b"\xff" * 30 + b"\x7f", bytes([7]) + bytes(30) + b"\x40"]
    raws += [le(1 << k) for k in ([0, 1, 2, 7, 8, 253, 254, 255] if not full else range(256))]
    for _ in range(24 if not full else 200):
        r_ = bytearray(ctx.rbytes(32))
        if rng.random() < 0.6:
            r_[31] |= 0x80
        if rng.random() < 0.2:
            r_[0] |= 7
        raws.append(bytes(r_))
    raws = list(dict.fromkeys(raws))
    enc = pc.cli_ops(["pk_encode " + vlib.hexs(x) for x in raws])
    dec = pc.cli_ops(["pk_decode " + vlib.hexs(c05_pk_text(x)) for x in raws])
    for x, e_, d_ in zip(raws, enc, dec):
        ctx.evaluations += 2
        ctx.oracle_checks += 2
        count("c05cli:pk-encode-%s" % ("bit255-set" if x[31] & 0x80 else "bit255-clear"))
        want = c05_pk_text(x)
        got = vlib.unhex(e_.get("out", "-")) if e_.get("outcome") == "ok" else None
        if got != want:
            back = None
            try:
                back = base64.b64decode(got or b"")[:32].hex()
            except Exception:
                pass
            ctx.violations.append({"input": {"op": "pk_encode", "pk": x.hex()},
                                   "expected": "the documented text encoding of exactly these 32 bytes: %s" % want.decode(),
                                   "observed": "%s (decodes to the key %s)" % (e_, back), "finding_key": None})
        if d_.get("outcome") != "ok" or vlib.unhex(d_.get("out", "-")) != x:
            ctx.violations.append({"input": {"op": "pk_decode", "text": want.decode()}, "expected": "the 32 bytes " + x.hex(), "observed": str(d_),
                                   "finding_key": None})
    # ---------------- Part B
    sks = [ctx.rbytes(32) for _ in range(4)]
    pks = [vlib.unhex(r_["out"]) for r_ in pc.lib_ops(ctx.bin, ["xpub " + vlib.hexs(k) for k in sks])]
    (b, B), (m, M), (n, N), (c, C) = zip(sks, pks)
    hi = lambda k: k[:31] + bytes([k[31] | 0x80])
    pw = rng.choice([b"pw-bob", b"x", b"two words"])
    locked_b, = pc.lock_keys([(b, pw, ctx.rbytes(32))])
    blk = pc.key_block
    T = c05_pk_text
    bob = blk(b"bob", T(B), locked_b)
    P = ctx.rbytes(rng.randrange(0, 300))
    files = []
    for who, sk, claim in (("mallory", m, M), ("mallory", m, hi(M)), ("nobody", n, N), ("nobody", n, hi(N))):
        ek = ctx.rbytes(32)
        epk = vlib.unhex(pc.lib_ops(ctx.bin, ["xpub " + vlib.hexs(ek)])[0]["out"])
        e_ = Case("key_enc", s=sk, spk=claim, r=B, e=ek, epk=epk, pk=ctx.rbytes(32), data=P)
        vlib.run_impl(ctx.bin, [e_])
        if e_.result["code"] != 0:
            count("c05cli:bit255-file-not-produced")
            continue
        d_ = Case("key_dec", r=b, rpk=B, data=e_.result["out"])
        vlib.run_impl(ctx.bin, [d_])
        if d_.result["code"] != 0 or d_.result["out"] != P:
            count("c05cli:bit255-file-rejected-by-the-library")      # the library's business (C05 library half), nothing to look up
            continue
        files.append({"who": who, "claim": claim, "auth": d_.result["extra"], "data": e_.result["out"], "hi": claim[31] & 0x80 != 0})
    w = pc.World(prefix="kv_c05b_")
    try:
        ent = {"lo": (b"alice", T(M)), "hi": (b"alice-hi", T(hi(M))), "carol": (b"carol", T(C))}
        rings = {"canonical-only": [ent["lo"], ent["carol"]], "bit255-only": [ent["carol"], ent["hi"]], "canonical-then-bit255": [ent["lo"], ent["hi"]],
                 "bit255-then-canonical": [ent["hi"], ent["carol"], ent["lo"]], "neither": [ent["carol"]]}
        for k, es in rings.items():
            txt = [blk(nm, pk_) for nm, pk_ in es]
            txt.insert(rng.randrange(0, len(txt) + 1), bob)
            w.write("kr_" + k, b"\n".join(txt))
        jobs = []
        for fi, f in enumerate(files):
            w.write("ct_%d" % fi, f["data"])
            for k in rings:
                if f["who"] == "nobody" and k not in ("canonical-only", "neither") and not full:
                    continue
                jobs.append((fi, k, rng.choice(["o", "pipe", "file"]), rng.choice(["pipe", "file", "pty"])))

        def one(job):
            fi, k, o, e = job
            i = jobs.index(job)
            argv = ["decrypt", "ct_%d" % fi, "-t", "bob", "-k", "kr_" + k, "--env-pass"] + (["-o", "dst_%d" % i] if o == "o" else [])
            kw = dict(env=pc.env_pw(pw), out=("file", w.p("so_%d" % i)) if o == "file" else "pipe")
            r = pc.s4a_proc(w, argv, err={"pipe": "pipe", "pty": "pty", "file": ("file", w.p("se_%d" % i))}[e], **kw)
            if r is None:
                r = pc.s4a_proc(w, argv, err="pipe", **kw)
            return r, (w.read("dst_%d" % i) if o == "o" else r.out)
        with ThreadPoolExecutor(max_workers=vlib.NPROC) as ex:
            res = list(ex.map(one, jobs))
        for (fi, k, o, e), (r, got) in zip(jobs, res):
            f = files[fi]
            A = f["auth"]
            ctx.evaluations += 1
            ctx.distinct_nontrivial += 1
            ctx.oracle_checks += 1
            count("c05cli:key-bytes-%s/%s" % ("bit255-set" if f["hi"] else "canonical", k))
            hit = [nm for nm, pk_ in rings[k] if pk_ == T(A)]
            want = [b"Success. File from: " + hit[0]] if hit else [b"Caution. File is from an unknown key.", b"Unknown key: " + T(A)]
            lines = pc.s4a_report_lines(r.err)
            scen = ("file made by the library encryptor with the private key of %s and the embedded sender key %s (%s); the library authenticates it and "
                    "returns the sender key %s; bob's keyring '%s' lists %s; plaintext to %s, stderr to %s"
                    % (f["who"], f["claim"].hex(), "bit 255 set: another byte string for the same curve point" if f["hi"] else "canonical", A.hex(), k,
                       ", ".join("%s = %s" % (nm.decode(), pk_.decode()) for nm, pk_ in rings[k]), o, e))
            cmds = [dict(r.describe(), keyring=(w.read("kr_" + k) or b"").decode(), ciphertext_hex=f["data"].hex())]
            bad = None
            if r.rc != 0 or got != P:
                bad = ("decryption by the addressed key succeeds with exactly the plaintext (exit 0)", "exit %d, %s" % (r.rc, "output differs/absent" if got != P else "output ok"))
            elif lines != want:
                shown = None
                for l in lines:
                    if l.startswith(b"Unknown key: "):
                        try:
                            shown = base64.b64decode(l[13:])[:32].hex()
                        except Exception:
                            shown = "not base64"
                bad = ("the tool names the entry whose public key EQUALS the authenticated sender key %s, or reports that key as unknown with an "
                       "encoding that decodes to exactly these bytes: %s" % (A.hex(), b" / ".join(want).decode()),
                       (b" / ".join(lines).decode("utf-8", "replace") if lines else r.errtext()[-300:]) + (" (the printed encoding decodes to %s)" % shown if shown else ""))
            if bad:
                ctx.violations.append({"input": {"kind": "proc", "scenario": scen, "commands": cmds}, "expected": bad[0], "observed": bad[1], "finding_key": None})
            elif len(ctx.samples) < 10:
                ctx.samples.append({"scenario": scen[:400], "stderr": b" / ".join(lines).decode("utf-8", "replace")})
    finally:
        w.close()


REGISTRY["C05"] = C05()

import props_cli  # noqa: E402,F401  (registers C12..C17)
import props_misc  # noqa: E402
props_misc.register(REGISTRY)
import props_lib_cli  # noqa: E402  (command-line halves of C02 and C10)
