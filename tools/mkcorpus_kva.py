#!/usr/bin/env python3
"""Extends the frozen corpus corpus/frozen/ ONCE (committed; never rebuilt by a check) with families the first 14 files
do not contain: password files whose PASSWORD is long (65 .. 5000 bytes, both sides of 128 and 256), password files
with SPECIAL SALTS (all-zero, all-0xff, one repeated byte, ascending) and key files ADDRESSED TO THE SENDER's own key
(sender == recipient; also ephemeral == static).  Like tools/mkcorpus.py the files are written by the implementation
at the commit recorded in each entry (encrypt path byte-identical to the pinned commit); in addition every password
file is required here to equal, byte for byte, what the independent reference writer produces (documented header +
chunk stream under OpenSSL's RFC 7914 key), and ./check C06 evaluates the Gallina model on every file at every run.
Existing entries and files are left untouched; running it again changes nothing."""
import hashlib, json, os, subprocess, sys
sys.path.insert(0, os.path.dirname(os.path.abspath(__file__)))
import vlib
from vlib import Case

D = os.path.join(vlib.VERIF, "corpus", "frozen")
ok, out, binp = vlib.build_harness()
assert ok, out[-500:]
assert subprocess.run(["git", "-C", vlib.REPO, "status", "--porcelain", "--", "src"], capture_output=True, text=True).stdout.strip() == "", \
    "the corpus is written from a clean source tree only"
commit = subprocess.run(["git", "-C", vlib.REPO, "rev-parse", "HEAD"], capture_output=True, text=True).stdout.strip()


def prg(tag, n):
    out = b""
    i = 0
    while len(out) < n:
        out += hashlib.sha256(("%s-%d" % (tag, i)).encode()).digest()
        i += 1
    return out[:n]


idx_path = os.path.join(D, "index.json")
index = json.load(open(idx_path))
have = {e["file"] for e in index["files"]}
new = []
MAGIC = bytes([0x65, 0x67, 0x6b, 0x20])


def add_pass(name, pw, salt, n, note):
    if name in have:
        return
    P = prg("frozen-pt-" + name, n)
    c = Case("pass_enc", pw=pw, salt=salt, data=P)
    vlib.run_impl(binp, [c])
    assert c.result["code"] == 0, c.result["raw"]
    key = hashlib.scrypt(pw, salt=salt, n=32768, r=8, p=1, dklen=32, maxmem=2 ** 31 - 1)
    ref = Case("enc_chunks", key=key, aad=MAGIC, cs=65536, data=P)
    vlib.run_impl(binp, [ref])
    assert MAGIC + salt + ref.result["out"] == c.result["out"], "implementation and reference writer differ on " + name
    open(os.path.join(D, name), "wb").write(c.result["out"])
    new.append({"file": name, "mode": "pass", "len": n, "plaintext_sha256": hashlib.sha256(P).hexdigest(),
                "pt_tag": "frozen-pt-" + name, "pw": pw.hex(), "family": note, "generated_at_repo_commit": commit,
                "origin": "tools/mkcorpus_kva.py"})


def add_key(name, s, spk, r, rpk, e, epk, n, note):
    if name in have:
        return
    P = prg("frozen-pt-" + name, n)
    c = Case("key_enc", s=s, spk=spk, r=rpk, e=e, epk=epk, pk=prg("frozen-pk-" + name, 32), data=P)
    vlib.run_impl(binp, [c])
    assert c.result["code"] == 0, c.result["raw"]
    open(os.path.join(D, name), "wb").write(c.result["out"])
    new.append({"file": name, "mode": "key", "len": n, "plaintext_sha256": hashlib.sha256(P).hexdigest(),
                "pt_tag": "frozen-pt-" + name, "r": r.hex(), "rpk": rpk.hex(), "sender": spk.hex(), "family": note,
                "generated_at_repo_commit": commit, "origin": "tools/mkcorpus_kva.py"})


for n in (65, 128, 129, 256, 257, 1000, 5000):
    pw = prg("frozen-longpw-%d" % n, n)
    if n % 2:                          # odd lengths: multi-byte text rather than binary
        pw = ("pässwörd-✓-%d-" % n).encode() * (n // 8 + 1)
        pw = pw[:n - 1] + b"!"
    if pw[-1] == 0:
        pw = pw[:-1] + b"\x01"
    add_pass("pass_pwlen%d.ktl" % n, pw, prg("frozen-salt-pwlen%d" % n, 32), 21, "long-password")
for lab, salt in (("zero", bytes(32)), ("ff", b"\xff" * 32), ("const41", b"\x41" * 32), ("ascending", bytes(range(32)))):
    add_pass("pass_salt_%s.ktl" % lab, ("frozen pässwörd salt %s" % lab).encode(), salt, 13, "special-salt")
r, e = prg("frozen-r", 32), prg("frozen-e", 32)
ks = [Case("xpub", k=k) for k in (r, e)]
vlib.run_impl(binp, ks)
rpk, epk = [c.result["out"] for c in ks]
add_key("key_self_0.ktl", r, rpk, r, rpk, e, epk, 0, "self-addressed")
add_key("key_self_13.ktl", r, rpk, r, rpk, e, epk, 13, "self-addressed")
add_key("key_self_eph_5.ktl", r, rpk, r, rpk, r, rpk, 5, "self-addressed, ephemeral == static")
index["files"].extend(new)
json.dump(index, open(idx_path, "w"), indent=1)
print("added", len(new), "files;", len(index["files"]), "in", D)
