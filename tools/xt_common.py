"""helpers shared by the item groups of the translator (xt_crypto.py, xt_cli.py)"""
from rustlite import ExtractError, NotConst, Lin, ceval, split_top


class Roles(list):
    """list role"""


class Tokens(list):
    """list token"""


class Texts(list):
    """list (list N)"""


class Words(list):
    """list (list (list N))"""


class OptTable(list):
    """list (N * list N * list N)  -- (kind, short name, long name); kind 0 = reqopt, 1 = optopt, 2 = optflag"""


def need(cond, msg):
    if not cond:
        raise ExtractError(msg)


def arg(F, call, i, item, arity=None):
    """checks the arity; returns the argument's token range (valid in call.ctx)"""
    if arity is not None and len(call.args) != arity:
        raise ExtractError("%s:call %s has %d arguments, expected %d" % (item, call.path[-1], len(call.args), arity))
    if i >= len(call.args):
        raise ExtractError("%s:call %s has no argument %d" % (item, call.path[-1], i))
    return call.args[i]


def is_empty_bytes(o):
    """o: origin of an argument expression"""
    if o.kind == "empty":
        return True
    if o.kind in ("const_bytes", "arr") and len(o.values) == 0:
        return True
    if o.kind == "str" and len(o.value) == 0:
        return True
    return False


def zero_fill_size(F, o, item):
    """o: origin of a buffer expression; must be [0; N] / vec![0; N] with constant N"""
    need(o.kind == "fill" and o.value == 0, "%s:`%s` is not a zeroed array" % (item, o.text()))
    need(o.size.is_const(), "%s:size of `%s` is not constant" % (item, o.text()))
    return o.size.c


def where_of(F, o):
    L = o.deflet()
    if L is not None:
        return L.where()
    d = getattr(o, "cdef", None)
    if d is not None:
        return d.where()
    return o.ctx.where(o.a)


def tok0(c, i):
    """first token of argument i of call c"""
    return c.ctx.T[c.args[i][0]]


def base_canon(o):
    """canonical text of the base expression of a slice / index origin"""
    return o.ctx.canon(*o.base_rng)


def slice_bounds(o, item, size=None):
    return o.ctx.slice_bounds(o, item, size)


def named_let_fill(F, name, item, mutable=None):
    """former name-based pattern: let [mut] NAME = [0u8; N]"""
    for L in F.lets:
        if L.name == name and L.init is not None:
            o = F.origin(L.init[0], L.init[1])
            if o.kind == "fill" and o.value == 0 and o.size.is_const():
                return o.size.c, L.where()
    raise ExtractError("%s:let %s = [0u8; N]" % (item, name))


def named_const_int(S, crate, name, item):
    d = crate.find_const(name)
    need(d is not None, "%s:const %s (not found or ambiguous in %s)" % (item, name, crate.sub))
    try:
        return ceval(crate, d.f, d.ea, d.eb), d.where()
    except NotConst as e:
        raise ExtractError("%s:const %s (%s)" % (item, name, e))


def named_const_bytes(S, crate, name, item):
    d = crate.find_const(name)
    need(d is not None, "%s:const %s (not found or ambiguous in %s)" % (item, name, crate.sub))
    from rustfn import FnCtx
    # const_bytes needs no function context: borrow the method through a tiny shim
    bs = _const_bytes(crate, d)
    need(bs is not None, "%s:const %s is not a byte array" % (item, name))
    a, b = d.ty
    T = d.f.toks
    if T[a].s == "[" and d.f.m[a] == b - 1:
        parts = split_top(d.f, a + 1, b - 1, sep=";")
        if len(parts) == 2:
            try:
                n = ceval(crate, d.f, *parts[1])
                need(n == len(bs), "%s:length" % item)
            except NotConst:
                pass
    return bs, d.where()


def _const_bytes(crate, d, depth=0):
    T, f = d.f.toks, d.f
    a, b = d.ea, d.eb
    while a < b and T[a].s in ("&", "*"):
        a += 1
    if b - a == 1 and T[a].k == "bstr":
        return list(T[a].v)
    if T[a].s == "[" and f.m[a] == b - 1:
        parts = split_top(f, a + 1, b - 1, sep=";")
        try:
            if len(parts) == 2:
                return [ceval(crate, f, *parts[0])] * ceval(crate, f, *parts[1])
            return [ceval(crate, f, x, y) for (x, y) in split_top(f, a + 1, b - 1)]
        except NotConst:
            return None
    if all(T[k].k == "id" or T[k].s == "::" for k in range(a, b)) and depth < 10:
        d2 = crate.find_const(T[b - 1].s, f)
        if d2 is not None:
            return _const_bytes(crate, d2, depth + 1)
    return None


def bytes_value(F, o, item):
    """constant byte array behind an origin (crate constant, local array literal, byte string)"""
    if o.kind in ("const_bytes", "arr"):
        return list(o.values)
    if o.kind == "str":
        return list(o.value)
    if o.kind == "empty":
        return []
    if o.kind == "fill" and o.value is not None and o.size.is_const():
        return [o.value] * o.size.c
    raise ExtractError("%s:`%s` is not a constant byte array" % (item, o.text()))


def contexts(F):
    """F and the helper contexts entered from it, in order of entry"""
    out = [F]
    for c in F.tree_calls():
        if c.ctx not in out:
            out.append(c.ctx)
        G = c.ctx.enter(c)
        if G is not None and G not in out:
            out.append(G)
    return out


def if_conditions(F):
    """[(cond_a, cond_b, body_open, body_close, ctx)] of every plain `if` (not `if let`) of the function and of the
    private helpers it enters, textual order per context (ranges are valid in ctx)"""
    out = []
    for C in contexts(F):
        T, m = C.T, C.m
        for i in range(C.ba, C.bb):
            if T[i].k == "id" and T[i].s == "if" and not (T[i + 1].k == "id" and T[i + 1].s == "let"):
                k = i + 1
                while k < C.bb and T[k].s != "{":
                    if T[k].s in ("(", "["):
                        k = m[k]
                    k += 1
                if k < C.bb:
                    out.append((i + 1, k, k, m[k], C))
    return out


CMP_FLIP = {"<": ">", ">": "<", "<=": ">=", ">=": "<=", "==": "==", "!=": "!="}


def comparisons(F, a, b):
    """split a condition at top-level || / && and return its comparisons
    [(lhs_rng, op, rhs_rng)], plus the connectives used"""
    ops = F.top_ops(a, b)
    cuts = [i for (i, op) in ops if op in ("||", "&&")]
    conn = sorted(set(op for (_, op) in ops if op in ("||", "&&")))
    pieces = []
    st = a
    for c in cuts + [b]:
        pieces.append((st, c))
        st = c + 1
    out = []
    for (x, y) in pieces:
        x, y = F.strip(x, y) if F.T[x].s == "(" and F.m[x] == y - 1 else (x, y)
        po = [(i, op) for (i, op) in F.top_ops(x, y) if op in CMP_FLIP]
        if len(po) == 1:
            i, op = po[0]
            out.append(((x, i), op, (i + 1, y)))
        else:
            out.append(((x, y), None, None))
    return out, conn


def len_comparand(F, cond, subject_pred, item):
    """in condition range cond, the single comparison one side of which is `<subject>.len()` (subject_pred(canon text))
    returns [(op normalised so that the len is on the LEFT, const value of the other side, where)]"""
    if len(cond) > 4:
        F = cond[4]
    cmps, _ = comparisons(F, cond[0], cond[1])
    found = []
    for (l, op, r) in cmps:
        if op is None:
            continue
        for (subj, other, o2) in ((l, r, op), (r, l, CMP_FLIP[op])):
            v = None
            try:
                v = F.lin(subj[0], subj[1], item)
            except ExtractError:
                continue
            if v.c == 0 and len(v.t) == 1 and list(v.t.values()) == [1] and subject_pred(list(v.t)[0]):
                try:
                    c = F.const(other[0], other[1], item)
                except ExtractError:
                    continue
                found.append((o2, c, F.where(other[0])))
    return found


class RoleCtx:
    """classifies argument expressions of one function into roles"""

    def __init__(self, S, F, ptab, item, known_bytes=None, reads=None, bufroles=None, callroles=None, fieldroles=None):
        self.S, self.F, self.item = S, F, item
        n = len(F.fn.params)
        need(n == len(ptab), "%s:signature of %s changed (%d parameters, expected %d)" % (item, F.fn.name, n, len(ptab)))
        self.ptab = ptab
        self.known_bytes = known_bytes or {}
        self.reads = reads or []
        self.bufroles = bufroles or {}       # Let -> role
        self.callroles = {"noise_encrypt": "RNoiseOut", "noise_decrypt": "RNoiseOut", "hkdf_sha256": "RFileKey",
                          "scrypt": "RPassKey", "sha256": "RHash"}
        self.callroles.update(callroles or {})
        self.fieldroles = {("RNoiseOut", "handshake_hash"): "RHandshakeHash", ("RNoiseOut", "ciphertext"): "RNoiseMsg",
                           ("RNoiseOut", "payload_key"): "RPayloadKey", ("RNoiseOut", "public_key"): "RSenderPub"}
        self.fieldroles.update(fieldroles or {})

    def fail(self, o, why=""):
        raise ExtractError("%s:cannot tell what `%s` is%s" % (self.item, o.text(), " (" + why + ")" if why else ""))

    def of(self, a, b, ctx=None):
        return self.of_origin((ctx or self.F).origin(a, b))

    def of_arg(self, call, i):
        return self.of_origin(call.origin(i))

    def of_origin(self, o):
        F = self.F
        k = o.kind
        L = o.deflet()
        if L is not None and L in self.bufroles:
            return self.bufroles[L]
        if k == "param":
            return self.ptab[o.idx]
        if k == "empty":
            return "REmpty"
        if k == "bool":
            return "RTrue" if o.value else "RFalse"
        if k == "none":
            return "RNone"
        if k == "some":
            return ("RSome", self.of_origin(o.inner))
        if k == "const_int":
            if L is not None and L.mut and L.ctx.is_assigned(L, ("+=",)):
                return "RCounter"
            return ("RConst", o.value)
        if k in ("const_bytes", "arr", "str"):
            v = tuple(o.values if k != "str" else o.value)
            if v in self.known_bytes:
                return self.known_bytes[v]
            if len(v) == 0:
                return "REmpty"
            self.fail(o, "constant bytes not known here")
        if k == "ifelse":
            # if let Some(x) = P { x } else { fresh }
            T = o.ctx.T
            ca, cb = o.cond
            if T[ca].s == "let":
                eq = [i for i in range(ca, cb) if T[i].s == "="]
                if eq:
                    return self.of(eq[0] + 1, cb, o.ctx)
            self.fail(o, "conditional value")
        if k == "call":
            if o.name in self.callroles:
                return self.callroles[o.name]
            if o.name == "secure_random" and len(o.args) == 1:
                return ("RRandom", o.const(0, self.item))
            self.fail(o, "result of " + o.name)
        if k == "field":
            br = self.of_origin(o.base)
            if (br, o.name) in self.fieldroles:
                return self.fieldroles[(br, o.name)]
            self.fail(o, "field %s of %s" % (o.name, br))
        if k == "fill" and o.value == 0:
            if L is not None:
                fl = F.fills_of(L)
                if fl:
                    idx = fl[0][0]
                    if idx < len(self.reads):
                        return self.reads[idx]
                    self.fail(o, "filled by read_exact #%d" % idx)
                if not L.mut and o.size.is_const():
                    return ("RZeros", o.size.c)
            elif o.size.is_const():
                return ("RZeros", o.size.c)
            self.fail(o, "zeroed buffer with no known use")
        if k == "slice":
            base = o.base
            if base.kind == "fill" or (base.kind == "method" and base.name == "clone") or base.deflet() is not None \
                    and base.deflet() in self.bufroles:
                return "RChunkBody"
            bl = base.deflet()
            if bl is not None and bl.mut and base.kind == "fill":
                return "RChunkBody"
            self.fail(o, "slice")
        if k == "method":
            if o.name == "len" and not o.args:
                return ("RLenOf", self.of_origin(o.base))
            self.fail(o, "method " + o.name)
        self.fail(o, k)

    def roles_of_call(self, call, arity=None):
        if arity is not None:
            need(len(call.args) == arity, "%s:call %s has %d arguments, expected %d" % (self.item, call.path[-1], len(call.args), arity))
        return Roles(self.of_arg(call, i) for i in range(len(call.args)))
