"""props_lib_cli — the command-line halves of the library-level properties C02 and C10.

C02 and C10 speak about password-mode round trips / wrong passwords and about I/O failures; `kestrel password encrypt|decrypt
--env-pass` (and, for C10, all four file commands) is one of the places the properties name (`observe_at`).  The library
checks in props.py drive kestrel_crypto in-process; everything the CLI crate puts between the user and the library (how the
input is opened and handed on, how KESTREL_PASSWORD becomes the password bytes, how `-o` is created and written, how a failed
write reaches the exit status) is exercised here on the real binary (vlib.CLIDRV), with direct oracles only.

Every scenario is described by a small JSON-able `job` (sizes + PRNG seeds, names, passwords, delivery), executed by a
function `s2_run_<part>(world, job)` -> verdict dict; a violation stores the job, so that `./check Cxx --replay` re-executes it.
Process helpers (World, Run, env_pw, kvc_run, snapshots, key generation) are those of props_cli."""
import fcntl, hashlib, os, random, shutil, struct, subprocess, sys, termios, threading, time, unicodedata
from concurrent.futures import ThreadPoolExecutor

import vlib
import props
import props_cli as pc


# =========================================================================== shared
def s2_bytes(spec):
    """the plaintext a job names: {'len': n, 'seed': s} -> n reproducible bytes"""
    return random.Random(spec["seed"]).randbytes(spec["len"])


def s2_pspec(ctx, n):
    return {"len": n, "seed": ctx.rng.getrandbits(48)}


def s2_show(b, n=24):
    if b is None:
        return "absent"
    return "%d bytes %s%s" % (len(b), b[:n].hex(), ".." if len(b) > n else "")


def s2_first_diff(a, b):
    n = min(len(a), len(b))
    for i in range(n):
        if a[i] != b[i]:
            return i
    return n


def s2_verdict(ok, expected="", observed="", runs=()):
    return {"ok": ok, "expected": expected, "observed": observed, "commands": [r.describe() for r in runs]}


def s2_record(ctx, part, job, v, scenario, nontrivial=True):
    """book-keeping of one executed job: counters, distribution, sample, violation (with the job for replay)"""
    ctx.evaluations += 1
    ctx.oracle_checks += 1
    if nontrivial:
        ctx.distinct_nontrivial += 1
    key = "cli:%s" % part
    ctx.distribution[key] = ctx.distribution.get(key, 0) + 1
    if not v["ok"]:
        bad = "cli:%s:violations" % part
        ctx.distribution[bad] = ctx.distribution.get(bad, 0) + 1
        if ctx.distribution[bad] <= 6:
            ctx.violations.append({"input": {"kind": "proc", "scenario": scenario, "s2_part": part, "s2_job": job, "commands": v["commands"]},
                                   "expected": v["expected"], "observed": v["observed"], "finding_key": None})
    return v["ok"]


def s2_pmap(fn, items):
    if not items:
        return []
    with ThreadPoolExecutor(max_workers=max(1, vlib.NPROC)) as ex:
        return list(ex.map(fn, items))


def s2_pipe_pending(fd):
    """bytes sitting in the pipe fd belongs to (either end), i.e. written and not yet taken by the reader"""
    return struct.unpack("i", fcntl.ioctl(fd, termios.FIONREAD, b"\0\0\0\0"))[0]


def s2_run_delivered(w, argv, env, chunks, cwd=None, timeout=120, take_timeout=5.0):
    """World.run with standard input a PIPE fed by exactly one write(2) per element of `chunks`; after each write the feeder
    waits until the program has TAKEN those bytes (the pipe is empty again) before it sends the next ones, so that whenever the
    program's reads happen, no read can see bytes of two deliveries - the pause between deliveries is as long as the program
    needs, not a guess.  Output and diagnostics are collected concurrently.  Returns a props_cli.Run."""
    e = {"PATH": "/usr/bin:/bin", "HOME": cwd or w.dir, "LANG": "C.UTF-8"}
    if env:
        e.update(env)
    pr = subprocess.Popen([w.bin] + list(argv), env=e, stdin=subprocess.PIPE, stdout=subprocess.PIPE, stderr=subprocess.PIPE,
                          start_new_session=True, cwd=cwd or w.dir, bufsize=0)
    sin, pr.stdin = pr.stdin, None

    def feed():
        fd = sin.fileno()
        try:
            for ch in chunks:
                mv = memoryview(ch)
                while len(mv):
                    mv = mv[os.write(fd, mv):]
                t0 = time.time()
                while time.time() - t0 < take_timeout and pr.poll() is None:
                    if s2_pipe_pending(fd) == 0:
                        break
                    time.sleep(0.0005)
                time.sleep(0.001)
        except OSError:
            pass                     # the program has gone (BrokenPipe): its exit status tells
        finally:
            try:
                sin.close()
            except OSError:
                pass
    th = threading.Thread(target=feed, daemon=True)
    th.start()
    try:
        out, err = pr.communicate(timeout=timeout)
        rc = pr.returncode
    except subprocess.TimeoutExpired:
        pr.kill()
        out, err = pr.communicate()
        rc, err = 124, (err or b"") + b"\n[timeout]"
    th.join(timeout=10)
    w.nruns += 1
    sizes = [len(c) for c in chunks]
    how = "stdin: %d bytes in %d write(s) of %s bytes, each sent after the previous one was taken" % (
        sum(sizes), len(sizes), (",".join(map(str, sizes)) if len(sizes) <= 12 else ",".join(map(str, sizes[:12])) + ",.."))
    return pc.Run(list(argv), dict(env or {}), how, rc, out or b"", err or b"")


def s2_cut(data, sizes):
    """data cut into consecutive pieces of the given sizes (the last piece takes the rest)"""
    out, i = [], 0
    for s in sizes:
        if i >= len(data):
            break
        out.append(data[i:i + s])
        i += s
    if i < len(data):
        out.append(data[i:])
    return out or [b""]


def s2_clean_exit(r):
    """exit status of a program that neither crashed nor was killed: 0 or 1"""
    return r.rc in (0, 1)


# =========================================================================== C02 part A: every length, every delivery
S2_PASSWORDS = ["", "a", "hunter2", "p\u00e4ss w\u00f6rd \u2713", "trailing space ", "\"quoted\"", "x" * 65, "tab\tinside"]


def s2_run_roundtrip(w, job):
    """password encrypt then password decrypt through the real binary.
    job: id, p (plaintext spec), pw, enc = {'inp': 'file'|'stdin', 'cuts': [sizes] | None, 'out': 'o'|'stdout'},
         dec = the same for the decryption (cuts apply to the ciphertext)"""
    P = s2_bytes(job["p"])
    pw = job["pw"]
    env = pc.env_pw(pw)
    tag = job["id"]
    pt, ct, rt = tag + "_pt", tag + "_ct", tag + "_rt"
    for n in (pt, ct, rt):
        if os.path.lexists(w.p(n)):
            os.remove(w.p(n))
    runs = []

    def step(cmd, route, infile, data, outfile):
        argv = ["password", cmd]
        if route["inp"] == "file":
            w.write(infile, data)
            argv.append(infile)
        if route["out"] == "o":
            argv += ["-o", outfile]
        argv.append("--env-pass")
        if route["inp"] == "file":
            r = w.run(argv, env=env)
        else:
            r = s2_run_delivered(w, argv, env, s2_cut(data, route["cuts"] or [max(1, len(data))]))
        runs.append(r)
        res = w.read(outfile) if route["out"] == "o" else r.out
        return r, res
    what = "%d-byte plaintext, password %r, encrypt %s, decrypt %s" % (len(P), pw, s2_route_text(job["enc"]), s2_route_text(job["dec"]))
    r1, C = step("encrypt", job["enc"], pt, P, ct)
    if r1.rc != 0 or not C:
        return s2_verdict(False, "password encryption succeeds (%s)" % what,
                          "exit %d, ciphertext %s, stderr %r" % (r1.rc, s2_show(C), r1.errtext()[-200:]), runs)
    if job["enc"]["inp"] == "file" and w.read(pt) != P:
        return s2_verdict(False, "the plaintext file is left as it was", "input file now %s" % s2_show(w.read(pt)), runs)
    r2, R = step("decrypt", job["dec"], ct, C, rt)
    if r2.rc != 0 or R != P:
        obs = "exit %d, got %s" % (r2.rc, s2_show(R, 48))
        if R is not None and R != P:
            obs += "; first difference at offset %d; original %s" % (s2_first_diff(R, P), s2_show(P, 48))
        return s2_verdict(False, "password decrypt(password encrypt(P)) under the same password = exactly P (%s)" % what,
                          obs + ", stderr %r" % r2.errtext()[-160:], runs)
    return s2_verdict(True, runs=runs)


def s2_route_text(rt):
    if rt["inp"] == "file":
        a = "from a file argument"
    else:
        c = rt["cuts"]
        a = "from stdin in one write" if not c else "from stdin delivered as %s%s bytes + rest" % (",".join(map(str, c[:8])), ",.." if len(c) > 8 else "")
    return a + (" to -o" if rt["out"] == "o" else " to stdout")


def s2_roundtrip_jobs(ctx):
    rng = ctx.rng
    full = ctx.thorough()
    jobs = []
    FILE_O = {"inp": "file", "cuts": None, "out": "o"}

    def add(n, enc, dec=None, pw=None):
        jobs.append({"id": "rt%03d" % len(jobs), "p": s2_pspec(ctx, n), "pw": rng.choice(S2_PASSWORDS) if pw is None else pw,
                     "enc": enc, "dec": dec or FILE_O})
    BIGS = [65535, 65536, 65537, 131071, 131072, 131073] if full else [65535, 65536, 65537, 131072]
    # every length 0..40 and the chunk boundaries from a FILE ARGUMENT
    for n in list(range(0, 41)) + BIGS:
        add(n, {"inp": "file", "cuts": None, "out": rng.choice(["o", "stdout"])},
            {"inp": "file", "cuts": None, "out": rng.choice(["o", "stdout"])})
    # the same lengths from STDIN in a single write
    for n in (list(range(0, 41)) if full else list(range(0, 10)) + rng.sample(range(10, 41), 4)) + BIGS[:3]:
        add(n, {"inp": "stdin", "cuts": None, "out": rng.choice(["o", "stdout"])})
    # stdin whose first delivery is 1, 2, 3, .. bytes; two short deliveries; byte by byte; random cuts
    lens = list(range(2, 12)) + [33, 40] if full else [2, 3, 4, 5, 8] + rng.sample([6, 7, 9, 10, 11, 33, 40], 2)
    for n in lens:
        for k in (1, 2, 3, 4, 5, 7):
            if k < n:
                add(n, {"inp": "stdin", "cuts": [k], "out": rng.choice(["o", "stdout"])})
        add(n, {"inp": "stdin", "cuts": [1] * n, "out": "stdout"})
        add(n, {"inp": "stdin", "cuts": [1, 1], "out": "o"})
    for _ in range(12 if full else 4):
        n = rng.choice([rng.randrange(5, 200), rng.randrange(200, 5000), 65536 + rng.randrange(1, 5000)])
        cuts = []
        left = n
        while left > 0 and len(cuts) < 40:
            k = rng.choice([1, 2, 3, rng.randrange(1, 17), rng.randrange(1, max(2, n))])
            cuts.append(k)
            left -= k
        add(n, {"inp": "stdin", "cuts": cuts, "out": rng.choice(["o", "stdout"])})
    for n in ([65537, 65536 * 2 + 1] if full else [65537]):
        add(n, {"inp": "stdin", "cuts": [rng.choice([1, 2, 3]), 65536], "out": "o"})
        add(n, {"inp": "stdin", "cuts": [65535, 1, 1], "out": "o"})
    # the CIPHERTEXT delivered in pieces to the decryptor: cuts inside the magic number, the salt, a chunk header, a chunk
    for n in ([0, 1, 5, 40, 65537] if full else [0, rng.choice([1, 5, 40]), 65537]):
        for cuts in ([1], [2], [3], [4], [35, 1], [36], [36, 15, 1], [36, 16, 15, 1], [1] * 120):
            if full or cuts in ([1], [3], [36, 15, 1]) or rng.random() < 0.3:
                add(n, FILE_O, {"inp": "stdin", "cuts": cuts, "out": rng.choice(["o", "stdout"])})
    return jobs


# =========================================================================== C02 part B: every different password is refused
def s2_env_ok(s):
    """can s be the value of an environment variable the program reads as text? (no NUL; encodable as UTF-8)"""
    if "\0" in s:
        return False
    try:
        s.encode("utf-8")
    except UnicodeEncodeError:
        return False
    return True


def s2_password_variants(rng, w):
    """passwords that LOOK like w to a shell, a config-file reader or a human, and are different byte strings: what any layer
    between the environment and the key derivation might 'helpfully' normalise away.  KESTREL_PASSWORD is used verbatim by the
    unchanged program (commands.rs::read_env_pass: std::env::var -> String -> as_bytes, no trimming, no unquoting), so every one
    of them is a different password.  Variants related to w by RFC 2104 key normalisation (the known finding hmac-key-hashing)
    are left out."""
    def esc(s):
        return "".join("\\" + c if c in "\"'\\ $`!#&*?;|<>()" else c for c in s)

    def unesc(s):
        out, i = [], 0
        while i < len(s):
            if s[i] == "\\" and i + 1 < len(s):
                i += 1
            out.append(s[i])
            i += 1
        return "".join(out)

    def strip_pair(q):
        return lambda s: s[1:-1] if len(s) >= 2 and s[0] == q and s[-1] == q else s

    def pct(s):
        import urllib.parse
        return urllib.parse.unquote(s)
    i = rng.randrange(len(w)) if w else 0
    T = [("double-quoted", lambda s: '"' + s + '"'), ("double quotes removed", strip_pair('"')),
         ("single-quoted", lambda s: "'" + s + "'"), ("single quotes removed", strip_pair("'")),
         ("back-quoted", lambda s: "`" + s + "`"), ("opening quote only", lambda s: '"' + s), ("closing quote only", lambda s: s + '"'),
         ("space appended", lambda s: s + " "), ("space prefixed", lambda s: " " + s), ("two spaces appended", lambda s: s + "  "),
         ("TAB appended", lambda s: s + "\t"), ("TAB prefixed", lambda s: "\t" + s),
         ("CR appended", lambda s: s + "\r"), ("LF appended", lambda s: s + "\n"), ("CRLF appended", lambda s: s + "\r\n"),
         ("LF prefixed", lambda s: "\n" + s), ("two LF appended", lambda s: s + "\n\n"), ("FF appended", lambda s: s + "\x0c"),
         ("NBSP appended", lambda s: s + "\u00a0"), ("U+2028 appended", lambda s: s + "\u2028"), ("U+0085 appended", lambda s: s + "\u0085"),
         ("zero-width space appended", lambda s: s + "\u200b"), ("BOM prefixed", lambda s: "\ufeff" + s), ("BOM appended", lambda s: s + "\ufeff"),
         ("trimmed", lambda s: s.strip()), ("right-trimmed", lambda s: s.rstrip()), ("left-trimmed", lambda s: s.lstrip()),
         ("one trailing newline removed", lambda s: s[:-1] if s.endswith("\n") else s),
         ("ASCII blanks trimmed", lambda s: s.strip(" \t\r\n")),
         ("NFC", lambda s: unicodedata.normalize("NFC", s)), ("NFD", lambda s: unicodedata.normalize("NFD", s)),
         ("NFKC", lambda s: unicodedata.normalize("NFKC", s)), ("NFKD", lambda s: unicodedata.normalize("NFKD", s)),
         ("case of one letter", lambda s: s[:i] + s[i:i + 1].swapcase() + s[i + 1:]), ("lower case", lambda s: s.lower()),
         ("upper case", lambda s: s.upper()), ("case folded", lambda s: s.casefold()),
         ("backslash-escaped", esc), ("backslashes removed", unesc), ("backslash appended", lambda s: s + "\\"),
         ("escape sequences kept literally", lambda s: s.replace("\t", "\\t").replace("\n", "\\n").replace("\r", "\\r")),
         ("escape sequences interpreted", lambda s: s.replace("\\t", "\t").replace("\\n", "\n").replace("\\r", "\r")),
         ("percent-decoded", pct), ("plus as space", lambda s: s.replace("+", " ")),
         ("comment cut at #", lambda s: s.split("#", 1)[0]), ("comment cut at ' #'", lambda s: s.split(" #", 1)[0].rstrip()),
         ("cut at the first blank", lambda s: s.split(" ", 1)[0]), ("cut at the first line end", lambda s: s.splitlines()[0] if s.splitlines() else s),
         ("blanks removed", lambda s: s.replace(" ", "")), ("inner blanks collapsed", lambda s: " ".join(s.split(" ")) if "  " not in s else s.replace("  ", " ")),
         ("first 8 characters", lambda s: s[:8]), ("first 64 characters", lambda s: s[:64]), ("first 72 characters", lambda s: s[:72]),
         ("first 128 characters", lambda s: s[:128]), ("first 255 characters", lambda s: s[:255]),
         ("last character dropped", lambda s: s[:-1]), ("first character dropped", lambda s: s[1:]),
         ("a character appended", lambda s: s + rng.choice("xX0.")), ("doubled", lambda s: s + s),
         ("assignment kept", lambda s: "KESTREL_PASSWORD=" + s), ("dollar expansion", lambda s: s.replace("$$", "$")),
         ("non-ASCII replaced", lambda s: s.encode("ascii", "replace").decode()), ("non-ASCII dropped", lambda s: s.encode("ascii", "ignore").decode()),
         ("Latin-1 bytes read as UTF-8", lambda s: s.encode("utf-8").decode("latin-1")),
         ]
    img = props.kva_hmac_image(w.encode("utf-8"))
    out, seen = [], {w}
    for lab, f in T:
        try:
            v = f(w)
        except (UnicodeError, IndexError):
            continue
        if v in seen or not s2_env_ok(v):
            continue
        if props.kva_hmac_image(v.encode("utf-8")) == img:      # the known finding: not a distinguishable password
            continue
        seen.add(v)
        out.append((lab, v))
    return out


def s2_password_bases(ctx):
    """passwords of many surface shapes (so that each transformation of s2_password_variants has something to act on, in
    both directions: a quoted password has the unquoted one as its neighbour and vice versa)"""
    rng = ctx.rng
    word = "".join(rng.choice("abcdefghijkmnpqrstuvwxyzABCDEFGHJKLMNPQRSTUVWXYZ23456789") for _ in range(rng.randrange(6, 12)))
    long_ = " ".join("".join(rng.choice("abcdefghijklmnopqrstuvwxyz") for _ in range(rng.randrange(3, 9))) for _ in range(14))
    fixed = [word]
    pool = ['"%s"' % word, "'%s'" % word, '"p\u00e4 ss"', '""', "", word + " ", " " + word, word + "\n", word + "\r\n", "\t" + word + "\t",
            "p\u00e4ss w\u00f6rd \u2713", unicodedata.normalize("NFD", "Mot\u00f6rhe\u00e4d \u00e9t\u00e9"), "\ufb01n \u2460 \uff21bc",
            "\ufeff" + word, word + "\\", "back\\slash\\n " + word, "C:\\temp\\" + word, "a b  c   " + word, word + " # not a comment",
            "#" + word, "$HOME/" + word, "$$" + word, "100%41" + word, "one+two " + word, "KESTREL_PASSWORD=" + word, "`" + word + "`",
            word.upper(), word.lower() + "\u00df", long_, long_[:73], "x" * 65 + word, '"' + long_ + '"', word[:3] + '"' + word[3:],
            "\u00a0" + word + "\u00a0", word + "\u200b"]
    return fixed + (pool if ctx.thorough() else rng.sample(pool, 4))


def s2_run_otherpw(w, job, ct=None):
    """a file encrypted under job['pw'] is decrypted under the DIFFERENT password job['other']: exit 1, an Error line,
    nothing on stdout, no (non-empty) output file.  ct: name of an existing ciphertext made under job['pw'] (else made here)."""
    P = s2_bytes(job["p"])
    runs = []
    if ct is None:
        ct = job["id"] + "_ct"
        w.write(job["id"] + "_pt", P)
        if os.path.lexists(w.p(ct)):
            os.remove(w.p(ct))
        r0 = w.run(["password", "encrypt", job["id"] + "_pt", "-o", ct, "--env-pass"], env=pc.env_pw(job["pw"]))
        runs.append(r0)
        if r0.rc != 0:
            return s2_verdict(False, "password encryption under %r succeeds" % job["pw"], "exit %d, stderr %r" % (r0.rc, r0.errtext()[-200:]), runs)
    out = job["id"] + "_out"
    if os.path.lexists(w.p(out)):
        os.remove(w.p(out))
    env = pc.env_pw(job["other"])
    if job["route"] == "o":
        r = w.run(["password", "decrypt", ct, "-o", out, "--env-pass"], env=env)
    elif job["route"] == "stdout":
        r = w.run(["pass", "dec", ct, "--env-pass"], env=env)
    else:
        r = w.run(["password", "decrypt", "--env-pass"], env=env, stdin=("file", ct))
    runs.append(r)
    made = w.read(out)
    what = "file encrypted under KESTREL_PASSWORD=%r, decrypted under the different password %r (%s)" % (job["pw"], job["other"], job["label"])
    if r.rc == 0:
        got = made if job["route"] == "o" else r.out
        return s2_verdict(False, "decryption under any different password fails: exit 1 (%s)" % what,
                          "exit 0, released %s%s" % (s2_show(got), " = the plaintext" if got == P else ""), runs)
    if r.rc != 1 or "Error: " not in r.errtext():
        return s2_verdict(False, "a wrong password is an error (exit 1 with an Error line), never a crash (%s)" % what,
                          "exit %d, stderr %r" % (r.rc, r.errtext()[-200:]), runs)
    if r.out or made:
        return s2_verdict(False, "a refused password releases no plaintext (%s)" % what,
                          "stdout %s, output file %s" % (s2_show(r.out), s2_show(made)), runs)
    return s2_verdict(True, runs=runs)


# =========================================================================== C02 part C: names of the input and the output
S2_EXTS = [".tmp", ".bak", ".part", ".new", ".enc", ".ktl", ".txt", ".old", ".orig", ".swp", ".lock", ".out", ".dec", ".partial", ".temp",
           ".download", ".crdownload", "~", ".tmp~", ""]
S2_STEMS = ["notes", "draft", "my notes", "\u017c\u00f3\u0142\u0107 \u2713", "-dash", ".hidden", "a.b", "x", "UPPER", "report.2024", "tmp", "caf\u00e9",
            "two  blanks", "semi;colon", "star*", "quote'", "percent%41", "tail."]


def s2_run_names(w, job):
    """password encrypt IN -o OUT, then password decrypt OUT -o RT, in a directory of its own that also holds bystander files
    with related names.  After each run: exit 0, the input byte-identical, exactly one new entry (the named output), nothing
    else created / removed / changed; RT == the plaintext.
    job: id, p, pw, inp, out, rt (paths relative to the directory), bystanders [names], dashdash (bool)"""
    P = s2_bytes(job["p"])
    d = w.p(job["id"])
    if os.path.lexists(d):
        shutil.rmtree(d, ignore_errors=True)
    os.makedirs(d)

    def put(rel, data):
        p = os.path.join(d, rel)
        os.makedirs(os.path.dirname(p), exist_ok=True)
        with open(p, "wb") as f:
            f.write(data)
    for i, b in enumerate(job["bystanders"]):
        put(b, ("bystander %d: %s\n" % (i, b)).encode("utf-8") * 3)
    put(job["inp"], P)
    for rel in (job["out"], job["rt"]):
        os.makedirs(os.path.dirname(os.path.join(d, rel)), exist_ok=True)
    env = pc.env_pw(job["pw"])
    runs = []
    what = "in one directory: input '%s' (%d bytes), -o '%s', then decrypt -o '%s'; %d bystander files such as %s" % (
        job["inp"], len(P), job["out"], job["rt"], len(job["bystanders"]), ", ".join("'%s'" % b for b in job["bystanders"][:4]))

    def argv_of(cmd, src, dst):
        if job["dashdash"]:
            return ["password", cmd, "-o", dst, "--env-pass", "--", src]
        return ["password", cmd, src, "-o", dst, "--env-pass"]

    def step(cmd, src, dst, want):
        before = pc.kvc_tree_snapshot(d)
        r, _ = pc.kvc_run(w, argv_of(cmd, src, dst), env=env, cwd=d, stdin=(s2_bytes(job["stdin"]) if job.get("stdin") else None))
        runs.append(r)
        after = pc.kvc_tree_snapshot(d)
        if r.rc != 0:
            return "password %s exits 0" % cmd, "exit %d, stderr %r; directory: %s" % (r.rc, r.errtext()[-200:], "; ".join(pc.kvc_tree_diff(before, after)[:6]) or "unchanged")
        exp = dict(before)
        exp[os.path.normpath(dst)] = ("file", len(want), hashlib.sha256(want).hexdigest()) if want is not None else after.get(os.path.normpath(dst))
        if after != exp or after.get(os.path.normpath(dst), ("",))[0] != "file":
            diff = pc.kvc_tree_diff(exp, after)
            return ("after password %s the only change in the directory is the new file '%s'%s; the input and every bystander are "
                    "byte-identical" % (cmd, dst, " holding the original %d bytes" % len(want) if want is not None else ""),
                    "; ".join(diff[:8]) if diff else "'%s' is not a regular file" % dst)
        return None
    bad = step("encrypt", job["inp"], job["out"], None)
    if bad is None:
        bad = step("decrypt", job["out"], job["rt"], P)
    if bad:
        return s2_verdict(False, bad[0] + " (" + what + ")", bad[1], runs)
    return s2_verdict(True, runs=runs)


def s2_names_jobs(ctx):
    rng = ctx.rng
    full = ctx.thorough()
    jobs = []

    def rel_ok(n):
        b = os.path.basename(n)
        return b not in ("", ".", "..", "-h", "--help") and len(b.encode("utf-8")) < 200

    def add(inp, out, rt, dirs=("", "")):
        inp, out, rt = os.path.join(dirs[0], inp), os.path.join(dirs[1], out), os.path.join(dirs[1], rt)
        if not (rel_ok(inp) and rel_ok(out) and rel_ok(rt)) or len({inp, out, rt}) < 3:
            return
        by = []
        for base in {inp, out, rt}:
            dn, bn = os.path.dirname(base), os.path.basename(base)
            stems = {bn, bn.split(".")[0] or bn, os.path.splitext(bn)[0] or bn}
            if bn.endswith("~"):
                stems.add(bn[:-1])
            for st in stems:
                for e in (S2_EXTS if full else [".tmp", ".bak", ".part", ".new", "~", ".tmp~", ".temp", ".partial", ""] + rng.sample(S2_EXTS, 3)):
                    for cand in (st + e, "." + st + e, st + e.upper()):
                        c = os.path.join(dn, cand)
                        if rel_ok(c) and c not in (inp, out, rt) and c not in by:
                            by.append(c)
        # a path that is a directory prefix of another cannot also be a file
        alln = [inp, out, rt]
        by = [b for b in by if not any(o.startswith(b + "/") for o in alln + by) and not any(b.startswith(o + "/") for o in alln)]
        dash = any(x.startswith("-") for x in (inp, out)) or rng.random() < 0.2     # a free argument with a leading dash needs `--`
        jobs.append({"id": "nm%03d" % len(jobs), "p": s2_pspec(ctx, rng.choice([0, 1, 100, 5000, 70000])), "pw": rng.choice(S2_PASSWORDS[1:4]),
                     "inp": inp, "out": out, "rt": rt, "bystanders": sorted(by), "dashdash": dash})

    def third(stem, a, b):
        e = rng.choice([x for x in S2_EXTS if x not in (a, b)])
        return stem + e
    exts = list(S2_EXTS)
    # same stem, different extension: every extension once as the input's and once as the output's
    k = rng.randrange(1, len(exts))
    for i, e in enumerate(exts):
        stem = rng.choice(S2_STEMS)
        e2 = exts[(i + k) % len(exts)]
        add(stem + e, stem + e2, third(stem, e, e2))
    for _ in range(60 if full else 6):
        stem = rng.choice(S2_STEMS)
        e, e2 = rng.sample(exts, 2)
        add(stem + e, stem + e2, third(stem, e, e2))
    # output = input + suffix, input = output + suffix; the decrypted file = ciphertext name - suffix / + suffix
    sfx = [e for e in exts if e]
    for e in (sfx if full else rng.sample(sfx, 5) + [".tmp"]):
        stem = rng.choice(S2_STEMS) + rng.choice(["", ".txt", ".tar.gz"])
        add(stem, stem + e, stem + e + rng.choice([".dec", ".out", "~"]))
        add(stem + e, stem, stem + rng.choice([".dec", ".out", "~", ".rt"]))
        add(stem + ".x" + e, stem + ".x", stem + ".y")
    # input and output in different directories under the same file name / stem
    for _ in range(12 if full else 4):
        stem = rng.choice(S2_STEMS)
        e, e2 = rng.sample(exts, 2)
        add(stem + e, stem + e2, third(stem, e, e2), dirs=(rng.choice(["a", "in dir", ".d"]), rng.choice(["b", "out.d", "a/sub"])))
        add(stem + e, stem + e2, third(stem, e, e2), dirs=("", "sub"))
    return jobs


def r2_dash_name_jobs(ctx):
    """names with a conventional SECOND meaning in other tools: a file literally called `-` (stdin/stdout elsewhere), `--`, `-o`,
    `.`-relative spellings of them, as the input, as the -o value and as the decrypted file; with and without the `--`
    separator where getopts allows it; standard input the null device or a pipe holding unrelated bytes.  The property is about
    the NAMED file: it is what must be encrypted / decrypted, whatever is on standard input."""
    rng = ctx.rng
    full = ctx.thorough()
    jobs = []

    def add(inp, out, rt, dashdash, stdin):
        n = rng.choice([1, 100, 1000, 5000, 70000])
        if any(x.startswith("-") and x != "-" for x in (inp, out)):
            dashdash = True          # a free argument with a leading dash (other than the lone `-`) needs the separator
        jobs.append({"id": "dn%03d" % len(jobs), "p": s2_pspec(ctx, n), "pw": rng.choice(S2_PASSWORDS[1:4]), "inp": inp, "out": out, "rt": rt,
                     "bystanders": [], "dashdash": dashdash, "stdin": (s2_pspec(ctx, rng.choice([1, 40, 3000])) if stdin else None)})
    triples = [("-", "ct.ktl", "rt.txt"), ("pt.txt", "-", "rt.txt"), ("pt.txt", "ct.ktl", "-"), ("-", "-.ktl", "-.dec"),
               ("./-", "ct.ktl", "rt.txt"), ("-", "./-.ktl", "sub/-")]
    for t in triples:
        for dd in (False, True):
            for sin in (False, True):
                if full or t == triples[0] or rng.random() < 0.5:
                    add(t[0], t[1], t[2], dd, sin)
    # names that need the separator
    for t in [("--", "ct", "rt"), ("-o", "ct", "rt"), ("--env-pass", "ct", "rt"), ("-", "--", "-o")]:
        if full or rng.random() < 0.5:
            add(t[0], t[1], t[2], True, rng.random() < 0.5)
    return jobs


# =========================================================================== C02 driver
def c02_cli_part(self, ctx):
    """C02 on the real `kestrel password encrypt|decrypt --env-pass`"""
    if not os.path.exists(vlib.CLIDRV):
        ctx.broken.append({"kind": "correspondence", "what": "clidrv was not built: command-line half of C02 not checked"})
        return
    w = pc.World(prefix="kvS2_c02_")
    try:
        # A. every length / every delivery
        jobs = s2_roundtrip_jobs(ctx)
        for job, v in zip(jobs, s2_pmap(lambda j: s2_run_roundtrip(w, j), jobs)):
            s2_record(ctx, "roundtrip", job, v, "C02 at the command line: round trip of a %d-byte plaintext (encrypt %s; decrypt %s)"
                      % (job["p"]["len"], s2_route_text(job["enc"]), s2_route_text(job["dec"])))
        # B. different passwords
        bases = s2_password_bases(ctx)
        P = s2_pspec(ctx, ctx.rng.randrange(1, 60))
        encs = []
        for i, b in enumerate(bases):
            w.write("pw%02d_pt" % i, s2_bytes(P))
            encs.append((i, b))
        er = s2_pmap(lambda ib: w.run(["password", "encrypt", "pw%02d_pt" % ib[0], "-o", "pw%02d_ct" % ib[0], "--env-pass"], env=pc.env_pw(ib[1])), encs)
        pjobs = []
        for (i, b), r in zip(encs, er):
            if r.rc != 0:
                s2_record(ctx, "otherpw", {"pw": b}, s2_verdict(False, "password encryption under %r succeeds" % b,
                                                                "exit %d, stderr %r" % (r.rc, r.errtext()[-200:]), [r]), "C02 at the command line: encrypting under a password")
                continue
            # control: the password itself opens the file
            pjobs.append(({"id": "pw%02d_c" % i, "p": P, "pw": b, "other": b, "label": "the same password", "route": "o"}, "pw%02d_ct" % i))
            for k, (lab, v) in enumerate(s2_password_variants(ctx.rng, b)):
                pjobs.append(({"id": "pw%02d_%02d" % (i, k), "p": P, "pw": b, "other": v, "label": lab,
                               "route": ctx.rng.choice(["o", "o", "stdout", "stdin"])}, "pw%02d_ct" % i))

        def one(jc):
            job, ct = jc
            if job["other"] == job["pw"]:
                out = job["id"] + "_out"
                r = w.run(["password", "decrypt", ct, "-o", out, "--env-pass"], env=pc.env_pw(job["pw"]))
                good = r.rc == 0 and w.read(out) == s2_bytes(job["p"])
                return s2_verdict(good, "the same password decrypts to the original bytes", "exit %d, output %s, stderr %r"
                                  % (r.rc, s2_show(w.read(out)), r.errtext()[-160:]), [r])
            return s2_run_otherpw(w, job, ct)
        for (job, ct), v in zip(pjobs, s2_pmap(one, pjobs)):
            s2_record(ctx, "otherpw", job, v, "C02 at the command line: a file encrypted under %r, decrypted under %r (%s)"
                      % (job["pw"], job["other"], job["label"]), nontrivial=job["other"] != job["pw"])
        # C. names
        njobs = s2_names_jobs(ctx)
        for job, v in zip(njobs, s2_pmap(lambda j: s2_run_names(w, j), njobs)):
            s2_record(ctx, "names", job, v, "C02 at the command line: round trip with input '%s', -o '%s', decrypted to '%s'"
                      % (job["inp"], job["out"], job["rt"]))
        # D. file names with a second meaning elsewhere (`-`, `--`, `-o`), stdin null or unrelated bytes
        djobs = r2_dash_name_jobs(ctx)
        for job, v in zip(djobs, s2_pmap(lambda j: s2_run_names(w, j), djobs)):
            s2_record(ctx, "names", job, v, "C02 at the command line: round trip with input '%s', -o '%s', decrypted to '%s'%s, stdin %s"
                      % (job["inp"], job["out"], job["rt"], " after `--`" if job["dashdash"] else "",
                         "a pipe with %d unrelated bytes" % job["stdin"]["len"] if job["stdin"] else "the null device"))
        if len(ctx.samples) < 10:
            ctx.samples.append({"cli": "kestrel password encrypt|decrypt --env-pass", "round_trips": len(jobs), "passwords": len(bases),
                                "different_password_runs": len(pjobs), "name_pairs": len(njobs), "processes": w.nruns})
    finally:
        w.close()


# =========================================================================== C10: output that cannot be delivered, all four commands
S2_RLIMIT_CODE = ("import os,resource,signal,sys\n"
                  "signal.signal(signal.SIGXFSZ, signal.SIG_IGN)\n"
                  "resource.setrlimit(resource.RLIMIT_FSIZE, (int(sys.argv[1]), int(sys.argv[1])))\n"
                  "os.execv(sys.argv[2], sys.argv[2:])\n")


class S2KeyWorld(pc.World):
    """two keys made by the CLI (alice = sender, bob = recipient) in one keyring `kr`"""

    def setup(self, ctx):
        self.pw = {"alice": "pw-alice", "bob": "b\u00f6b \u2713"}
        self.passpw = "p\u00e4ss"
        blocks = []
        for n in ("alice", "bob"):
            r = pc.gen_key(self, n, self.pw[n])
            if r.rc != 0:
                raise RuntimeError("key generate failed: " + r.errtext())
            blocks.append(r.out)
        self.write("kr", b"\n".join(blocks))
        self.full_dev = vlib.private_special(self.dir, "full")      # a character device 1:7 of our own, never /dev/full
        os.makedirs(self.p("a_directory"), exist_ok=True)

    def command(self, cmd, infile, outfile):
        """argv and environment of one of the four file commands; infile / outfile None = stdin / stdout"""
        io = ([infile] if infile else []) + (["-o", outfile] if outfile else [])
        if cmd == "encrypt":
            return ["encrypt"] + io + ["-t", "bob", "-f", "alice", "-k", "kr", "--env-pass"], pc.env_pw(self.pw["alice"])
        if cmd == "decrypt":
            return ["decrypt"] + io + ["-t", "bob", "-k", "kr", "--env-pass"], pc.env_pw(self.pw["bob"])
        if cmd == "password encrypt":
            return ["password", "encrypt"] + io + ["--env-pass"], pc.env_pw(self.passpw)
        return ["password", "decrypt"] + io + ["--env-pass"], pc.env_pw(self.passpw)

    def material(self, n, seed):
        """plaintext of n bytes and its two fault-free encryptions (made once per size): names (pt, ct, pct) or an error Run"""
        names = ("pt_%d" % n, "ct_%d" % n, "pct_%d" % n)
        if self.read(names[2]) is not None and self.read(names[1]) is not None:
            return names, None
        self.write(names[0], s2_bytes({"len": n, "seed": seed}))
        for cmd, out in (("encrypt", names[1]), ("password encrypt", names[2])):
            argv, env = self.command(cmd, names[0], out)
            r = self.run(argv, env=env)
            if r.rc != 0:
                return names, r
        return names, None


def s2_run_iofail(w, job):
    """one command whose output cannot (completely) be delivered.
    job: id, cmd, n (plaintext bytes), seed, mode: 'full' (-o a full device) | 'closed' (stdout = pipe without reader) |
    'rlimit' (-o a file, RLIMIT_FSIZE = job['limit'], SIGXFSZ ignored) | 'isdir' (-o names a directory) |
    'nodir' (-o inside a missing directory) | 'indir' (the INPUT is a directory: a failing read)"""
    (pt, ct, pct), bad = w.material(job["n"], job["seed"])
    if bad is not None:
        return s2_verdict(False, "fault-free encryption of %d bytes succeeds" % job["n"], "exit %d, stderr %r" % (bad.rc, bad.errtext()[-200:]), [bad])
    cmd, mode = job["cmd"], job["mode"]
    P = w.read(pt)
    infile = {"encrypt": pt, "password encrypt": pt, "decrypt": ct, "password decrypt": pct}[cmd]
    is_dec = cmd.endswith("decrypt")
    # the fault-free output: the plaintext (decrypt) / something as long as the reference file (encrypt: fresh salt / ephemeral key)
    full_len = len(P) if is_dec else len(w.read(ct if cmd == "encrypt" else pct))
    out = None
    limit = None
    if mode == "full":
        out = w.full_dev
    elif mode == "rlimit":
        out = job["id"] + "_out"
        # 'short' = how many bytes of the complete output do NOT fit (0 = control: everything fits exactly)
        limit = max(0, full_len - job["short"]) if job.get("short") is not None else job["limit"]
    elif mode == "isdir":
        out = "a_directory"
    elif mode == "nodir":
        out = "no_such_directory/out"
    elif mode == "indir":
        out = job["id"] + "_out"
        infile = "a_directory"
    if out and mode in ("rlimit", "indir") and os.path.lexists(w.p(out)):
        os.remove(w.p(out))
    argv, env = w.command(cmd, infile, out)
    side = "read" if mode == "indir" else "write"
    if mode == "closed":
        r_, wr = os.pipe()
        os.close(r_)                              # no reader from the start: every write fails with EPIPE
        fo = os.fdopen(wr, "wb", buffering=0)
        try:
            r, _ = pc.kvc_run(w, argv, env=env, stdout=fo)
        finally:
            fo.close()
    elif mode == "rlimit":
        w2 = pc.World.__new__(pc.World)
        w2.__dict__.update(w.__dict__)
        w2.bin = sys.executable
        r, _ = pc.kvc_run(w2, ["-c", S2_RLIMIT_CODE, str(limit), w.bin] + argv, env=env, cwd=w.dir)
        w.nruns += 1
        r.argv = argv
        r.env = dict(r.env, **{"(process limits)": "RLIMIT_FSIZE=%d bytes, SIGXFSZ ignored" % limit})
    else:
        r = w.run(argv, env=env)
    made = w.read(out) if mode in ("rlimit", "indir") else None
    what = "%s of %d bytes (complete output: %d bytes), %s" % (cmd, job["n"], full_len, {
        "full": "-o a full device (every write fails with ENOSPC)", "closed": "standard output a pipe nobody reads (EPIPE)",
        "rlimit": "-o a file that may not grow beyond %s bytes (EFBIG)" % limit, "isdir": "-o names a directory",
        "nodir": "-o inside a directory that does not exist", "indir": "the input is a directory (every read fails with EISDIR)"}[mode])
    runs = [r]
    if not s2_clean_exit(r):
        return s2_verdict(False, "an I/O failure is an error (exit 1), never a panic / abort / signal (%s)" % what,
                          "exit %d, stderr %r" % (r.rc, r.errtext()[-200:]), runs)
    must_fail = (mode in ("isdir", "nodir", "indir")) or (mode in ("full", "closed") and full_len > 0) or (mode == "rlimit" and limit < full_len)
    err_line = [l for l in r.errtext().splitlines() if l.startswith("Error: ")]
    if must_fail:
        if r.rc != 1 or not err_line:
            return s2_verdict(False, "the complete output cannot have arrived: exit 1 with an Error line, never success (%s)" % what,
                              "exit %d, stderr %r%s" % (r.rc, r.errtext()[-200:], ", file holds %s" % s2_show(made) if mode == "rlimit" else ""), runs)
        if side not in err_line[0].lower():
            return s2_verdict(False, "the error identifies the failing side: a %s failure (%s)" % (side, what), err_line[0], runs)
    else:
        # nothing had to be written, or everything fitted: the run must succeed and deliver everything
        if r.rc != 0:
            return s2_verdict(False, "no write failed: exit 0 (%s)" % what, "exit %d, stderr %r" % (r.rc, r.errtext()[-200:]), runs)
        if mode == "rlimit" and ((made or b"") != P if is_dec else len(made or b"") != full_len):
            return s2_verdict(False, "exit 0 means the complete output was written (%s)" % what, "file holds %s" % s2_show(made), runs)
    if mode == "rlimit" and made is not None:
        if len(made) > limit or (is_dec and not P.startswith(made)):
            return s2_verdict(False, "what has been written is a prefix of the fault-free output (%s)" % what, "file holds %s" % s2_show(made), runs)
    if mode == "indir" and made:
        # no byte of the input was obtained: a decryptor has released nothing, an encryptor has written at most its header
        # (which precedes the first read and is a prefix of every fault-free output)
        hdr = {"encrypt": 132, "password encrypt": 36}.get(cmd, 0)
        if len(made) > hdr:
            return s2_verdict(False, "when the first read fails nothing beyond the %d-byte header has been written (%s)" % (hdr, what),
                              "file holds %s" % s2_show(made), runs)
    return s2_verdict(True, runs=runs)


S2_CMDS = ["encrypt", "decrypt", "password encrypt", "password decrypt"]


def s2_iofail_jobs(ctx, w):
    rng = ctx.rng
    full = ctx.thorough()
    jobs = []
    seeds = {}
    OVER = {"encrypt": 132 + 32, "password encrypt": 36 + 32}

    def add(cmd, n, mode, short=None):
        seeds.setdefault(n, rng.getrandbits(48))
        jobs.append({"id": "io%03d" % len(jobs), "cmd": cmd, "n": n, "seed": seeds[n], "mode": mode, "short": short})
    big = [65536, 65537, 65536 + 8192 - 40, rng.randrange(66000, 300000)] + ([131072, 2 * 65536 + 100, 1 << 20] if full else [])
    targets = [0, 1, 100, 8191, 8192, 8193] + ([4096, 8190, 8194, 16384, 65535] if full else [rng.choice([1023, 1024, 1025, 4096, 16384])])
    for cmd in S2_CMDS:
        if cmd.endswith("decrypt"):
            sizes = targets + big                              # the output IS the plaintext
        else:
            # plaintext lengths that make the OUTPUT (header + one record) 8191 / 8192 / 8193 .. bytes long
            sizes = sorted(set([0, 1, 100] + [t - OVER[cmd] for t in targets if t > OVER[cmd]])) + big
        for n in sizes:
            some_output = n > 0 or not cmd.endswith("decrypt")
            if w.full_dev:
                add(cmd, n, "full")
            add(cmd, n, "closed")
            if some_output:
                add(cmd, n, "rlimit", 1)                       # only the last byte does not fit ("the disk fills up at the very end")
                add(cmd, n, "rlimit", rng.choice([1 << 30, rng.randrange(1, n + 2), rng.randrange(1, 40)]))
            if full or n in (0, 100, 8192 - OVER.get(cmd, 0), big[1]):
                add(cmd, n, "rlimit", 0)                       # control: everything fits exactly
        for mode in ("isdir", "nodir", "indir"):
            add(cmd, rng.choice([0, 100]), mode)
    return jobs


def c10_cli_part(self, ctx):
    """C10 on the real binary: encrypt, decrypt, password encrypt, password decrypt with outputs of 0 .. >65536 bytes going to a
    full device, a pipe without reader, a file under RLIMIT_FSIZE; -o a directory / in a missing directory; input a directory"""
    if not os.path.exists(vlib.CLIDRV):
        ctx.broken.append({"kind": "correspondence", "what": "clidrv was not built: command-line half of C10 not checked"})
        return
    w = S2KeyWorld(prefix="kvS2_c10_")
    try:
        w.setup(ctx)
        if not w.full_dev:
            ctx.distribution["cli:iofail:no-private-full-device"] = 1
        jobs = s2_iofail_jobs(ctx, w)
        # the reference material first (one plaintext + two encryptions per size), then the failing runs in parallel
        need = sorted(set((j["n"], j["seed"]) for j in jobs))
        s2_pmap(lambda ns: w.material(*ns), need)
        for job, v in zip(jobs, s2_pmap(lambda j: s2_run_iofail(w, j), jobs)):
            s2_record(ctx, "iofail", job, v, "C10 at the command line: %s of %d bytes, output mode %s%s"
                      % (job["cmd"], job["n"], job["mode"], "" if job.get("short") is None else " (%d bytes of the output do not fit)" % job["short"]),
                      nontrivial=True)
            ctx.distribution["cli:iofail:" + job["mode"]] = ctx.distribution.get("cli:iofail:" + job["mode"], 0) + 1
        if len(ctx.samples) < 10:
            ctx.samples.append({"cli": "four file commands, undeliverable output", "runs": len(jobs), "processes": w.nruns,
                                "modes": sorted(set(j["mode"] for j in jobs))})
    finally:
        w.close()


# =========================================================================== C06: the command line and the library write/read ONE format
R2_TEXT_PASSWORDS = ["hunter2", "caf\u00e9", "caf\u01e9", "\u00ff", "\u0100", "p\u00e4ss w\u00f6rd \u2713", "\u043f\u0430\u0440\u043e\u043b\u044c",
                     "\u5bc6\u7801", "\U0001f511 key", "na\u00efve \u00a3\u20ac", "\u00e9" * 33, "\u05e9\u05dc\u05d5\u05dd"]


def r2_text_password(rng):
    """a random text password mixing ASCII with code points from U+0080..U+00FF (one byte when narrowed), U+0100..U+07FF,
    the rest of the BMP and beyond"""
    pools = [(0x21, 0x7e), (0x21, 0x7e), (0xa1, 0xff), (0x100, 0x7ff), (0x800, 0xd7ff), (0xe000, 0xfffd), (0x10000, 0x1ffff)]
    out = []
    for _ in range(rng.randrange(1, 12)):
        lo, hi = rng.choice(pools)
        out.append(chr(rng.randrange(lo, hi + 1)))
    return "".join(out)


def r2_run_crossfmt(w, job):
    """job: id, p, pw (text), parts (chunking of the reference-written file).
    (a) `kestrel password encrypt --env-pass` writes F: F must be, byte for byte, the documented format for the UTF-8 bytes of the
    password (independent Python writer: OpenSSL scrypt + RFC 8439 transcription), with F's own salt;
    (b) a reference-written file (same password bytes, chunked as job['parts']) must be decrypted by `kestrel password decrypt`."""
    P = s2_bytes(job["p"])
    pwb = job["pw"].encode("utf-8")
    env = pc.env_pw(job["pw"])
    tag = job["id"]
    runs = []
    w.write(tag + "_pt", P)
    r1 = w.run(["password", "encrypt", tag + "_pt", "-o", tag + "_ct", "--env-pass"], env=env)
    runs.append(r1)
    F = w.read(tag + "_ct")
    what = "password %r = UTF-8 %s, %d-byte plaintext" % (job["pw"], pwb.hex(), len(P))
    if r1.rc != 0 or F is None or len(F) < 36:
        return s2_verdict(False, "password encryption succeeds (%s)" % what, "exit %d, file %s, stderr %r" % (r1.rc, s2_show(F), r1.errtext()[-200:]), runs)
    ref = props.r2_ref_pass_file(pwb, F[4:36], [P] if P else [])
    if ref is not None and ref != F:
        return s2_verdict(False, "the file written by `kestrel password encrypt` is the documented format for the password's UTF-8 bytes and the "
                          "file's salt: magic, salt, chunks under scrypt(password, salt, 32768, 8, 1) (%s): %s" % (what, s2_show(ref, 60)),
                          "%s; first difference at byte %d" % (s2_show(F, 60), s2_first_diff(F, ref)), runs)
    salt = random.Random(job["p"]["seed"] ^ 0x5a17).randbytes(32)
    G = props.r2_ref_pass_file(pwb, salt, props.r2_pieces(P, job["parts"]))
    if G is not None:
        w.write(tag + "_ref", G)
        r2 = w.run(["password", "decrypt", tag + "_ref", "-o", tag + "_rt", "--env-pass"], env=env)
        runs.append(r2)
        R = w.read(tag + "_rt")
        if r2.rc != 0 or R != P:
            return s2_verdict(False, "`kestrel password decrypt` opens a conforming file written by the reference writer under the same password, "
                              "chunks of %s bytes (%s)" % ("/".join(map(str, job["parts"])) or "0", what),
                              "exit %d, output %s, stderr %r" % (r2.rc, s2_show(R), r2.errtext()[-200:]), runs)
    return s2_verdict(True, runs=runs)


def r2_c06_cli_part(self, ctx):
    """C06 across entry points: files written by the real `kestrel password encrypt` are compared byte for byte with the
    independent reference writer and handed to the LIBRARY and the Gallina model (pass_decrypt / pass_encrypt with the file's
    salt, password = UTF-8 bytes); reference-written files go to `kestrel password decrypt`.  Passwords: ASCII, Latin-1 range,
    U+0100.., other scripts, astral, random mixtures."""
    if not os.path.exists(vlib.CLIDRV):
        ctx.broken.append({"kind": "correspondence", "what": "clidrv was not built: command-line half of C06 not checked"})
        return
    rng = ctx.rng
    full = ctx.thorough()
    w = pc.World(prefix="kvR2_c06_")
    try:
        pws = list(R2_TEXT_PASSWORDS) if full else R2_TEXT_PASSWORDS[:3] + rng.sample(R2_TEXT_PASSWORDS[3:], 3)
        pws += [r2_text_password(rng) for _ in range(12 if full else 3)]
        jobs = []
        for pw in pws:
            if not s2_env_ok(pw):
                continue
            n = rng.choice([0, 1, 2, 17, 100, rng.randrange(2, 400)])
            parts = props.r2_short_partition(rng, n, 65536, pieces=rng.choice([2, 3])) if n >= 3 else ([n] if n else [])
            jobs.append({"id": "xf%03d" % len(jobs), "p": s2_pspec(ctx, n), "pw": pw, "parts": parts})
        for job, v in zip(jobs, s2_pmap(lambda j: r2_run_crossfmt(w, j), jobs)):
            s2_record(ctx, "crossfmt", job, v, "C06 across entry points: `kestrel password encrypt` under %r compared with the reference writer; "
                      "a reference-written file given to `kestrel password decrypt`" % job["pw"])
        # the same CLI-written files through the library and the model
        cases = []
        for job in jobs:
            F = w.read(job["id"] + "_ct")
            if F is None or len(F) < 36:
                continue
            P, pwb = s2_bytes(job["p"]), job["pw"].encode("utf-8")
            cases.append(vlib.Case("pass_dec", pw=pwb, data=F, rs=rng.choice(["-", "c1,c1,c1,c1,c1", "c36,c16,c7"]),
                                   oracle=props.ok_eq(P, "a file written by `kestrel password encrypt` under %r decrypts in the library under the "
                                                      "password's UTF-8 bytes %s" % (job["pw"], pwb.hex())),
                                   tags=["cli-written-file", "dec"]))

            def same(res, F=F, job=job, pwb=pwb):
                if res["code"] != 0 or res["out"] != F:
                    return ("pass_encrypt with the salt of the command line's file and the UTF-8 bytes %s of %r writes the same %d bytes as the "
                            "command line did" % (pwb.hex(), job["pw"], len(F)),
                            res["outcome"] + " first difference at byte %d" % s2_first_diff(res["out"], F))
                return None
            cases.append(vlib.Case("pass_enc", pw=pwb, salt=F[4:36], data=P, oracle=same, tags=["cli-written-file", "enc"]))
        self.run_cases(ctx, cases, model=True)
    finally:
        w.close()


# =========================================================================== replay of a stored job
def s2_replay(ctx, payload):
    d = payload["input"]
    part, job = d.get("s2_part"), d.get("s2_job")
    if not part or not job or "id" not in job:
        return {"holds": None, "note": "process-level case: re-run the listed commands", "commands": d.get("commands")}
    if part == "iofail":
        w = S2KeyWorld(prefix="kvS2_replay_")
    else:
        w = pc.World(prefix="kvS2_replay_")
    try:
        if part == "iofail":
            w.setup(ctx)
            v = s2_run_iofail(w, job)
        elif part == "roundtrip":
            v = s2_run_roundtrip(w, job)
        elif part == "otherpw":
            v = s2_run_otherpw(w, job)
        elif part == "crossfmt":
            v = r2_run_crossfmt(w, job)
        else:
            v = s2_run_names(w, job)
    finally:
        w.close()
    return {"holds": v["ok"], "expected": v["expected"] or payload.get("expected"), "observed": v["observed"], "commands": v["commands"]}
