#!/bin/bash
# regenerates coq/_CoqProject (all .v files except Run/cases and scratch) and the Makefile
cd "$(dirname "$0")/../coq" || exit 1
{ echo "-Q . Kestrel"; find . -name '*.v' ! -path './Run/cases/*' ! -name 'Tmp_show_*' | sed 's|^\./||' | sort; } > _CoqProject.new
if ! cmp -s _CoqProject.new _CoqProject; then mv _CoqProject.new _CoqProject; coq_makefile -f _CoqProject -o Makefile >/dev/null; else rm _CoqProject.new; [ -f Makefile ] || coq_makefile -f _CoqProject -o Makefile >/dev/null; fi
