#!/usr/bin/env python3
"""mutation runner for the checks of tools/props_misc.py (testing aid, not used by ./check).

  tools/mutate_misc.py --setup        copies /repo to /tmp/kv_M_repo and this project to /tmp/kv_M_mut with the
                                      harness Cargo.tomls pointing at the copy (the harness hard-codes /repo paths)
  tools/mutate_misc.py <name> [tier]  applies one named source mutation to the copy, runs ./check there (env
                                      KESTREL_REPO / KESTREL_CLI_DIR / KESTREL_LOCK / KESTREL_VERIF_TARGET), prints the
                                      verdict, the first violation payloads and a --replay of the first, restores the file
  tools/mutate_misc.py --list
/repo and the project itself are never modified.  Remove /tmp/kv_M_repo /tmp/kv_M_mut /tmp/kv_M_target_mut afterwards."""
import json, os, shutil, subprocess, sys, glob

MUT = {
    # ---- C07
    "c07_const_payload": ("C07", "src/crypto/src/encrypt.rs", "&PayloadKey::new(secure_random(32).as_slice())", "&PayloadKey::new(&[7u8; 32])"),
    "c07_draw_order": ("C07", "src/crypto/src/encrypt.rs",
                       "    let payload_key = if let Some(pk) = payload_key {",
                       "    let _burn = secure_random(1);\n    let payload_key = if let Some(pk) = payload_key {"),
    "c07_nonce_skip": ("C07", "src/crypto/src/encrypt.rs", "chunk_number += 1;", "chunk_number += 2;"),
    "c07_nonce_const": ("C07", "src/crypto/src/encrypt.rs", "let ct = chapoly_encrypt_noise(&key, chunk_number,", "let ct = chapoly_encrypt_noise(&key, chunk_number & 1,"),
    "c07_cli_salt": ("C07", "src/cli/src/commands.rs",
                     "    let salt: [u8; 32] = kestrel_crypto::secure_random(32).try_into().unwrap();\n    if let Err(e) = encrypt::pass_encrypt(",
                     "    let salt: [u8; 32] = [9u8; 32];\n    if let Err(e) = encrypt::pass_encrypt("),
    "c07_eph_from_sender": ("C07", "src/crypto/src/noise.rs", "let ephem_private_key = PrivateKey::generate();",
                            "let ephem_private_key = self.s.as_ref().unwrap().private_key.clone();"),
    # ---- C08
    "c08_sender_clear": ("C08", "src/crypto/src/encrypt.rs", "    ciphertext.write_all(&PROLOGUE).map_err(write_err)?;\n    ciphertext\n        .write_all(&noise_message.ciphertext)",
                         "    ciphertext.write_all(&PROLOGUE).map_err(write_err)?;\n    ciphertext.write_all(sender_public.as_bytes()).map_err(write_err)?;\n    ciphertext\n        .write_all(&noise_message.ciphertext)"),
    "c08_pad": ("C08", "src/crypto/src/encrypt.rs", "let ct = chapoly_encrypt_noise(&key, chunk_number, &auth_data, &prev[..prev_read]);",
                "let mut ct = chapoly_encrypt_noise(&key, chunk_number, &auth_data, &prev[..prev_read]);\n        if key[0] & 1 == 1 { ct.push(0); }"),
    "c08_flag_leak": ("C08", "src/crypto/src/encrypt.rs", "chunk_header[..8].copy_from_slice(&chunk_number.to_be_bytes());",
                      "chunk_header[..8].copy_from_slice(&chunk_number.to_be_bytes());\n        chunk_header[0] = key[0];"),
    "c08_cli_name": ("C08", "src/cli/src/commands.rs", "    eprint!(\"Encrypting...\");\n    if let Err(e) = encrypt::key_encrypt(",
                     "    ciphertext.write_all(from.as_bytes())?;\n    eprint!(\"Encrypting...\");\n    if let Err(e) = encrypt::key_encrypt("),
    # ---- C11
    "c11_slurp_enc": ("C11", "src/crypto/src/encrypt.rs", "    let chunk_size: usize = chunk_size.try_into().unwrap();\n    let mut chunk_number: u64 = 0;",
                      "    let mut all = Vec::new();\n    plaintext.read_to_end(&mut all).map_err(read_err)?;\n    let mut plaintext = std::io::Cursor::new(all);\n    let plaintext = &mut plaintext;\n    let chunk_size: usize = chunk_size.try_into().unwrap();\n    let mut chunk_number: u64 = 0;"),
    "c11_buffer_dec": ("C11", "src/crypto/src/decrypt.rs", "    let mut chunk_number: u64 = 0;\n    let mut done = false;\n    let cs: usize",
                       "    let mut sink = Vec::new();\n    let real_plaintext = plaintext;\n    let plaintext = &mut sink;\n    let r = (|| -> Result<(), DecryptError> {\n    let mut chunk_number: u64 = 0;\n    let mut done = false;\n    let cs: usize",
                       "        chunk_number += 1;\n    }\n\n    Ok(())\n}\n\n/// Verification hook: exposes the private chunk decryptor",
                       "        chunk_number += 1;\n    }\n    Ok(()) })();\n    real_plaintext.write_all(&sink).map_err(write_err)?;\n    r\n}\n\n/// Verification hook: exposes the private chunk decryptor"),
    "c11_leak_enc": ("C11", "src/crypto/src/encrypt.rs", "        ciphertext.write_all(ct.as_slice()).map_err(write_err)?;",
                     "        ciphertext.write_all(ct.as_slice()).map_err(write_err)?;\n        std::mem::forget(ct);"),
    # ---- C18
    "c18_rot": ("C18", "src/crypto/src/scrypt.rs", "\t\tx13 ^= x12.wrapping_add(x15).rotate_left(9);", "\t\tx13 ^= x12.wrapping_add(x15).rotate_left(8);"),
    "c18_p_loop": ("C18", "src/crypto/src/scrypt.rs", "    for i in 0..p {\n        smix(&mut b[i * 128 * r..]", "    for i in 0..p.min(2) {\n        smix(&mut b[i * 128 * r..]"),
    "c18_ffi_swap": ("C18", "src/ffi/src/lib.rs", "let dk = ktl_scrypt(kpass, ksalt, n, r, p, kderived_key.len());", "let dk = ktl_scrypt(kpass, ksalt, n, p, r, kderived_key.len());"),
    "c18_ffi_overrun": ("C18", "src/ffi/src/lib.rs", "    let kderived_key = std::slice::from_raw_parts_mut(derived_key, dk_len);\n",
                        "    let kderived_key = std::slice::from_raw_parts_mut(derived_key, dk_len);\n    if dk_len == 33 { *derived_key.add(dk_len) = 0; }\n"),
    "c18_integerify": ("C18", "src/crypto/src/scrypt.rs", "let j = (2 * r - 1) * 16;\n    u64::from(b[j]) | u64::from(b[j + 1]) << 32", "let j = (2 * r - 2) * 16;\n    u64::from(b[j]) | u64::from(b[j + 1]) << 32"),
    # ---- C20
    "c20_no_drop_priv": ("C20", "src/crypto/src/lib.rs", "impl Drop for PrivateKey {\n    fn drop(&mut self) {\n        self.zeroize();", "impl Drop for PrivateKey {\n    fn drop(&mut self) {\n        let _ = &self.key;"),
    "c20_zero_copy": ("C20", "src/crypto/src/lib.rs", "impl Zeroize for PayloadKey {\n    fn zeroize(&mut self) {\n        self.key.zeroize();", "impl Zeroize for PayloadKey {\n    fn zeroize(&mut self) {\n        let mut k = self.key;\n        k.zeroize();"),
    "c20_partial": ("C20", "src/crypto/src/lib.rs", "        self.key.as_mut_slice().zeroize();", "        self.key.as_mut_slice()[..31].zeroize();"),
}


def setup():
    here = os.path.normpath(os.path.join(os.path.dirname(os.path.abspath(__file__)), ".."))
    shutil.rmtree("/tmp/kv_M_repo", ignore_errors=True)
    os.makedirs("/tmp/kv_M_repo")
    shutil.copytree("/repo/src", "/tmp/kv_M_repo/src")
    for f in ("Cargo.lock", "Cargo.toml"):
        shutil.copy(os.path.join("/repo", f), "/tmp/kv_M_repo/" + f)
    subprocess.run(["rsync", "-a", "--delete", "--exclude", ".cache", here + "/", "/tmp/kv_M_mut/"], check=True)
    for c in ("libdrv", "clidrv", "ffidrv"):
        p = "/tmp/kv_M_mut/harness/%s/Cargo.toml" % c
        txt = open(p).read().replace("/repo/", "/tmp/kv_M_repo/")
        open(p, "w").write(txt)
    print("setup done")


def main():
    if sys.argv[1] == "--setup":
        return setup()
    if sys.argv[1] == "--list":
        for k, v in MUT.items():
            print(k, v[0], v[1])
        return
    name = sys.argv[1]
    tier = sys.argv[2] if len(sys.argv) > 2 else "quick"
    spec = MUT[name]
    prop, rel = spec[0], spec[1]
    path = os.path.join("/tmp/kv_M_repo", rel)
    shutil.copy(os.path.join("/repo", rel), path)
    s = open(path).read()
    pairs = list(zip(spec[2::2], spec[3::2]))
    for old, new in pairs:
        assert s.count(old) == 1, (name, "pattern occurs %d times" % s.count(old), old[:60])
        s = s.replace(old, new)
    open(path, "w").write(s)
    for f in glob.glob("/tmp/kv_M_mut/replays/%s-*.json" % prop):
        os.remove(f)
    env = dict(os.environ, KESTREL_REPO="/tmp/kv_M_repo", KESTREL_CLI_DIR="/tmp/kv_M_repo/src/cli", KESTREL_LOCK="/tmp/kv_M_repo/Cargo.lock",
               KESTREL_VERIF_TARGET="/tmp/kv_M_target_mut")
    try:
        p = subprocess.run(["./check", prop, tier], cwd="/tmp/kv_M_mut", env=env, stdout=subprocess.PIPE, stderr=subprocess.STDOUT, text=True, timeout=3000)
        print("== %s (%s %s): rc=%d" % (name, prop, tier, p.returncode))
        print("\n".join(p.stdout.splitlines()[-6:]))
        files = sorted(glob.glob("/tmp/kv_M_mut/replays/%s-*.json" % prop), key=os.path.getmtime)
        print("   %d replay files" % len(files))
        for f in files[:2]:
            d = json.load(open(f))
            print("   ", json.dumps({k: (str(v)[:260]) for k, v in d.items() if k in ("kind", "expected", "observed", "broken")}))
            inp = d.get("input")
            if inp:
                print("    input:", json.dumps(inp)[:300])
        if files and json.load(open(files[0])).get("kind") == "failing-input":
            q = subprocess.run(["./check", prop, "--replay", files[0]], cwd="/tmp/kv_M_mut", env=env, stdout=subprocess.PIPE, stderr=subprocess.STDOUT, text=True, timeout=600)
            print("    replay rc=%d: %s" % (q.returncode, q.stdout[-300:].replace("\n", " ")))
    finally:
        shutil.copy(os.path.join("/repo", rel), path)


if __name__ == "__main__":
    main()
