#!/usr/bin/env python3
"""ffidrv/call.py -- drives the C entry point `scrypt` of the kestrel FFI library.

usage: call.py [--nofork] [path/to/libkestrel_ffi_verif.so]
       (default: $CARGO_TARGET_DIR/debug/libkestrel_ffi_verif.so)

stdin : one JSON object per line
          {"id": .., "pw": <hex>, "salt": <hex>, "n": int, "r": int, "p": int,
           "dklen": int, "guard": int}
stdout: one JSON object per line
          {"id": .., "out": <hex of the dklen output bytes>, "guard_ok": bool}
        or, when the library killed the process (a Rust panic cannot unwind through
        extern "C": it aborts), {"id": .., "crash": "SIGABRT", "stderr": "..."}
        or {"id": .., "error": "..."} for a malformed request.

The output buffer is `guard` bytes of 0xA5, then dklen bytes pre-filled with 0x5A, then
`guard` bytes of 0xA5; guard_ok says that both guard zones are intact after the call.
Optional "alias": "salt" | "pw" and "alias_off": k place the OUTPUT region inside the salt / password buffer (k bytes
into it): in-place use; the reply then also has "rest_ok" (bytes of that buffer outside the output range unchanged).
Each case runs in a forked child so that an abort does not end the run (--nofork disables
that).  Hex strings may be "" or "-" for empty.
Call SEQUENCES: {"id": .., "seq": [<request>, <request>, ...]} executes the requests IN ORDER in ONE process (one
forked child, the library loaded once): whatever the library remembers from one call to the next is in effect.  Reply:
{"id": .., "seq": [<reply>, <reply>, ...]} (or one "crash" reply for the whole sequence).
With "partial": true in the sequence request every reply is handed to the parent as soon as its call has returned; when the
library kills the process in call k, the crash reply carries "seq_partial": [<reply 0>, .., <reply k-1>].
"""
import ctypes
import json
import os
import signal
import sys

GUARD = 0xA5
FILL = 0x5A


def unhex(s):
    return b"" if s in ("", "-") else bytes.fromhex(s)


def load(path):
    lib = ctypes.CDLL(path)
    f = lib.scrypt
    f.restype = None
    f.argtypes = [
        ctypes.c_void_p, ctypes.c_size_t,   # password, password_len
        ctypes.c_void_p, ctypes.c_size_t,   # salt, salt_len
        ctypes.c_uint, ctypes.c_uint, ctypes.c_uint,  # n, r, p
        ctypes.c_void_p, ctypes.c_size_t,   # derived_key, dk_len
    ]
    return f


def run_alias(f, req):
    """in-place use: the output region lies INSIDE the salt ("alias": "salt") or password ("alias": "pw") buffer,
    starting `alias_off` bytes into it.  One arena: guard | region | guard, region = max(len(src), off + dklen) bytes
    holding src followed by 0x5A filler.  Reply adds "rest_ok": the region's bytes outside the output range are unchanged."""
    pw = unhex(req["pw"])
    salt = unhex(req["salt"])
    dklen = int(req["dklen"])
    guard = int(req.get("guard", 16))
    which = req["alias"]
    off = int(req.get("alias_off", 0))
    src = salt if which == "salt" else pw
    rlen = max(len(src), off + dklen)
    region = src + bytes([FILL]) * (rlen - len(src))
    total = guard + rlen + guard
    arena = (ctypes.c_ubyte * (total + 1))()
    init = bytes([GUARD]) * guard + region + bytes([GUARD]) * guard + b"\0"
    ctypes.memmove(arena, init, total + 1)
    base = ctypes.addressof(arena)
    other = ctypes.create_string_buffer(pw if which == "salt" else salt, len(pw if which == "salt" else salt) + 1)
    if which == "salt":
        f(ctypes.addressof(other), len(pw), base + guard, len(salt), int(req["n"]), int(req["r"]), int(req["p"]), base + guard + off, dklen)
    else:
        f(base + guard, len(pw), ctypes.addressof(other), len(salt), int(req["n"]), int(req["r"]), int(req["p"]), base + guard + off, dklen)
    after = bytes(arena)[:total]
    out = after[guard + off:guard + off + dklen]
    ok = after[:guard] == bytes([GUARD]) * guard and after[guard + rlen:] == bytes([GUARD]) * guard
    reg = after[guard:guard + rlen]
    rest_ok = reg[:off] == region[:off] and reg[off + dklen:] == region[off + dklen:]
    return {"id": req.get("id"), "out": out.hex(), "guard_ok": ok, "rest_ok": rest_ok}


def run_case(f, req):
    if req.get("alias") in ("salt", "pw"):
        return run_alias(f, req)
    pw = unhex(req["pw"])
    salt = unhex(req["salt"])
    dklen = int(req["dklen"])
    guard = int(req.get("guard", 16))
    # +1: never hand a zero-sized (possibly NULL-like) buffer to the library
    pwbuf = ctypes.create_string_buffer(pw, len(pw) + 1)
    saltbuf = ctypes.create_string_buffer(salt, len(salt) + 1)
    total = guard + dklen + guard
    buf = (ctypes.c_ubyte * (total + 1))()
    init = bytes([GUARD]) * guard + bytes([FILL]) * dklen + bytes([GUARD]) * guard + b"\0"
    ctypes.memmove(buf, init, total + 1)
    base = ctypes.addressof(buf)
    f(ctypes.addressof(pwbuf), len(pw), ctypes.addressof(saltbuf), len(salt),
      int(req["n"]), int(req["r"]), int(req["p"]), base + guard, dklen)
    after = bytes(buf)[:total]
    out = after[guard:guard + dklen]
    ok = after[:guard] == bytes([GUARD]) * guard and after[guard + dklen:] == bytes([GUARD]) * guard
    return {"id": req.get("id"), "out": out.hex(), "guard_ok": ok}


def run_seq(f, req):
    """the requests of req["seq"], in order, in this process"""
    out = []
    for i, q in enumerate(req["seq"]):
        for k in ("pw", "salt", "n", "r", "p", "dklen"):
            if k not in q:
                raise KeyError(k)
        r = run_case(f, q)
        r["id"] = i
        out.append(r)
    return {"id": req.get("id"), "seq": out}


def run_forked(f, req):
    r_out, w_out = os.pipe()
    r_err, w_err = os.pipe()
    sys.stdout.flush()
    pid = os.fork()
    if pid == 0:
        try:
            os.close(r_out)
            os.close(r_err)
            os.dup2(w_err, 2)
            if "seq" in req and req.get("partial"):
                # every reply is handed over as soon as its call has returned, so that the replies of the calls made
                # BEFORE the library kills the process are not lost
                for i, q in enumerate(req["seq"]):
                    for k in ("pw", "salt", "n", "r", "p", "dklen"):
                        if k not in q:
                            raise KeyError(k)
                    r = run_case(f, q)
                    r["id"] = i
                    os.write(w_out, (json.dumps(r) + "\n").encode())
                os._exit(0)
            res = run_seq(f, req) if "seq" in req else run_case(f, req)
            os.write(w_out, json.dumps(res).encode())
            os._exit(0)
        except BaseException as e:  # noqa
            try:
                os.write(w_out, json.dumps({"id": req.get("id"), "error": repr(e)}).encode())
            finally:
                os._exit(3)
    os.close(w_out)
    os.close(w_err)
    data = b""
    while True:
        chunk = os.read(r_out, 65536)
        if not chunk:
            break
        data += chunk
    err = b""
    while True:
        chunk = os.read(r_err, 65536)
        if not chunk:
            break
        err += chunk
    os.close(r_out)
    os.close(r_err)
    _, status = os.waitpid(pid, 0)
    partial = None
    if "seq" in req and req.get("partial"):
        partial = []
        for ln in data.decode(errors="replace").splitlines():
            try:
                partial.append(json.loads(ln))
            except ValueError:
                break
    if os.WIFSIGNALED(status):
        sig = os.WTERMSIG(status)
        try:
            name = signal.Signals(sig).name
        except ValueError:
            name = "SIG%d" % sig
        res = {"id": req.get("id"), "crash": name, "stderr": err.decode(errors="replace")}
        if partial is not None:
            res["seq_partial"] = partial
        return res
    if partial is not None and os.WEXITSTATUS(status) == 0:
        return {"id": req.get("id"), "seq": partial}
    if partial is not None:
        return {"id": req.get("id"), "error": "child exited %d" % os.WEXITSTATUS(status), "seq_partial": partial,
                "stderr": err.decode(errors="replace")}
    if data:
        return json.loads(data.decode())
    return {"id": req.get("id"), "error": "child exited %d without a result" % os.WEXITSTATUS(status),
            "stderr": err.decode(errors="replace")}


def main():
    args = sys.argv[1:]
    fork = True
    if args and args[0] == "--nofork":
        fork = False
        args = args[1:]
    if args:
        path = args[0]
    else:
        path = os.path.join(os.environ.get("CARGO_TARGET_DIR", "target"), "debug", "libkestrel_ffi_verif.so")
    os.environ.setdefault("RUST_BACKTRACE_KEEP", "")
    if not os.environ["RUST_BACKTRACE_KEEP"]:
        os.environ["RUST_BACKTRACE"] = "0"  # keep the captured panic text short
    f = load(os.path.abspath(path))
    for line in sys.stdin:
        line = line.strip()
        if not line:
            continue
        try:
            req = json.loads(line)
        except ValueError as e:
            print(json.dumps({"id": None, "error": "bad json: %s" % e}), flush=True)
            continue
        try:
            if "seq" in req:
                res = run_forked(f, req) if fork else run_seq(f, req)
                print(json.dumps(res), flush=True)
                continue
            for k in ("pw", "salt", "n", "r", "p", "dklen"):
                if k not in req:
                    raise KeyError(k)
            res = run_forked(f, req) if fork else run_case(f, req)
        except Exception as e:  # malformed request
            res = {"id": req.get("id") if isinstance(req, dict) else None, "error": repr(e)}
        print(json.dumps(res), flush=True)


if __name__ == "__main__":
    main()
