// clidrv driver -- this file is include!()d at the end of the generated copy of the CLI's
// main.rs (src/gen/main.rs, see prepare.sh), so it sits in the crate root next to the CLI's
// own items: parse_*, convert_args, slice_args, print_usage_error, mod keyring, ...
//
// The real entry point:
//   KESTREL_VERIF_RANDOM=<hex>  install a deterministic random stream (needs --cfg kestrel_verif)
//   KESTREL_VERIF_DRIVER=<any>  run the line-protocol driver on stdin/stdout
//   otherwise                   behave exactly as the kestrel CLI (kestrel_main)

fn main() {
    if let Some(h) = std::env::var_os("KESTREL_VERIF_RANDOM") {
        let h = h.into_string().unwrap_or_else(|_| {
            eprintln!("clidrv: KESTREL_VERIF_RANDOM is not valid UTF-8");
            std::process::exit(2);
        });
        match verif_driver::try_unhex(h.trim()) {
            Some(bytes) => verif_driver::install_random(bytes),
            None => {
                eprintln!("clidrv: KESTREL_VERIF_RANDOM is not valid hex");
                std::process::exit(2);
            }
        }
    }
    if std::env::var_os("KESTREL_VERIF_DRIVER").is_some() {
        verif_driver::driver_loop();
    } else {
        kestrel_main();
    }
}

mod verif_driver {
    use crate::keyring::{EncodedPk, EncodedSk, Key, Keyring};
    use crate::errors::KeyringError;
    use crate::{KeyCommand, PasswordCommand};
    use kestrel_crypto::{PrivateKey, PublicKey};
    use std::io::{self, BufRead, Write};
    use std::panic::{catch_unwind, AssertUnwindSafe};

    #[cfg(kestrel_verif)]
    pub(crate) fn install_random(bytes: Vec<u8>) {
        kestrel_crypto::verif_hooks::set_random_stream(Some(bytes));
    }
    #[cfg(not(kestrel_verif))]
    pub(crate) fn install_random(_bytes: Vec<u8>) {
        eprintln!("clidrv: KESTREL_VERIF_RANDOM needs a build with RUSTFLAGS=\"--cfg kestrel_verif\"");
        std::process::exit(2);
    }

    pub(crate) fn try_unhex(s: &str) -> Option<Vec<u8>> {
        if s == "-" {
            return Some(Vec::new());
        }
        let b = s.as_bytes();
        if b.len() % 2 != 0 {
            return None;
        }
        let v = |c: u8| match c {
            b'0'..=b'9' => Some(c - b'0'),
            b'a'..=b'f' => Some(c - b'a' + 10),
            b'A'..=b'F' => Some(c - b'A' + 10),
            _ => None,
        };
        let mut out = Vec::with_capacity(b.len() / 2);
        for i in 0..b.len() / 2 {
            out.push(v(b[2 * i])? * 16 + v(b[2 * i + 1])?);
        }
        Some(out)
    }
    fn unhex(s: &str) -> Vec<u8> {
        try_unhex(s).expect("bad hex")
    }
    fn hex(b: &[u8]) -> String {
        if b.is_empty() {
            return "-".to_string();
        }
        let mut s = String::with_capacity(b.len() * 2);
        for x in b {
            s.push_str(&format!("{:02x}", x));
        }
        s
    }
    fn hs(s: &str) -> String {
        hex(s.as_bytes())
    }
    fn hopt(s: &Option<String>) -> String {
        match s {
            Some(s) => hs(s),
            None => "none".to_string(),
        }
    }
    fn b01(b: bool) -> &'static str {
        if b { "1" } else { "0" }
    }

    // hex argument -> text; None when it is not UTF-8
    fn text(arg: &str) -> Option<String> {
        String::from_utf8(unhex(arg)).ok()
    }
    const BADUTF8: &str = "outcome=badutf8";

    fn kerr(e: &KeyringError) -> &'static str {
        match e {
            KeyringError::ParseConfig(_) => "ParseConfig",
            KeyringError::PublicKeyChecksum => "Checksum",
            KeyringError::PublicKeyLength => "Length",
            KeyringError::PrivateKeyDecrypt => "Decrypt",
            KeyringError::PrivateKeyLength => "Length",
            KeyringError::PrivateKeyFormat => "Format",
        }
    }

    fn key_fields(k: &Key) -> String {
        format!(
            "name={} pub={} priv={}",
            hs(&k.name),
            hs(k.public_key.as_str()),
            match &k.private_key {
                Some(sk) => hs(sk.as_str()),
                None => "none".to_string(),
            }
        )
    }

    fn join(v: Vec<String>) -> String {
        if v.is_empty() { "-".to_string() } else { v.join(",") }
    }

    // Replicates try_main() up to (and excluding) the commands::* calls.
    fn parse(argv: Vec<std::ffi::OsString>) -> String {
        let args = match crate::convert_args(argv.as_slice()) {
            Ok(a) => a,
            Err(e) => return format!("outcome=ok cmd=argerr full={}", hs(&format!("{:#}", e))),
        };
        let args: Vec<&str> = args.iter().map(|arg| arg.as_str()).collect();

        if args.len() <= 1 || args.contains(&"--help") || args.contains(&"-h") {
            return "outcome=ok cmd=help".into();
        }
        let usage = |msg: &str| -> String {
            // what main() would print after "Error: "
            let full = match crate::print_usage_error(msg) {
                Err(e) => format!("{:#}", e),
                Ok(()) => String::new(),
            };
            format!("outcome=ok cmd=usage msg={} full={}", hs(msg), hs(&full))
        };
        match args[1] {
            "-h" | "--help" => "outcome=ok cmd=help".into(),
            "-v" | "--version" => "outcome=ok cmd=version".into(),
            "enc" | "encrypt" => {
                let args = crate::slice_args(&args, 2);
                match crate::parse_encrypt(args) {
                    Ok(o) => format!(
                        "outcome=ok cmd=encrypt infile={} to={} from={} outfile={} keyring={} env_pass={}",
                        hopt(&o.infile), hs(&o.to), hs(&o.from), hopt(&o.outfile), hopt(&o.keyring), b01(o.env_pass)
                    ),
                    Err(e) => usage(&e),
                }
            }
            "dec" | "decrypt" => {
                let args = crate::slice_args(&args, 2);
                match crate::parse_decrypt(args) {
                    Ok(o) => format!(
                        "outcome=ok cmd=decrypt infile={} to={} outfile={} keyring={} env_pass={}",
                        hopt(&o.infile), hs(&o.to), hopt(&o.outfile), hopt(&o.keyring), b01(o.env_pass)
                    ),
                    Err(e) => usage(&e),
                }
            }
            "key" => {
                let args = crate::slice_args(&args, 2);
                match crate::parse_key(args) {
                    Ok(KeyCommand::Generate(outfile, env_pass)) => format!(
                        "outcome=ok cmd=key_generate outfile={} env_pass={}",
                        hopt(&outfile), b01(env_pass)
                    ),
                    Ok(KeyCommand::ChangePass(private_key, env_pass)) => format!(
                        "outcome=ok cmd=key_change_pass private_key={} env_pass={}",
                        hs(&private_key), b01(env_pass)
                    ),
                    Ok(KeyCommand::ExtractPub(private_key, env_pass)) => format!(
                        "outcome=ok cmd=key_extract_pub private_key={} env_pass={}",
                        hs(&private_key), b01(env_pass)
                    ),
                    Err(e) => usage(&e),
                }
            }
            "pass" | "password" => {
                let args = crate::slice_args(&args, 2);
                match crate::parse_password(args) {
                    Ok(PasswordCommand::Encrypt(o)) => format!(
                        "outcome=ok cmd=pass_encrypt infile={} outfile={} env_pass={}",
                        hopt(&o.infile), hopt(&o.outfile), b01(o.env_pass)
                    ),
                    Ok(PasswordCommand::Decrypt(o)) => format!(
                        "outcome=ok cmd=pass_decrypt infile={} outfile={} env_pass={}",
                        hopt(&o.infile), hopt(&o.outfile), b01(o.env_pass)
                    ),
                    Err(e) => usage(&e),
                }
            }
            _ => usage("Invalid command"),
        }
    }

    fn run(a: &[&str]) -> String {
        match a[0] {
            "kr_parse" => {
                let Some(t) = text(a[1]) else { return BADUTF8.into() };
                match Keyring::new(&t) {
                    Ok(kr) => {
                        let keys = kr.verif_keys();
                        format!(
                            "outcome=ok n={} names={} pubs={} privs={}",
                            keys.len(),
                            join(keys.iter().map(|k| hs(&k.name)).collect()),
                            join(keys.iter().map(|k| hs(k.public_key.as_str())).collect()),
                            join(
                                keys.iter()
                                    .map(|k| match &k.private_key {
                                        Some(sk) => hs(sk.as_str()),
                                        None => "none".to_string(),
                                    })
                                    .collect()
                            ),
                        )
                    }
                    Err(e) => format!("outcome=err kind={} msg={}", kerr(&e), hs(&e.to_string())),
                }
            }
            "kr_get" => {
                let Some(t) = text(a[1]) else { return BADUTF8.into() };
                let Some(name) = text(a[2]) else { return BADUTF8.into() };
                match Keyring::new(&t) {
                    Ok(kr) => match kr.get_key(&name) {
                        Some(k) => format!("outcome=ok {}", key_fields(k)),
                        None => "outcome=none".into(),
                    },
                    Err(e) => format!("outcome=err kind={} msg={}", kerr(&e), hs(&e.to_string())),
                }
            }
            "kr_name_from_key" => {
                let Some(t) = text(a[1]) else { return BADUTF8.into() };
                let Some(pk) = text(a[2]) else { return BADUTF8.into() };
                match Keyring::new(&t) {
                    Ok(kr) => match EncodedPk::try_from(pk.as_str()) {
                        Ok(epk) => match kr.get_name_from_key(&epk) {
                            Some(n) => format!("outcome=ok name={}", hs(&n)),
                            None => "outcome=none".into(),
                        },
                        Err(m) => format!("outcome=err:TryFrom msg={}", hs(m)),
                    },
                    Err(e) => format!("outcome=err kind={} msg={}", kerr(&e), hs(&e.to_string())),
                }
            }
            "pk_try" => {
                let Some(s) = text(a[1]) else { return BADUTF8.into() };
                match EncodedPk::try_from(s.as_str()) {
                    Ok(_) => "outcome=ok".into(),
                    Err(m) => format!("outcome=err msg={}", hs(m)),
                }
            }
            "sk_try" => {
                let Some(s) = text(a[1]) else { return BADUTF8.into() };
                match EncodedSk::try_from(s.as_str()) {
                    Ok(_) => "outcome=ok".into(),
                    Err(m) => format!("outcome=err msg={}", hs(m)),
                }
            }
            "pk_encode" => {
                let pk = PublicKey::try_from(unhex(a[1]).as_slice()).expect("public key must be 32 bytes");
                let e = Keyring::encode_public_key(&pk);
                format!("outcome=ok out={}", hs(e.as_str()))
            }
            "pk_decode" => {
                let Some(s) = text(a[1]) else { return BADUTF8.into() };
                match EncodedPk::try_from(s.as_str()) {
                    Ok(epk) => match Keyring::decode_public_key(&epk) {
                        Ok(pk) => format!("outcome=ok out={}", hex(pk.as_bytes())),
                        Err(e) => format!("outcome=err:{}", kerr(&e)),
                    },
                    Err(m) => format!("outcome=err:TryFrom msg={}", hs(m)),
                }
            }
            "sk_lock" => {
                let sk = PrivateKey::try_from(unhex(a[1]).as_slice()).expect("private key must be 32 bytes");
                let pw = unhex(a[2]);
                let salt: [u8; 32] = unhex(a[3]).try_into().expect("salt must be 32 bytes");
                let e = Keyring::lock_private_key(&sk, &pw, salt);
                format!("outcome=ok out={}", hs(e.as_str()))
            }
            "sk_unlock" => {
                let Some(s) = text(a[1]) else { return BADUTF8.into() };
                let pw = unhex(a[2]);
                match EncodedSk::try_from(s.as_str()) {
                    Ok(esk) => match Keyring::unlock_private_key(&esk, &pw) {
                        Ok(sk) => format!("outcome=ok out={}", hex(sk.as_bytes())),
                        Err(e) => format!("outcome=err:{}", kerr(&e)),
                    },
                    Err(m) => format!("outcome=err:TryFrom msg={}", hs(m)),
                }
            }
            "valid_name" => {
                let Some(s) = text(a[1]) else { return BADUTF8.into() };
                format!("outcome=ok out={}", if Keyring::valid_key_name(&s) { "01" } else { "00" })
            }
            "serialize_key" => {
                // name, encoded pk string, encoded sk string (all hex of text)
                let Some(name) = text(a[1]) else { return BADUTF8.into() };
                let Some(pk) = text(a[2]) else { return BADUTF8.into() };
                let Some(sk) = text(a[3]) else { return BADUTF8.into() };
                let epk = match EncodedPk::try_from(pk.as_str()) {
                    Ok(k) => k,
                    Err(m) => return format!("outcome=err:TryFromPk msg={}", hs(m)),
                };
                let esk = match EncodedSk::try_from(sk.as_str()) {
                    Ok(k) => k,
                    Err(m) => return format!("outcome=err:TryFromSk msg={}", hs(m)),
                };
                format!("outcome=ok out={}", hs(&Keyring::serialize_key(&name, &epk, &esk)))
            }
            "parse" => {
                let argc: usize = a[1].parse().expect("argc");
                assert!(a.len() == 2 + argc, "argc does not match the number of arguments");
                use std::os::unix::ffi::OsStringExt;
                let argv: Vec<std::ffi::OsString> =
                    a[2..].iter().map(|h| std::ffi::OsString::from_vec(unhex(h))).collect();
                parse(argv)
            }
            "setrand" => {
                let st = match a[1] {
                    "-" | "none" => None,
                    "empty" => Some(Vec::new()),
                    h => Some(unhex(h)),
                };
                set_stream(st)
            }
            _ => "outcome=badop".into(),
        }
    }

    #[cfg(kestrel_verif)]
    fn set_stream(st: Option<Vec<u8>>) -> String {
        kestrel_crypto::verif_hooks::set_random_stream(st);
        "outcome=ok".into()
    }
    #[cfg(not(kestrel_verif))]
    fn set_stream(_st: Option<Vec<u8>>) -> String {
        "outcome=badop".into()
    }

    pub(crate) fn driver_loop() {
        std::panic::set_hook(Box::new(|_| {}));
        let stdin = io::stdin();
        let stdout = io::stdout();
        let mut out = io::BufWriter::new(stdout.lock());
        for line in stdin.lock().lines() {
            let line = line.unwrap();
            let toks: Vec<&str> = line.split_whitespace().collect();
            if toks.len() < 2 {
                continue;
            }
            let id = toks[0];
            let res = catch_unwind(AssertUnwindSafe(|| run(&toks[1..])));
            let body = match res {
                Ok(s) => s,
                Err(_) => "outcome=panic".to_string(),
            };
            writeln!(out, "{} {}", id, body).unwrap();
            out.flush().unwrap();
        }
    }
}
