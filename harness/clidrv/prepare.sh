#!/bin/sh
# Generates clidrv/src/gen/ from the CLI sources of the working tree.
#   * copies $KESTREL_CLI_DIR/src/*.rs (default /repo/src/cli)
#   * main.rs   : `fn main()` -> `fn kestrel_main()` (exactly one occurrence, checked) and
#                 appends `include!("../driver.rs");` (driver.rs defines the real main)
#   * keyring.rs: appends a crate-visible accessor for the private `keys` field
#   * Cargo.toml: package version kept equal to the CLI's (it is what `--version` prints)
#   * Cargo.lock: seeded from the repository's lock file when absent
# Idempotent; a file is rewritten only when its content changes, so cargo stays incremental.
set -eu

HERE=$(cd "$(dirname "$0")" && pwd)
CLI=${KESTREL_CLI_DIR:-/repo/src/cli}
LOCK=${KESTREL_LOCK:-/repo/Cargo.lock}
GEN="$HERE/src/gen"

fail() { echo "prepare.sh: ERROR: $*" >&2; exit 1; }

[ -f "$CLI/src/main.rs" ] || fail "no $CLI/src/main.rs"
[ -f "$HERE/src/driver.rs" ] || fail "no $HERE/src/driver.rs"

TMP=$(mktemp -d)
trap 'rm -rf "$TMP"' EXIT

for f in "$CLI"/src/*.rs; do
    cp "$f" "$TMP/$(basename "$f")"
done

# --- main.rs: the one mechanical edit ------------------------------------------------------
M="$TMP/main.rs"
n=$(grep -c 'fn main()' "$M" || true)
[ "$n" = 1 ] || fail "expected exactly one 'fn main()' in $CLI/src/main.rs, found $n"
n=$(grep -c '^fn main() {$' "$M" || true)
[ "$n" = 1 ] || fail "'fn main()' is not of the expected form '^fn main() {\$'"
n=$(grep -c 'kestrel_main' "$M" || true)
[ "$n" = 0 ] || fail "'kestrel_main' already occurs in $CLI/src/main.rs"
sed 's/^fn main() {$/fn kestrel_main() {/' "$M" > "$M.new"
mv "$M.new" "$M"
n=$(grep -c '^fn kestrel_main() {$' "$M" || true)
[ "$n" = 1 ] || fail "rename produced $n occurrences of 'fn kestrel_main()' (expected 1)"
n=$(grep -c 'fn main()' "$M" || true)
[ "$n" = 0 ] || fail "'fn main()' still present after the rename"
# the only difference from the original must be that single line
d=$(diff "$CLI/src/main.rs" "$M" | grep -c '^[<>]' || true)
[ "$d" = 2 ] || fail "rename changed $d diff lines (expected 2)"
for m in commands errors keyring; do
    grep -q "^mod $m;\$" "$M" || fail "main.rs does not declare 'mod $m;'"
    [ -f "$TMP/$m.rs" ] || fail "missing $CLI/src/$m.rs"
done
printf '\n// ---- appended by clidrv/prepare.sh ----\ninclude!("../driver.rs");\n' >> "$M"

# --- keyring.rs: accessor for the private field ---------------------------------------------
K="$TMP/keyring.rs"
n=$(grep -c '^pub(crate) struct Keyring {$' "$K" || true)
[ "$n" = 1 ] || fail "keyring.rs: expected one 'pub(crate) struct Keyring {', found $n"
n=$(grep -c '^    keys: Vec<Key>,$' "$K" || true)
[ "$n" = 1 ] || fail "keyring.rs: expected one field 'keys: Vec<Key>,', found $n"
grep -q 'verif_keys' "$K" && fail "keyring.rs already mentions verif_keys"
cat >> "$K" <<'EOT'

// ---- appended by clidrv/prepare.sh ----
impl Keyring {
    #[allow(dead_code)]
    pub(crate) fn verif_keys(&self) -> &Vec<Key> {
        &self.keys
    }
}
EOT

# --- install what changed -------------------------------------------------------------------
mkdir -p "$GEN"
changed=0
for f in "$TMP"/*.rs; do
    b=$(basename "$f")
    if ! cmp -s "$f" "$GEN/$b"; then
        cp "$f" "$GEN/$b"
        echo "prepare.sh: updated src/gen/$b"
        changed=1
    fi
done
for f in "$GEN"/*; do
    [ -e "$f" ] || continue
    b=$(basename "$f")
    if [ ! -f "$TMP/$b" ]; then
        rm -f "$f"
        echo "prepare.sh: removed stale src/gen/$b"
        changed=1
    fi
done

# --- version ---------------------------------------------------------------------------------
v=$(sed -n 's/^version = "\(.*\)"$/\1/p' "$CLI/Cargo.toml" | head -n 1)
[ -n "$v" ] || fail "cannot read the version from $CLI/Cargo.toml"
n=$(grep -c '^version = "' "$HERE/Cargo.toml" || true)
[ "$n" = 1 ] || fail "clidrv/Cargo.toml: expected one top-level version line, found $n"
sed "s/^version = \".*\"\$/version = \"$v\"/" "$HERE/Cargo.toml" > "$TMP/Cargo.toml"
if ! cmp -s "$TMP/Cargo.toml" "$HERE/Cargo.toml"; then
    cp "$TMP/Cargo.toml" "$HERE/Cargo.toml"
    echo "prepare.sh: Cargo.toml version set to $v"
    changed=1
fi

# --- lock file -------------------------------------------------------------------------------
if [ ! -f "$HERE/Cargo.lock" ]; then
    cp "$LOCK" "$HERE/Cargo.lock"
    echo "prepare.sh: seeded Cargo.lock from $LOCK"
fi

[ "$changed" = 1 ] || echo "prepare.sh: up to date"
