#!/bin/sh
# Builds the three harness crates (libdrv, clidrv, ffidrv) offline, hooks on.
#   CARGO_TARGET_DIR  target directory shared by the three crates (default: <harness>/target)
# Products: $CARGO_TARGET_DIR/debug/{libdrv,clidrv,libkestrel_ffi_verif.so}
set -eu
HERE=$(cd "$(dirname "$0")" && pwd)
: "${CARGO_TARGET_DIR:=$HERE/target}"
export CARGO_TARGET_DIR
export CARGO_NET_OFFLINE=true
export RUSTFLAGS="--cfg kestrel_verif"
LOCK=${KESTREL_LOCK:-/repo/Cargo.lock}

"$HERE/clidrv/prepare.sh"

for c in libdrv clidrv ffidrv; do
    # seed the lock file from the repository's so that offline resolution picks the cached versions
    [ -f "$HERE/$c/Cargo.lock" ] || cp "$LOCK" "$HERE/$c/Cargo.lock"
    echo "== building $c"
    (cd "$HERE/$c" && cargo build --offline "$@")
done
echo "== done: $CARGO_TARGET_DIR/debug/libdrv $CARGO_TARGET_DIR/debug/clidrv $CARGO_TARGET_DIR/debug/libkestrel_ffi_verif.so"
