// C11 (streaming: constant memory, incremental output) measurement ops.
//
//   mem_key_enc  <len> <read_size>      mem_pass_enc <len> <read_size>
//   mem_key_dec  <len> <read_size>      mem_pass_dec <len> <read_size>
//
// Encrypt: a GENERATOR reader hands out <len> pseudo-random bytes (never materialised), at most
// <read_size> bytes per read call, and the library writes into a COUNTING sink that keeps nothing.
// Decrypt: the same generator stream is first encrypted by the library into a temporary file under
// /tmp (unmeasured, reads of 65536 bytes), then the file is decrypted from a BufReader<File> (each read
// call capped at <read_size>) into a counting sink; only the decrypt call is measured; the file is
// removed afterwards (also when the call fails or panics).
//
// Reply:
//   outcome=<ok|err:..> peak=<bytes> iopeak=<bytes> written=<n> read=<n> reads=<k> writes=<k> flushes=<k>
//           maxlag=<n> maxgap=<n> insum=<hex16> outsum=<hex16> [match=<0|1>]
//     peak    highest live heap (global allocator, requested sizes) during the call minus live heap at its start
//     iopeak  the same, sampled only at the entry of every read / write / flush call the library makes
//             (excludes memory that is allocated and released between two I/O calls, e.g. scrypt's)
//     maxlag  max over write calls of (bytes read so far - bytes written before this call); never negative
//             in the reply (0 when the sink is ahead)
//     maxgap  max over write calls of the bytes read since the previous write call (or since the start)
//     insum / outsum  FNV-1a-64 of the bytes produced by the reader / accepted by the sink
//     match   (decrypt only) 1 iff outsum equals the checksum of the generated plaintext and written = len
use std::cell::RefCell;
use std::fs::File;
use std::io::{self, BufReader, BufWriter, Read, Write};
use std::sync::atomic::{AtomicUsize, Ordering};

use kestrel_crypto as kc;
use kestrel_crypto::{AsymFileFormat, PassFileFormat, PayloadKey, PrivateKey};

use crate::zero::{mem_live, mem_peak, mem_reset_peak};

const FNV_OFF: u64 = 0xcbf29ce484222325;
const FNV_PRIME: u64 = 0x100000001b3;

#[inline]
fn fnv(mut h: u64, b: &[u8]) -> u64 {
    for x in b {
        h ^= *x as u64;
        h = h.wrapping_mul(FNV_PRIME);
    }
    h
}

struct Meter {
    r: u64,
    w: u64,
    reads: u64,
    writes: u64,
    flushes: u64,
    maxlag: u64,
    maxgap: u64,
    r_at_last_write: u64,
    base: usize,
    iopeak: usize,
    insum: u64,
    outsum: u64,
}
impl Meter {
    fn new() -> Meter {
        Meter {
            r: 0, w: 0, reads: 0, writes: 0, flushes: 0, maxlag: 0, maxgap: 0, r_at_last_write: 0,
            base: 0, iopeak: 0, insum: FNV_OFF, outsum: FNV_OFF,
        }
    }
    #[inline]
    fn sample(&mut self) {
        let l = mem_live();
        if l > self.base && l - self.base > self.iopeak {
            self.iopeak = l - self.base;
        }
    }
}

// <left> pseudo-random bytes (64-bit LCG, top byte of the state), at most <cap> per call
struct GenReader<'a> {
    left: u64,
    cap: usize,
    st: u64,
    m: &'a RefCell<Meter>,
}
impl<'a> Read for GenReader<'a> {
    fn read(&mut self, buf: &mut [u8]) -> io::Result<usize> {
        let mut m = self.m.borrow_mut();
        m.sample();
        let n = (buf.len().min(self.cap) as u64).min(self.left) as usize;
        let mut st = self.st;
        for b in buf[..n].iter_mut() {
            st = st.wrapping_mul(6364136223846793005).wrapping_add(1442695040888963407);
            *b = (st >> 56) as u8;
        }
        self.st = st;
        self.left -= n as u64;
        m.insum = fnv(m.insum, &buf[..n]);
        m.r += n as u64;
        m.reads += 1;
        Ok(n)
    }
}

// caps every read call of an inner reader
struct CapReader<'a, R: Read> {
    inner: R,
    cap: usize,
    m: &'a RefCell<Meter>,
}
impl<'a, R: Read> Read for CapReader<'a, R> {
    fn read(&mut self, buf: &mut [u8]) -> io::Result<usize> {
        self.m.borrow_mut().sample();
        let n = buf.len().min(self.cap);
        let k = self.inner.read(&mut buf[..n])?;
        let mut m = self.m.borrow_mut();
        m.insum = fnv(m.insum, &buf[..k]);
        m.r += k as u64;
        m.reads += 1;
        Ok(k)
    }
}

// counts and checksums what it is given; keeps nothing
struct CountSink<'a> {
    m: &'a RefCell<Meter>,
}
impl<'a> Write for CountSink<'a> {
    fn write(&mut self, buf: &[u8]) -> io::Result<usize> {
        let mut m = self.m.borrow_mut();
        m.sample();
        let lag = m.r.saturating_sub(m.w);
        if lag > m.maxlag {
            m.maxlag = lag;
        }
        let gap = m.r - m.r_at_last_write;
        if gap > m.maxgap {
            m.maxgap = gap;
        }
        m.r_at_last_write = m.r;
        m.outsum = fnv(m.outsum, buf);
        m.w += buf.len() as u64;
        m.writes += 1;
        Ok(buf.len())
    }
    fn flush(&mut self) -> io::Result<()> {
        let mut m = self.m.borrow_mut();
        m.sample();
        m.flushes += 1;
        Ok(())
    }
}

// removes the temporary file when it goes out of scope (normal return, error, unwinding)
struct TmpFile(String);
impl Drop for TmpFile {
    fn drop(&mut self) {
        let _ = std::fs::remove_file(&self.0);
    }
}
static TMP_COUNTER: AtomicUsize = AtomicUsize::new(0);

// fixed parties (RFC 7748 section 6.1: Alice sends to Bob), fixed ephemeral / payload key / salt:
// nothing is drawn from the random source
const ALICE_SK: [u8; 32] = [
    0x77, 0x07, 0x6d, 0x0a, 0x73, 0x18, 0xa5, 0x7d, 0x3c, 0x16, 0xc1, 0x72, 0x51, 0xb2, 0x66, 0x45,
    0xdf, 0x4c, 0x2f, 0x87, 0xeb, 0xc0, 0x99, 0x2a, 0xb1, 0x77, 0xfb, 0xa5, 0x1d, 0xb9, 0x2c, 0x2a,
];
const BOB_SK: [u8; 32] = [
    0x5d, 0xab, 0x08, 0x7e, 0x62, 0x4a, 0x8a, 0x4b, 0x79, 0xe1, 0x7f, 0x8b, 0x83, 0x80, 0x0e, 0xe6,
    0x6f, 0x3b, 0xb1, 0x29, 0x26, 0x18, 0xb6, 0xfd, 0x1c, 0x2f, 0x8b, 0x27, 0xff, 0x88, 0xe0, 0xeb,
];
const EPH_SK: [u8; 32] = [0x33; 32];
const PAYLOAD: [u8; 32] = [0x44; 32];
const SALT: [u8; 32] = [0x55; 32];
const PASSWORD: &[u8] = b"streaming measurement password";
const SEED: u64 = 0x9e3779b97f4a7c15;

fn enc_err(e: &kc::errors::EncryptError) -> String {
    use kc::errors::EncryptError::*;
    match e {
        UnexpectedData => "UnexpectedData".into(),
        IORead(e) => format!("IORead:{:?}", e.kind()),
        IOWrite(e) => format!("IOWrite:{:?}", e.kind()),
        Other(_) => "Other".into(),
    }
}
fn dec_err(e: &kc::errors::DecryptError) -> String {
    use kc::errors::DecryptError::*;
    match e {
        ChunkLen => "ChunkLen".into(),
        ChaPolyDecrypt => "ChaPolyDecrypt".into(),
        UnexpectedData => "UnexpectedData".into(),
        IORead(e) => format!("IORead:{:?}", e.kind()),
        IOWrite(e) => format!("IOWrite:{:?}", e.kind()),
        Other(_) => "Other".into(),
    }
}

fn encrypt_into<R: Read, W: Write>(key_mode: bool, rd: &mut R, wr: &mut W) -> Result<(), String> {
    if key_mode {
        let s = PrivateKey::try_from(&ALICE_SK[..]).unwrap();
        let spk = s.to_public().unwrap();
        let rpk = PrivateKey::try_from(&BOB_SK[..]).unwrap().to_public().unwrap();
        let e = PrivateKey::try_from(&EPH_SK[..]).unwrap();
        let epk = e.to_public().unwrap();
        let pk = PayloadKey::new(&PAYLOAD);
        kc::encrypt::key_encrypt(rd, wr, &s, &spk, &rpk, Some(&e), Some(&epk), Some(&pk), AsymFileFormat::V1)
            .map_err(|e| enc_err(&e))
    } else {
        kc::encrypt::pass_encrypt(rd, wr, PASSWORD, SALT, PassFileFormat::V1).map_err(|e| enc_err(&e))
    }
}

fn report(outcome: String, peak: usize, m: &Meter, extra: &str) -> String {
    format!(
        "outcome={} peak={} iopeak={} written={} read={} reads={} writes={} flushes={} maxlag={} maxgap={} insum={:016x} outsum={:016x}{}",
        outcome, peak, m.iopeak, m.w, m.r, m.reads, m.writes, m.flushes, m.maxlag, m.maxgap, m.insum, m.outsum, extra
    )
}

fn mem_enc(key_mode: bool, len: u64, read_size: usize) -> String {
    let m = RefCell::new(Meter::new());
    let mut rd = GenReader { left: len, cap: read_size, st: SEED, m: &m };
    let mut wr = CountSink { m: &m };
    // everything the call needs from the driver exists now; measure the library call only.  (The key
    // objects are made inside encrypt_into: a few small blocks that are part of the constant.)
    let base = mem_reset_peak();
    m.borrow_mut().base = base;
    let res = encrypt_into(key_mode, &mut rd, &mut wr);
    let peak = mem_peak().saturating_sub(base);
    let o = match res {
        Ok(()) => "ok".to_string(),
        Err(e) => format!("err:{}", e),
    };
    let mm = m.borrow();
    report(o, peak, &mm, "")
}

fn mem_dec(key_mode: bool, len: u64, read_size: usize) -> String {
    let path = format!(
        "/tmp/kv_libdrv_mem_{}_{}.bin",
        std::process::id(),
        TMP_COUNTER.fetch_add(1, Ordering::Relaxed)
    );
    let tmp = TmpFile(path.clone());
    // phase 1 (not measured): the library encrypts the generator stream into the file
    let plain_sum;
    {
        let m0 = RefCell::new(Meter::new());
        let mut rd = GenReader { left: len, cap: 65536, st: SEED, m: &m0 };
        let f = match File::create(&path) {
            Ok(f) => f,
            Err(e) => return format!("outcome=tmpfile:{:?}", e.kind()),
        };
        let mut wr = BufWriter::with_capacity(1 << 20, f);
        if let Err(e) = encrypt_into(key_mode, &mut rd, &mut wr) {
            return format!("outcome=prep_err:{}", e);
        }
        if let Err(e) = wr.flush() {
            return format!("outcome=tmpfile:{:?}", e.kind());
        }
        plain_sum = m0.borrow().insum;
    }
    // phase 2 (measured): decrypt from a BufReader<File> into the counting sink
    let f = match File::open(&path) {
        Ok(f) => f,
        Err(e) => return format!("outcome=tmpfile:{:?}", e.kind()),
    };
    let m = RefCell::new(Meter::new());
    let mut rd = CapReader { inner: BufReader::new(f), cap: read_size, m: &m };
    let mut wr = CountSink { m: &m };
    let res: Result<(), String>;
    let peak;
    if key_mode {
        let r = PrivateKey::try_from(&BOB_SK[..]).unwrap();
        let rpk = r.to_public().unwrap();
        let base = mem_reset_peak();
        m.borrow_mut().base = base;
        res = kc::decrypt::key_decrypt(&mut rd, &mut wr, &r, &rpk, AsymFileFormat::V1)
            .map(|_| ())
            .map_err(|e| dec_err(&e));
        peak = mem_peak().saturating_sub(base);
    } else {
        let base = mem_reset_peak();
        m.borrow_mut().base = base;
        res = kc::decrypt::pass_decrypt(&mut rd, &mut wr, PASSWORD, PassFileFormat::V1).map_err(|e| dec_err(&e));
        peak = mem_peak().saturating_sub(base);
    }
    drop(rd);
    drop(tmp);
    let o = match res {
        Ok(()) => "ok".to_string(),
        Err(e) => format!("err:{}", e),
    };
    let mm = m.borrow();
    let matched = mm.outsum == plain_sum && mm.w == len;
    report(o, peak, &mm, &format!(" match={}", if matched { 1 } else { 0 }))
}

// ---------------------------------------------------------------------------------------------
// C11, hostile announced lengths:
//   mem_key_forged  <len> <read_size> <chunk_index> <announced> <keep|cut|pad>
//   mem_pass_forged <len> <read_size> <chunk_index> <announced> <keep|cut|pad>
// The library encrypts the generator stream into a temporary file (unmeasured); then the 32-bit
// length field of the header of chunk <chunk_index> is overwritten with <announced> (big endian) and
//   keep  the rest of the file stays as it is,
//   cut   the file ends right after that header,
//   pad   the file is extended (sparse, zero bytes) so that <announced> + 16 bytes DO follow the header.
// The decrypt call on that file is measured exactly as in mem_*_dec.  While it runs the allocator refuses
// any single request above FORGED_REQ_CAP (the process then aborts: reported by the supervisor as
// outcome=abort), so a forged 4 GiB length never costs the machine 4 GiB.
// Reply: as mem_*_dec (without match=) plus hdr_off=<offset of the forged header> flen=<file length> bigreq=<largest single request>
pub const FORGED_REQ_CAP: usize = 1 << 29;

fn forged_prep(key_mode: bool, len: u64, path: &str) -> Result<(), String> {
    let m0 = RefCell::new(Meter::new());
    let mut rd = GenReader { left: len, cap: 65536, st: SEED, m: &m0 };
    let f = File::create(path).map_err(|e| format!("tmpfile:{:?}", e.kind()))?;
    let mut wr = BufWriter::with_capacity(1 << 20, f);
    encrypt_into(key_mode, &mut rd, &mut wr).map_err(|e| format!("prep_err:{}", e))?;
    wr.flush().map_err(|e| format!("tmpfile:{:?}", e.kind()))?;
    Ok(())
}

fn mem_forged(key_mode: bool, len: u64, read_size: usize, idx: u64, announced: u32, tail: &str) -> String {
    use std::io::{Seek, SeekFrom};
    let path = format!(
        "/tmp/kv_libdrv_memf_{}_{}.bin",
        std::process::id(),
        TMP_COUNTER.fetch_add(1, Ordering::Relaxed)
    );
    let tmp = TmpFile(path.clone());
    if let Err(e) = forged_prep(key_mode, len, &path) {
        return format!("outcome={}", e);
    }
    let hdr: u64 = if key_mode { 132 } else { 36 };
    let off = hdr + idx * (65536 + 32);
    let flen;
    {
        let mut f = match std::fs::OpenOptions::new().read(true).write(true).open(&path) {
            Ok(f) => f,
            Err(e) => return format!("outcome=tmpfile:{:?}", e.kind()),
        };
        let cur = f.metadata().map(|m| m.len()).unwrap_or(0);
        if off + 16 > cur {
            return format!("outcome=badargs:no_chunk_{}_in_{}_bytes", idx, cur);
        }
        let io = (|| -> io::Result<u64> {
            f.seek(SeekFrom::Start(off + 12))?;
            f.write_all(&announced.to_be_bytes())?;
            match tail {
                "cut" => f.set_len(off + 16)?,
                "pad" => {
                    let want = off + 16 + announced as u64 + 16;
                    if want > cur {
                        f.set_len(want)?
                    }
                }
                _ => {}
            }
            f.flush()?;
            Ok(f.metadata()?.len())
        })();
        flen = match io {
            Ok(n) => n,
            Err(e) => return format!("outcome=tmpfile:{:?}", e.kind()),
        };
    }
    let f = match File::open(&path) {
        Ok(f) => f,
        Err(e) => return format!("outcome=tmpfile:{:?}", e.kind()),
    };
    // the open descriptor keeps the file readable; unlinking it NOW means that nothing is left behind when the
    // measured call ends in an abort (refused allocation)
    drop(tmp);
    let m = RefCell::new(Meter::new());
    let mut rd = CapReader { inner: BufReader::new(f), cap: read_size, m: &m };
    let mut wr = CountSink { m: &m };
    let res: Result<(), String>;
    let peak;
    if key_mode {
        let r = PrivateKey::try_from(&BOB_SK[..]).unwrap();
        let rpk = r.to_public().unwrap();
        crate::zero::mem_set_request_cap(FORGED_REQ_CAP);
        let base = mem_reset_peak();
        m.borrow_mut().base = base;
        res = kc::decrypt::key_decrypt(&mut rd, &mut wr, &r, &rpk, AsymFileFormat::V1)
            .map(|_| ())
            .map_err(|e| dec_err(&e));
        peak = mem_peak().saturating_sub(base);
    } else {
        crate::zero::mem_set_request_cap(FORGED_REQ_CAP);
        let base = mem_reset_peak();
        m.borrow_mut().base = base;
        res = kc::decrypt::pass_decrypt(&mut rd, &mut wr, PASSWORD, PassFileFormat::V1).map_err(|e| dec_err(&e));
        peak = mem_peak().saturating_sub(base);
    }
    let bigreq = crate::zero::mem_biggest_request();
    crate::zero::mem_set_request_cap(0);
    drop(rd);
    let o = match res {
        Ok(()) => "ok".to_string(),
        Err(e) => format!("err:{}", e),
    };
    let mm = m.borrow();
    report(o, peak, &mm, &format!(" hdr_off={} flen={} bigreq={}", off, flen, bigreq))
}

// ---------------------------------------------------------------------------------------------
// C11, sinks that take little per call and files from an independent writer:
//   mem_key_encw  <len> <read_size> <write_cap>      mem_pass_encw <len> <read_size> <write_cap>
//     as mem_*_enc, but the sink accepts at most <write_cap> bytes per write call (short writes: a socket,
//     a rate limiter, a bounded ring); what it accepts is counted and checksummed, nothing is kept.
//   mem_key_decx  <nonfinal_chunks> <read_size> <minlen> <maxlen> <write_cap|0>     mem_pass_decx ...
//     a file written chunk by chunk by THIS harness from the exported primitives (noise_encrypt / scrypt, HKDF,
//     the Noise AEAD): <nonfinal_chunks> non-final chunks whose plaintext lengths are drawn from
//     <minlen>..<maxlen> (0 = empty chunks, which kestrel's own encryptor never writes but the format allows),
//     then a final chunk of 7 bytes; the file is decrypted from a BufReader<File> under the meter exactly as in
//     mem_*_dec (write_cap 0 = the sink takes everything).  Reply: as mem_*_dec plus flen=<file length> plain=<plaintext length>
struct CapSink<'a> {
    m: &'a RefCell<Meter>,
    cap: usize,
}
impl<'a> Write for CapSink<'a> {
    fn write(&mut self, buf: &[u8]) -> io::Result<usize> {
        let mut m = self.m.borrow_mut();
        m.sample();
        let lag = m.r.saturating_sub(m.w);
        if lag > m.maxlag {
            m.maxlag = lag;
        }
        let gap = m.r - m.r_at_last_write;
        if gap > m.maxgap {
            m.maxgap = gap;
        }
        m.r_at_last_write = m.r;
        let n = buf.len().min(self.cap);
        m.outsum = fnv(m.outsum, &buf[..n]);
        m.w += n as u64;
        m.writes += 1;
        Ok(n)
    }
    fn flush(&mut self) -> io::Result<()> {
        let mut m = self.m.borrow_mut();
        m.sample();
        m.flushes += 1;
        Ok(())
    }
}

fn mem_encw(key_mode: bool, len: u64, read_size: usize, write_cap: usize) -> String {
    let m = RefCell::new(Meter::new());
    let mut rd = GenReader { left: len, cap: read_size, st: SEED, m: &m };
    let mut wr = CapSink { m: &m, cap: write_cap };
    let base = mem_reset_peak();
    m.borrow_mut().base = base;
    let res = encrypt_into(key_mode, &mut rd, &mut wr);
    let peak = mem_peak().saturating_sub(base);
    let o = match res {
        Ok(()) => "ok".to_string(),
        Err(e) => format!("err:{}", e),
    };
    let mm = m.borrow();
    report(o, peak, &mm, "")
}

// the independent writer: returns (file length, plaintext length, FNV of the plaintext)
fn decx_write(key_mode: bool, count: u64, minlen: usize, maxlen: usize, path: &str) -> Result<(u64, u64, u64), String> {
    let f = File::create(path).map_err(|e| format!("tmpfile:{:?}", e.kind()))?;
    let mut wr = BufWriter::with_capacity(1 << 20, f);
    let ioe = |e: io::Error| format!("tmpfile:{:?}", e.kind());
    let key: Vec<u8>;
    let aad: Vec<u8>;
    let mut flen: u64;
    if key_mode {
        let s = PrivateKey::try_from(&ALICE_SK[..]).unwrap();
        let spk = s.to_public().unwrap();
        let rpk = PrivateKey::try_from(&BOB_SK[..]).unwrap().to_public().unwrap();
        let e = PrivateKey::try_from(&EPH_SK[..]).unwrap();
        let epk = e.to_public().unwrap();
        let pk = PayloadKey::new(&PAYLOAD);
        let prologue = [0x65u8, 0x67, 0x6b, 0x10];
        let msg = kc::noise_encrypt(&s, &spk, &rpk, Some(&e), Some(&epk), &prologue, &pk).map_err(|_| "prep_err:noise".to_string())?;
        wr.write_all(&prologue).map_err(ioe)?;
        wr.write_all(&msg.ciphertext).map_err(ioe)?;
        flen = 4 + msg.ciphertext.len() as u64;
        key = kc::hkdf_sha256(&[], pk.as_bytes(), &msg.handshake_hash, 32);
        aad = Vec::new();
    } else {
        let magic = [0x65u8, 0x67, 0x6b, 0x20];
        wr.write_all(&magic).map_err(ioe)?;
        wr.write_all(&SALT).map_err(ioe)?;
        flen = 36;
        key = kc::scrypt(PASSWORD, &SALT, 32768, 8, 1, 32);
        aad = magic.to_vec();
    }
    let mut st: u64 = SEED ^ 0x5151;
    let mut sum = FNV_OFF;
    let mut plain: u64 = 0;
    let mut pt = Vec::with_capacity(maxlen.max(7));
    for i in 0..=count {
        let last = i == count;
        st = st.wrapping_mul(6364136223846793005).wrapping_add(1442695040888963407);
        let n = if last { 7 } else { minlen + ((st >> 33) as usize) % (maxlen - minlen + 1) };
        pt.clear();
        for _ in 0..n {
            st = st.wrapping_mul(6364136223846793005).wrapping_add(1442695040888963407);
            pt.push((st >> 56) as u8);
        }
        sum = fnv(sum, &pt);
        plain += n as u64;
        let flag: u32 = if last { 1 } else { 0 };
        let mut ad = aad.clone();
        ad.extend_from_slice(&flag.to_be_bytes());
        ad.extend_from_slice(&(n as u32).to_be_bytes());
        let ct = kc::verif_hooks::chapoly_encrypt_noise(&key, i, &ad, &pt);
        wr.write_all(&i.to_be_bytes()).map_err(ioe)?;
        wr.write_all(&flag.to_be_bytes()).map_err(ioe)?;
        wr.write_all(&(n as u32).to_be_bytes()).map_err(ioe)?;
        wr.write_all(&ct).map_err(ioe)?;
        flen += 16 + ct.len() as u64;
    }
    wr.flush().map_err(ioe)?;
    Ok((flen, plain, sum))
}

fn mem_decx(key_mode: bool, count: u64, read_size: usize, minlen: usize, maxlen: usize, write_cap: usize) -> String {
    if minlen > maxlen || maxlen > 65536 {
        return "outcome=badargs".into();
    }
    let path = format!(
        "/tmp/kv_libdrv_memx_{}_{}.bin",
        std::process::id(),
        TMP_COUNTER.fetch_add(1, Ordering::Relaxed)
    );
    let tmp = TmpFile(path.clone());
    let (flen, plain, plain_sum) = match decx_write(key_mode, count, minlen, maxlen, &path) {
        Ok(x) => x,
        Err(e) => return format!("outcome={}", e),
    };
    let f = match File::open(&path) {
        Ok(f) => f,
        Err(e) => return format!("outcome=tmpfile:{:?}", e.kind()),
    };
    drop(tmp);
    let m = RefCell::new(Meter::new());
    let mut rd = CapReader { inner: BufReader::new(f), cap: read_size, m: &m };
    let mut wr = CapSink { m: &m, cap: if write_cap == 0 { usize::MAX } else { write_cap } };
    let res: Result<(), String>;
    let peak;
    if key_mode {
        let r = PrivateKey::try_from(&BOB_SK[..]).unwrap();
        let rpk = r.to_public().unwrap();
        let base = mem_reset_peak();
        m.borrow_mut().base = base;
        res = kc::decrypt::key_decrypt(&mut rd, &mut wr, &r, &rpk, AsymFileFormat::V1)
            .map(|_| ())
            .map_err(|e| dec_err(&e));
        peak = mem_peak().saturating_sub(base);
    } else {
        let base = mem_reset_peak();
        m.borrow_mut().base = base;
        res = kc::decrypt::pass_decrypt(&mut rd, &mut wr, PASSWORD, PassFileFormat::V1).map_err(|e| dec_err(&e));
        peak = mem_peak().saturating_sub(base);
    }
    drop(rd);
    let o = match res {
        Ok(()) => "ok".to_string(),
        Err(e) => format!("err:{}", e),
    };
    let mm = m.borrow();
    let matched = mm.outsum == plain_sum && mm.w == plain;
    report(o, peak, &mm, &format!(" match={} flen={} plain={}", if matched { 1 } else { 0 }, flen, plain))
}

pub fn run(a: &[&str]) -> String {
    if a.len() < 3 {
        return "outcome=badargs".into();
    }
    let len: u64 = a[1].parse().expect("len");
    let read_size: usize = a[2].parse().expect("read_size");
    assert!(read_size > 0, "read_size must be positive");
    if a[0] == "mem_key_encw" || a[0] == "mem_pass_encw" {
        if a.len() < 4 {
            return "outcome=badargs".into();
        }
        let wcap: usize = a[3].parse().expect("write_cap");
        assert!(wcap > 0, "write_cap must be positive");
        return mem_encw(a[0] == "mem_key_encw", len, read_size, wcap);
    }
    if a[0] == "mem_key_decx" || a[0] == "mem_pass_decx" {
        if a.len() < 6 {
            return "outcome=badargs".into();
        }
        let minlen: usize = a[3].parse().expect("minlen");
        let maxlen: usize = a[4].parse().expect("maxlen");
        let wcap: usize = a[5].parse().expect("write_cap");
        return mem_decx(a[0] == "mem_key_decx", len, read_size, minlen, maxlen, wcap);
    }
    if a[0] == "mem_key_forged" || a[0] == "mem_pass_forged" {
        if a.len() < 6 {
            return "outcome=badargs".into();
        }
        let idx: u64 = a[3].parse().expect("chunk_index");
        let announced: u32 = a[4].parse().expect("announced");
        return mem_forged(a[0] == "mem_key_forged", len, read_size, idx, announced, a[5]);
    }
    match a[0] {
        "mem_key_enc" => mem_enc(true, len, read_size),
        "mem_pass_enc" => mem_enc(false, len, read_size),
        "mem_key_dec" => mem_dec(true, len, read_size),
        "mem_pass_dec" => mem_dec(false, len, read_size),
        _ => "outcome=badop".into(),
    }
}
