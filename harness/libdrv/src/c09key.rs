// C09 ("an encoded key ... of whatever length ... a normal result or an error value, never a panic"): raw key bytes of
// ANY length handed to the library's validating constructors (PublicKey::try_from / PrivateKey::try_from), and, when the
// constructor answers Ok, the key USED in every operation of the public API that takes such a key.  Each step runs under
// its own catch_unwind; a key the constructor refuses (Err) is an error value and nothing is used.
//
//   c09key pub  <raw> <sk> <spk> <msg> <file>     raw -> PublicKey::try_from
//   c09key priv <raw> <sk> <spk> <msg> <file>     raw -> PrivateKey::try_from
//     sk/spk: a well-formed key pair (32 bytes each), msg: an authentic Noise message for (sk, spk), prologue "egk\x10",
//     file: an authentic key file for (sk, spk)
//
//   outcome=ctor_err                                  the constructor refused the bytes
//   outcome=ok len=<n> uses=<name>:<ok|err>,...       constructed and used everywhere without a panic
//   outcome=panic at=<ctor|use name> len=<n> msg=<hex> uses=...   first panic
use std::panic::{catch_unwind, AssertUnwindSafe};

use kestrel_crypto as kc;
use kestrel_crypto::{AsymFileFormat, PayloadKey, PrivateKey, PublicKey};

fn msg_of(e: Box<dyn std::any::Any + Send>) -> String {
    let m: String = if let Some(s) = e.downcast_ref::<&'static str>() {
        s.to_string()
    } else if let Some(s) = e.downcast_ref::<String>() {
        s.clone()
    } else {
        String::new()
    };
    let b = m.as_bytes();
    crate::hex(&b[..b.len().min(96)])
}

struct Uses {
    done: Vec<String>,
    panic: Option<(String, String)>,
}

impl Uses {
    fn step<F: FnOnce() -> bool>(&mut self, name: &str, f: F) {
        if self.panic.is_some() {
            return;
        }
        match catch_unwind(AssertUnwindSafe(f)) {
            Ok(ok) => self.done.push(format!("{}:{}", name, if ok { "ok" } else { "err" })),
            Err(e) => self.panic = Some((name.to_string(), msg_of(e))),
        }
    }
}

pub fn run(a: &[&str]) -> String {
    // a[0] = "c09key"
    let raw = crate::unhex(a[2]);
    let sk = PrivateKey::try_from(crate::unhex(a[3]).as_slice()).unwrap();
    let spk = PublicKey::try_from(crate::unhex(a[4]).as_slice()).unwrap();
    let msg = crate::unhex(a[5]);
    let file = crate::unhex(a[6]);
    let prologue = b"egk\x10";
    let payload = PayloadKey::new(&[7u8; 32]);
    let plain = b"c09key plaintext".to_vec();
    let mut u = Uses { done: Vec::new(), panic: None };
    let len;
    match a[1] {
        "pub" => {
            let pk = match catch_unwind(AssertUnwindSafe(|| PublicKey::try_from(raw.as_slice()))) {
                Err(e) => return format!("outcome=panic at=ctor len=0 msg={} uses=-", msg_of(e)),
                Ok(Err(_)) => return "outcome=ctor_err".into(),
                Ok(Ok(pk)) => pk,
            };
            len = pk.as_bytes().len();
            u.step("clone", || pk.clone().as_bytes().len() == pk.as_bytes().len());
            u.step("dh", || sk.diffie_hellman(&pk).is_ok());
            u.step("noise_enc.recipient", || {
                kc::noise_encrypt(&sk, &spk, &pk, Some(&sk), Some(&spk), prologue, &payload).is_ok()
            });
            u.step("noise_enc.sender_public", || {
                kc::noise_encrypt(&sk, &pk, &spk, Some(&sk), Some(&spk), prologue, &payload).is_ok()
            });
            u.step("noise_enc.ephemeral_public", || {
                kc::noise_encrypt(&sk, &spk, &spk, Some(&sk), Some(&pk), prologue, &payload).is_ok()
            });
            u.step("key_enc.recipient", || {
                let mut rd: &[u8] = plain.as_slice();
                let mut out: Vec<u8> = Vec::new();
                kc::encrypt::key_encrypt(&mut rd, &mut out, &sk, &spk, &pk, Some(&sk), Some(&spk), Some(&payload), AsymFileFormat::V1).is_ok()
            });
            u.step("key_enc.sender_public", || {
                let mut rd: &[u8] = plain.as_slice();
                let mut out: Vec<u8> = Vec::new();
                kc::encrypt::key_encrypt(&mut rd, &mut out, &sk, &pk, &spk, Some(&sk), Some(&spk), Some(&payload), AsymFileFormat::V1).is_ok()
            });
            u.step("noise_dec.recipient_public", || kc::noise_decrypt(&sk, &pk, prologue, &msg).is_ok());
            u.step("key_dec.recipient_public", || {
                let mut rd: &[u8] = file.as_slice();
                let mut out: Vec<u8> = Vec::new();
                kc::decrypt::key_decrypt(&mut rd, &mut out, &sk, &pk, AsymFileFormat::V1).is_ok()
            });
        }
        "priv" => {
            let k = match catch_unwind(AssertUnwindSafe(|| PrivateKey::try_from(raw.as_slice()))) {
                Err(e) => return format!("outcome=panic at=ctor len=0 msg={} uses=-", msg_of(e)),
                Ok(Err(_)) => return "outcome=ctor_err".into(),
                Ok(Ok(k)) => k,
            };
            len = k.as_bytes().len();
            u.step("clone", || k.clone().as_bytes().len() == k.as_bytes().len());
            u.step("to_public", || k.to_public().is_ok());
            u.step("dh", || k.diffie_hellman(&spk).is_ok());
            u.step("noise_enc.sender", || {
                kc::noise_encrypt(&k, &spk, &spk, Some(&sk), Some(&spk), prologue, &payload).is_ok()
            });
            u.step("noise_enc.ephemeral", || {
                kc::noise_encrypt(&sk, &spk, &spk, Some(&k), Some(&spk), prologue, &payload).is_ok()
            });
            u.step("key_enc.sender", || {
                let mut rd: &[u8] = plain.as_slice();
                let mut out: Vec<u8> = Vec::new();
                kc::encrypt::key_encrypt(&mut rd, &mut out, &k, &spk, &spk, Some(&sk), Some(&spk), Some(&payload), AsymFileFormat::V1).is_ok()
            });
            u.step("noise_dec.recipient", || kc::noise_decrypt(&k, &spk, prologue, &msg).is_ok());
            u.step("key_dec.recipient", || {
                let mut rd: &[u8] = file.as_slice();
                let mut out: Vec<u8> = Vec::new();
                kc::decrypt::key_decrypt(&mut rd, &mut out, &k, &spk, AsymFileFormat::V1).is_ok()
            });
        }
        _ => return "outcome=badop".into(),
    }
    let uses = if u.done.is_empty() { "-".to_string() } else { u.done.join(",") };
    match u.panic {
        Some((at, m)) => format!("outcome=panic at={} len={} msg={} uses={}", at, len, m, uses),
        None => format!("outcome=ok len={} uses={}", len, uses),
    }
}
