// C01 with VERY many chunks: a round trip through the chunk hooks that stores nothing.
//
//   c01rt <key> <aad> <chunk_size> <nbytes> <seed> <readcap>
//
// The plaintext is the first <nbytes> bytes of a generator started from <seed>; the source hands it out in reads of
// at most <readcap> bytes (readcap 1 with chunk size 1: every byte is one chunk).  The encryptor runs in a second
// thread and writes into a pipe, the decryptor reads from the pipe and writes into a sink that compares every
// released byte with the generator, so memory stays constant however many chunks there are.
//
//   outcome=<ok|fail> enc=<ok|err:..|panic> dec=<ok|err:..> released=<bytes> mismatch=<none|offset> ctbytes=<bytes>
//     outcome=ok  iff  both calls returned Ok, exactly <nbytes> bytes were released and all of them are the plaintext
use std::io::{self, Read, Write};
use std::sync::mpsc::{sync_channel, Receiver, SyncSender};

use kestrel_crypto as kc;

struct Gen(u64);
impl Gen {
    fn new(seed: u64) -> Gen {
        Gen(seed.wrapping_mul(0x9E37_79B9_7F4A_7C15) | 1)
    }
    fn next(&mut self) -> u8 {
        // xorshift64*
        let mut x = self.0;
        x ^= x >> 12;
        x ^= x << 25;
        x ^= x >> 27;
        self.0 = x;
        (x.wrapping_mul(0x2545_F491_4F6C_DD1D) >> 56) as u8
    }
}

struct GenReader {
    g: Gen,
    left: u64,
    cap: usize,
}
impl Read for GenReader {
    fn read(&mut self, buf: &mut [u8]) -> io::Result<usize> {
        let m = (buf.len().min(self.cap) as u64).min(self.left) as usize;
        for b in buf[..m].iter_mut() {
            *b = self.g.next();
        }
        self.left -= m as u64;
        Ok(m)
    }
}

struct PipeWriter {
    tx: SyncSender<Vec<u8>>,
    buf: Vec<u8>,
    total: u64,
}
impl PipeWriter {
    fn push(&mut self) -> io::Result<()> {
        if self.buf.is_empty() {
            return Ok(());
        }
        let b = std::mem::replace(&mut self.buf, Vec::with_capacity(1 << 16));
        self.tx.send(b).map_err(|_| io::Error::new(io::ErrorKind::BrokenPipe, "reader gone"))
    }
}
impl Write for PipeWriter {
    fn write(&mut self, b: &[u8]) -> io::Result<usize> {
        self.buf.extend_from_slice(b);
        self.total += b.len() as u64;
        if self.buf.len() >= (1 << 16) {
            self.push()?;
        }
        Ok(b.len())
    }
    fn flush(&mut self) -> io::Result<()> {
        Ok(())
    }
}

struct PipeReader {
    rx: Receiver<Vec<u8>>,
    cur: Vec<u8>,
    pos: usize,
}
impl Read for PipeReader {
    fn read(&mut self, buf: &mut [u8]) -> io::Result<usize> {
        if buf.is_empty() {
            return Ok(0);
        }
        while self.pos == self.cur.len() {
            match self.rx.recv() {
                Ok(v) => {
                    self.cur = v;
                    self.pos = 0;
                }
                Err(_) => return Ok(0), // writer finished (or died): end of file
            }
        }
        let m = buf.len().min(self.cur.len() - self.pos);
        buf[..m].copy_from_slice(&self.cur[self.pos..self.pos + m]);
        self.pos += m;
        Ok(m)
    }
}

struct CheckSink {
    g: Gen,
    n: u64,
    mismatch: Option<u64>,
}
impl Write for CheckSink {
    fn write(&mut self, b: &[u8]) -> io::Result<usize> {
        for x in b {
            let want = self.g.next();
            if *x != want && self.mismatch.is_none() {
                self.mismatch = Some(self.n);
            }
            self.n += 1;
        }
        Ok(b.len())
    }
    fn flush(&mut self) -> io::Result<()> {
        Ok(())
    }
}

pub fn run(a: &[&str]) -> String {
    // a[0] = "c01rt"
    let key = crate::unhex(a[1]);
    let aad = crate::unhex(a[2]);
    let cs: u32 = a[3].parse().unwrap();
    let nbytes: u64 = a[4].parse().unwrap();
    let seed: u64 = a[5].parse().unwrap();
    let cap: usize = a[6].parse().unwrap();
    let (tx, rx) = sync_channel::<Vec<u8>>(64);
    let (k2, a2) = (key.clone(), aad.clone());
    let enc = std::thread::spawn(move || {
        let mut src = GenReader { g: Gen::new(seed), left: nbytes, cap: cap.max(1) };
        let mut w = PipeWriter { tx, buf: Vec::with_capacity(1 << 16), total: 0 };
        let res = kc::encrypt::verif_encrypt_chunks(&mut src, &mut w, &k2, &a2, cs);
        let o = match &res {
            Ok(()) => match w.push() {
                Ok(()) => "ok".to_string(),
                Err(_) => "err:IOWrite:Other".to_string(),
            },
            Err(e) => format!("err:{}", crate::enc_err(e)),
        };
        (o, w.total)
    });
    let mut rd = PipeReader { rx, cur: Vec::new(), pos: 0 };
    let mut sink = CheckSink { g: Gen::new(seed), n: 0, mismatch: None };
    let res = kc::decrypt::verif_decrypt_chunks(&mut rd, &mut sink, &key, &aad, cs);
    let dec = match &res { Ok(()) => "ok".to_string(), Err(e) => format!("err:{}", crate::dec_err(e)) };
    drop(rd); // an encryptor still writing gets a broken pipe and stops
    let (enc_o, ct) = match enc.join() {
        Ok(x) => x,
        Err(_) => ("panic".to_string(), 0),
    };
    let good = enc_o == "ok" && dec == "ok" && sink.n == nbytes && sink.mismatch.is_none();
    format!(
        "outcome={} enc={} dec={} released={} mismatch={} ctbytes={}",
        if good { "ok" } else { "fail" },
        enc_o,
        dec,
        sink.n,
        match sink.mismatch { None => "none".to_string(), Some(i) => i.to_string() },
        ct
    )
}
