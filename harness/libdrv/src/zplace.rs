// C20: placement variety (child module of zero.rs; uses its watch table).
//
// z_place <kind> <ctor> <wrap> <rel> <clone> <store> <offa> <offb> <skew> <key hex32>
//   kind   K = PayloadKey (inline array: the secret lives where the value lives)
//          P = PrivateKey (the secret lives in the Vec's heap block)
//   ctor   new (K: PayloadKey::new) | try (P: PrivateKey::try_from) | gen (P: PrivateKey::generate, the installed
//          random stream supplies the key)
//   wrap   what the key is a part of (constructed IN PLACE in the storage block):
//          bare = the key itself | opt = Option<key> | after1 = repr(C) { u8, key } | after3 = repr(C) { [u8;3], key } |
//          tup = (u8, key) (compiler's layout) | enum = enum { A(u16), B(key) } | mixed = { bool, Option<key>, u64 }
//          (compiler's layout; the shape of the Noise CipherState) | arr = repr(C) { u8, [key; 3] } (key, clone, clone)
//   rel    how a value is released: drop = ptr::drop_in_place | zeroize = Zeroize::zeroize on every key inside, then
//          drop_in_place | clear = the Option inside is assigned None, then drop_in_place (wraps without an Option: as
//          drop) | unwind = drop_in_place runs in a destructor while a panic unwinds
//   clone  none | ofirst | cfirst : a clone of the whole value is constructed in place in a SECOND storage block; the
//          original / the clone is released first
//   store  heap | stack : two 16-byte aligned blocks of STORE bytes, filled with FILL, owned by the driver for the
//          whole case (they are read after the values in them have been released)
//   offa, offb  the value / its clone start at this offset of their block (rounded down to the type's alignment;
//          the offsets used are reported)
//   skew   0..15: while the keys are constructed, every 32-byte alignment-1 heap block handed out by the global
//          allocator starts at an address = skew (mod 16) (0: the system allocator's own address).  This moves the
//          PrivateKey's Vec buffer (and nothing else the case looks at) off the 16-byte boundary.
// Reply: sizes, the offsets of every key's bytes in its block (K) / the address mod 16 of every key's heap block (P),
// a snapshot of ALL bytes of both storage blocks (and, for P, of every heap block that is still allocated) before the
// first release and after every release step, and the allocator's records of the watched heap blocks.
use super::*;
use std::alloc::Layout;
use std::sync::atomic::{AtomicBool, AtomicUsize, Ordering};
use zeroize::Zeroize;

const STORE: usize = 128;
const FILL: u8 = 0xEE;

// ------------------------------------------------------------------ skewed 32-byte blocks (used by the global allocator)
const MAX_SKEW: usize = 64;
static SKEW: AtomicUsize = AtomicUsize::new(0); // 0 = off, else 1..15
static NSKEW: AtomicUsize = AtomicUsize::new(0); // skewed blocks that are live
static SKLOCK: AtomicBool = AtomicBool::new(false);
static mut SKTAB: [(usize, usize); MAX_SKEW] = [(0, 0); MAX_SKEW]; // (address handed out, skew)

fn sk_with<R>(f: impl FnOnce(&mut [(usize, usize); MAX_SKEW]) -> R) -> R {
    while SKLOCK.compare_exchange_weak(false, true, Ordering::Acquire, Ordering::Relaxed).is_err() {
        std::hint::spin_loop();
    }
    let r = f(unsafe { &mut *std::ptr::addr_of_mut!(SKTAB) });
    SKLOCK.store(false, Ordering::Release);
    r
}

fn skew_set(k: usize) {
    SKEW.store(k & 15, Ordering::SeqCst);
}

// alloc / alloc_zeroed: Some(block) when the request was served at a skewed address
pub(super) unsafe fn skew_alloc(layout: Layout, zeroed: bool) -> Option<*mut u8> {
    let k = SKEW.load(Ordering::Relaxed);
    if k == 0 || layout.align() != 1 || layout.size() != 32 {
        return None;
    }
    let big = Layout::from_size_align_unchecked(layout.size() + 16, 16);
    let base = if zeroed { System.alloc_zeroed(big) } else { System.alloc(big) };
    if base.is_null() {
        return None;
    }
    let p = base.add(k);
    let ok = sk_with(|t| {
        for e in t.iter_mut() {
            if e.0 == 0 {
                *e = (p as usize, k);
                return true;
            }
        }
        false
    });
    if !ok {
        System.dealloc(base, big);
        return None;
    }
    NSKEW.fetch_add(1, Ordering::SeqCst);
    Some(p)
}

pub(super) fn skew_owns(ptr: *mut u8) -> bool {
    if NSKEW.load(Ordering::Relaxed) == 0 {
        return false;
    }
    sk_with(|t| t.iter().any(|e| e.0 == ptr as usize && e.0 != 0))
}

// dealloc: true when the block was a skewed one (it has been given back to the system allocator)
pub(super) unsafe fn skew_dealloc(ptr: *mut u8, layout: Layout) -> bool {
    if NSKEW.load(Ordering::Relaxed) == 0 {
        return false;
    }
    let k = sk_with(|t| {
        for e in t.iter_mut() {
            if e.0 == ptr as usize && e.0 != 0 {
                let k = e.1;
                *e = (0, 0);
                return Some(k);
            }
        }
        None
    });
    match k {
        Some(k) => {
            NSKEW.fetch_sub(1, Ordering::SeqCst);
            System.dealloc(ptr.sub(k), Layout::from_size_align_unchecked(layout.size() + 16, 16));
            true
        }
        None => false,
    }
}

// ------------------------------------------------------------------ the secret types and what they can be part of
trait Secret: Clone + Zeroize {
    fn secret_ptr(&self) -> *const u8;
}
impl Secret for PrivateKey {
    fn secret_ptr(&self) -> *const u8 {
        self.as_bytes().as_ptr()
    }
}
impl Secret for PayloadKey {
    fn secret_ptr(&self) -> *const u8 {
        self.as_bytes().as_ptr()
    }
}

trait Wrap<T: Secret>: Clone + Sized {
    fn build(first: T) -> Self;
    fn each(&mut self, f: &mut dyn FnMut(&mut T));
    // assigns None to the Option inside; false: this shape has none
    fn clear(&mut self) -> bool {
        false
    }
}

#[derive(Clone)]
struct Bare<T>(T);
#[derive(Clone)]
#[allow(dead_code)]
#[repr(C)]
struct After1<T> {
    tag: u8,
    v: T,
}
#[derive(Clone)]
#[allow(dead_code)]
#[repr(C)]
struct After3<T> {
    pad: [u8; 3],
    v: T,
}
#[derive(Clone)]
#[allow(dead_code)]
struct Tup<T>(u8, T);
#[derive(Clone)]
#[allow(dead_code)]
enum En<T> {
    A(u16),
    B(T),
}
#[derive(Clone)]
#[allow(dead_code)]
struct Mixed<T> {
    flag: bool,
    v: Option<T>,
    n: u64,
}
#[derive(Clone)]
#[allow(dead_code)]
#[repr(C)]
struct Arr<T> {
    h: u8,
    a: [T; 3],
}

impl<T: Secret> Wrap<T> for Bare<T> {
    fn build(first: T) -> Self {
        Bare(first)
    }
    fn each(&mut self, f: &mut dyn FnMut(&mut T)) {
        f(&mut self.0)
    }
}
impl<T: Secret> Wrap<T> for Option<T> {
    fn build(first: T) -> Self {
        Some(first)
    }
    fn each(&mut self, f: &mut dyn FnMut(&mut T)) {
        if let Some(t) = self.as_mut() {
            f(t)
        }
    }
    fn clear(&mut self) -> bool {
        *self = None;
        true
    }
}
impl<T: Secret> Wrap<T> for After1<T> {
    fn build(first: T) -> Self {
        After1 { tag: FILL, v: first }
    }
    fn each(&mut self, f: &mut dyn FnMut(&mut T)) {
        f(&mut self.v)
    }
}
impl<T: Secret> Wrap<T> for After3<T> {
    fn build(first: T) -> Self {
        After3 { pad: [FILL; 3], v: first }
    }
    fn each(&mut self, f: &mut dyn FnMut(&mut T)) {
        f(&mut self.v)
    }
}
impl<T: Secret> Wrap<T> for Tup<T> {
    fn build(first: T) -> Self {
        Tup(FILL, first)
    }
    fn each(&mut self, f: &mut dyn FnMut(&mut T)) {
        f(&mut self.1)
    }
}
impl<T: Secret> Wrap<T> for En<T> {
    fn build(first: T) -> Self {
        En::B(first)
    }
    fn each(&mut self, f: &mut dyn FnMut(&mut T)) {
        if let En::B(t) = self {
            f(t)
        }
    }
}
impl<T: Secret> Wrap<T> for Mixed<T> {
    fn build(first: T) -> Self {
        Mixed { flag: true, v: Some(first), n: 0xEEEE_EEEE_EEEE_EEEE }
    }
    fn each(&mut self, f: &mut dyn FnMut(&mut T)) {
        if let Some(t) = self.v.as_mut() {
            f(t)
        }
    }
    fn clear(&mut self) -> bool {
        self.v = None;
        true
    }
}
impl<T: Secret> Wrap<T> for Arr<T> {
    fn build(first: T) -> Self {
        let b = first.clone();
        let c = b.clone();
        Arr { h: FILL, a: [first, b, c] }
    }
    fn each(&mut self, f: &mut dyn FnMut(&mut T)) {
        for t in self.a.iter_mut() {
            f(t)
        }
    }
}

#[repr(C, align(16))]
struct Buf([u8; STORE]);

struct Params<'a> {
    kind: &'a str,
    rel: &'a str,
    clone: &'a str,
    store: &'a str,
    offa: usize,
    offb: usize,
    skew: usize,
}

// drops the value in place when it goes out of scope (used to release a value by unwinding)
struct InPlace<W>(*mut W);
impl<W> Drop for InPlace<W> {
    fn drop(&mut self) {
        unsafe { std::ptr::drop_in_place(self.0) }
    }
}

fn ptr_list(v: &[usize], base: usize, is_k: bool) -> String {
    if v.is_empty() {
        return "-".into();
    }
    v.iter()
        .map(|p| if is_k { format!("{}", p.wrapping_sub(base)) } else { format!("{}", p % 16) })
        .collect::<Vec<_>>()
        .join(",")
}

unsafe fn scenario<T: Secret, W: Wrap<T>>(p: &Params, first: &mut dyn FnMut() -> T) -> String {
    let is_k = p.kind == "K";
    let size = std::mem::size_of::<W>();
    let align = std::mem::align_of::<W>();
    let offa = p.offa - p.offa % align;
    let offb = p.offb - p.offb % align;
    assert!(size + offa <= STORE && size + offb <= STORE, "z_place: value does not fit the storage block");
    let lay = Layout::from_size_align(STORE, 16).unwrap();
    let mut stack_a = Buf([FILL; STORE]);
    let mut stack_b = Buf([FILL; STORE]);
    let heap = p.store == "heap";
    let (sa, sb) = if heap {
        let a = System.alloc(lay);
        let b = System.alloc(lay);
        assert!(!a.is_null() && !b.is_null());
        std::ptr::write_bytes(a, FILL, STORE);
        std::ptr::write_bytes(b, FILL, STORE);
        (a, b)
    } else {
        (stack_a.0.as_mut_ptr(), stack_b.0.as_mut_ptr())
    };
    assert!(sa as usize % 16 == 0 && sb as usize % 16 == 0);
    let pa = sa.add(offa) as *mut W;
    let pb = sb.add(offb) as *mut W;
    let with_clone = p.clone != "none";
    let mut snaps: Vec<String> = Vec::with_capacity(8);
    let mut ptrs_a: Vec<usize> = Vec::with_capacity(4);
    let mut ptrs_b: Vec<usize> = Vec::with_capacity(4);

    watch_reset();
    skew_set(p.skew);
    std::ptr::write(pa, W::build(first()));
    (*pa).each(&mut |t| ptrs_a.push(t.secret_ptr() as usize));
    if with_clone {
        std::ptr::write(pb, (*pa).clone());
        (*pb).each(&mut |t| ptrs_b.push(t.secret_ptr() as usize));
    }
    skew_set(0);
    if !is_k {
        for a in ptrs_a.iter().chain(ptrs_b.iter()) {
            watch_add(*a, 32);
        }
    }

    // all bytes of both storage blocks, and (P) the 32 bytes of every key heap block that is still allocated
    let snap = |label: &str, snaps: &mut Vec<String>| {
        let a = std::slice::from_raw_parts(sa as *const u8, STORE);
        let b = std::slice::from_raw_parts(sb as *const u8, STORE);
        let heap_of = |v: &Vec<usize>| -> String {
            if is_k || v.is_empty() {
                return "-".into();
            }
            v.iter()
                .map(|ad| {
                    if watch_has(*ad) {
                        hex(std::slice::from_raw_parts(*ad as *const u8, 32))
                    } else {
                        "x".to_string() // released: the allocator's record has the contents
                    }
                })
                .collect::<Vec<_>>()
                .join(",")
        };
        snaps.push(format!("{}:{}:{}:{}:{}:{}", label, hex(a), hex(b), heap_of(&ptrs_a), heap_of(&ptrs_b), rec_count()));
    };
    snap("pre", &mut snaps);

    let order: Vec<(char, *mut W)> = match p.clone {
        "none" => vec![('A', pa)],
        "ofirst" => vec![('A', pa), ('B', pb)],
        "cfirst" => vec![('B', pb), ('A', pa)],
        _ => panic!("z_place: bad clone mode"),
    };
    let mut rel_used = p.rel;
    for (name, px) in order.iter().copied() {
        match p.rel {
            "drop" => std::ptr::drop_in_place(px),
            "zeroize" => {
                (*px).each(&mut |t| t.zeroize());
                snap(&format!("zero{}", name), &mut snaps);
                std::ptr::drop_in_place(px);
            }
            "clear" => {
                if (*px).clear() {
                    snap(&format!("clear{}", name), &mut snaps);
                } else {
                    rel_used = "drop";
                }
                std::ptr::drop_in_place(px);
            }
            "unwind" => {
                let r = std::panic::catch_unwind(std::panic::AssertUnwindSafe(move || {
                    let _g = InPlace(px);
                    panic!("z_place: unwinding over a key container that lives in place");
                }));
                assert!(r.is_err());
            }
            _ => panic!("z_place: bad release mode"),
        }
        snap(&format!("drop{}", name), &mut snaps);
    }
    let nrec = rec_count();
    let freed = recs_range(0, nrec);
    let ovf = overflow();
    watch_reset();
    let s = format!(
        "outcome=ok kind={} size={} align={} n={} rel={} offa={} offb={} ka={} kb={} snaps={} freed={} overflow={}",
        p.kind,
        size,
        align,
        ptrs_a.len(),
        rel_used,
        offa,
        offb,
        ptr_list(&ptrs_a, sa as usize, is_k),
        ptr_list(&ptrs_b, sb as usize, is_k),
        snaps.join(";"),
        freed,
        ovf
    );
    if heap {
        System.dealloc(sa, lay);
        System.dealloc(sb, lay);
    }
    // the stack blocks must stay alive (and addressable) until here
    std::hint::black_box(&mut stack_a);
    std::hint::black_box(&mut stack_b);
    s
}

fn by_wrap<T: Secret>(wrap: &str, p: &Params, first: &mut dyn FnMut() -> T) -> String {
    unsafe {
        match wrap {
            "bare" => scenario::<T, Bare<T>>(p, first),
            "opt" => scenario::<T, Option<T>>(p, first),
            "after1" => scenario::<T, After1<T>>(p, first),
            "after3" => scenario::<T, After3<T>>(p, first),
            "tup" => scenario::<T, Tup<T>>(p, first),
            "enum" => scenario::<T, En<T>>(p, first),
            "mixed" => scenario::<T, Mixed<T>>(p, first),
            "arr" => scenario::<T, Arr<T>>(p, first),
            _ => "outcome=badop".into(),
        }
    }
}

// z_place <kind> <ctor> <wrap> <rel> <clone> <store> <offa> <offb> <skew> <key hex32>
pub(super) fn z_place(a: &[&str]) -> String {
    if a.len() < 11 {
        return "outcome=badop".into();
    }
    let p = Params {
        kind: a[1],
        rel: a[4],
        clone: a[5],
        store: a[6],
        offa: a[7].parse().expect("offa"),
        offb: a[8].parse().expect("offb"),
        skew: a[9].parse().expect("skew"),
    };
    assert!(p.offa < 16 && p.offb < 16 && p.skew < 16, "z_place: offsets are 0..15");
    let mut key = unhex(a[10]);
    assert!(key.len() == 32, "z_place: the key has 32 bytes");
    let r = match (a[1], a[2]) {
        ("K", "new") => by_wrap::<PayloadKey>(a[3], &p, &mut || PayloadKey::new(&key)),
        ("P", "try") => by_wrap::<PrivateKey>(a[3], &p, &mut || PrivateKey::try_from(key.as_slice()).expect("32 bytes")),
        ("P", "gen") => {
            if let Some(msg) = crate::rand_short(32) {
                return msg;
            }
            by_wrap::<PrivateKey>(a[3], &p, &mut || PrivateKey::generate())
        }
        _ => "outcome=badop".into(),
    };
    key.iter_mut().for_each(|b| *b = 0);
    r
}
