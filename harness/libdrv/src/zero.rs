// placeholder for the C20 zeroize-observation driver (filled in later)
pub fn run(_a: &[&str]) -> String {
    "outcome=badop".into()
}
