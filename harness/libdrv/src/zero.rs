// C20 (zeroize-on-release) observation driver.
//
// A custom global allocator wraps std::alloc::System.  It never allocates: all of its
// state lives in one fixed-size static protected by a spin lock.
//
//  * watch mode  : a table of "watched" heap blocks (address, size).  When dealloc() (or a
//                  moving realloc()) is entered for a watched block the block's current bytes
//                  (at most REC_BYTES) are copied into a record BEFORE the block is handed
//                  back to the system allocator.
//  *  scan mode  : every block of >= 32 bytes that is released (dealloc, or realloc that
//                  moved the block) is searched for a 32-byte pattern; blocks that still
//                  contain it are counted.
use std::alloc::{GlobalAlloc, Layout, System};
use std::cell::UnsafeCell;
use std::io::Cursor;
use std::sync::atomic::{AtomicBool, AtomicUsize, Ordering};

use kestrel_crypto as kc;
use kestrel_crypto::{AsymFileFormat, PayloadKey, PrivateKey, PublicKey};

const MAX_WATCH: usize = 128;
const MAX_REC: usize = 128;
const REC_BYTES: usize = 64;

#[derive(Clone, Copy)]
struct Rec {
    len: usize,
    bytes: [u8; REC_BYTES],
}

struct State {
    // watch mode
    watch: [(usize, usize); MAX_WATCH], // (address, size); address 0 = free slot
    recs: [Rec; MAX_REC],
    nrec: usize,
    overflow: usize, // records / registrations that did not fit
    // scan mode
    scan_on: bool,
    pattern: [u8; 32],
    leaks: usize,   // released blocks that contained the pattern
    blocks: usize,  // released blocks that were scanned (size >= 32)
    frees: usize,   // all releases seen while scan mode was on
}

struct Shared {
    lock: AtomicBool,
    st: UnsafeCell<State>,
}
unsafe impl Sync for Shared {}

static SH: Shared = Shared {
    lock: AtomicBool::new(false),
    st: UnsafeCell::new(State {
        watch: [(0, 0); MAX_WATCH],
        recs: [Rec { len: 0, bytes: [0; REC_BYTES] }; MAX_REC],
        nrec: 0,
        overflow: 0,
        scan_on: false,
        pattern: [0; 32],
        leaks: 0,
        blocks: 0,
        frees: 0,
    }),
};

// Runs f on the allocator state under the spin lock.  f must not allocate.
fn with_state<R>(f: impl FnOnce(&mut State) -> R) -> R {
    while SH.lock.compare_exchange_weak(false, true, Ordering::Acquire, Ordering::Relaxed).is_err() {
        std::hint::spin_loop();
    }
    let r = f(unsafe { &mut *SH.st.get() });
    SH.lock.store(false, Ordering::Release);
    r
}

fn contains_pattern(hay: &[u8], pat: &[u8; 32]) -> bool {
    if hay.len() < 32 {
        return false;
    }
    let mut i = 0;
    while i + 32 <= hay.len() {
        if hay[i] == pat[0] && hay[i..i + 32] == pat[..] {
            return true;
        }
        i += 1;
    }
    false
}

// What was seen in a block that is about to be released.
struct Seen {
    watched: Option<Rec>, // bytes of a watched block (entry is removed from the table)
    scanned: bool,
    hit: bool,
}

// Called with the block still intact.  Does not touch the counters/records yet: for realloc
// we only know afterwards whether the block really was released.
unsafe fn inspect(ptr: *mut u8, size: usize) -> Seen {
    with_state(|st| {
        let mut seen = Seen { watched: None, scanned: false, hit: false };
        let addr = ptr as usize;
        for w in st.watch.iter_mut() {
            if w.0 == addr && addr != 0 {
                let n = w.1.min(REC_BYTES).min(size);
                let mut rec = Rec { len: n, bytes: [0; REC_BYTES] };
                std::ptr::copy_nonoverlapping(ptr as *const u8, rec.bytes.as_mut_ptr(), n);
                seen.watched = Some(rec);
                break;
            }
        }
        if st.scan_on && size >= 32 {
            seen.scanned = true;
            seen.hit = contains_pattern(std::slice::from_raw_parts(ptr as *const u8, size), &st.pattern);
        }
        seen
    })
}

// The block at addr has been (or is being) released: commit what inspect() saw.
fn commit(addr: usize, seen: Seen) {
    with_state(|st| {
        if let Some(rec) = seen.watched {
            for w in st.watch.iter_mut() {
                if w.0 == addr {
                    *w = (0, 0);
                    break;
                }
            }
            if st.nrec < MAX_REC {
                st.recs[st.nrec] = rec;
                st.nrec += 1;
            } else {
                st.overflow += 1;
            }
        }
        if st.scan_on {
            st.frees += 1;
            if seen.scanned {
                st.blocks += 1;
                if seen.hit {
                    st.leaks += 1;
                }
            }
        }
    })
}

pub struct WatchAlloc;

// C11: live / peak heap bytes (requested sizes), kept next to the C20 observation.  Plain atomics:
// the counters never allocate and do not change what the allocator hands out.
static LIVE: AtomicUsize = AtomicUsize::new(0);
static PEAK: AtomicUsize = AtomicUsize::new(0);

#[inline]
fn mem_add(n: usize) {
    let now = LIVE.fetch_add(n, Ordering::Relaxed).wrapping_add(n);
    PEAK.fetch_max(now, Ordering::Relaxed);
}
#[inline]
fn mem_sub(n: usize) {
    LIVE.fetch_sub(n, Ordering::Relaxed);
}
/// bytes currently allocated through the global allocator
pub fn mem_live() -> usize {
    LIVE.load(Ordering::Relaxed)
}
/// highest value of `mem_live()` since the last `mem_reset_peak()`
pub fn mem_peak() -> usize {
    PEAK.load(Ordering::Relaxed)
}
/// restarts the peak measurement at the current live size; returns that size
pub fn mem_reset_peak() -> usize {
    let l = LIVE.load(Ordering::Relaxed);
    PEAK.store(l, Ordering::Relaxed);
    l
}

// C11 (hostile announced lengths): optional ceiling on ONE allocation request.  0 = no ceiling.  A request above
// the ceiling is refused (null), which Rust turns into `handle_alloc_error` -> abort: the machine is never asked
// for the gigabytes a forged header announces; the size of the refused request is kept for the report.
static ONE_REQ_CAP: AtomicUsize = AtomicUsize::new(0);
static BIGGEST_REQ: AtomicUsize = AtomicUsize::new(0);
pub fn mem_set_request_cap(n: usize) {
    ONE_REQ_CAP.store(n, Ordering::Relaxed);
    BIGGEST_REQ.store(0, Ordering::Relaxed);
}
/// largest single request seen since the last `mem_set_request_cap`
pub fn mem_biggest_request() -> usize {
    BIGGEST_REQ.load(Ordering::Relaxed)
}
#[inline]
fn refuse_request(n: usize) -> bool {
    BIGGEST_REQ.fetch_max(n, Ordering::Relaxed);
    let cap = ONE_REQ_CAP.load(Ordering::Relaxed);
    cap != 0 && n > cap
}

unsafe impl GlobalAlloc for WatchAlloc {
    unsafe fn alloc(&self, layout: Layout) -> *mut u8 {
        if refuse_request(layout.size()) {
            return std::ptr::null_mut();
        }
        if let Some(p) = place::skew_alloc(layout, false) {
            mem_add(layout.size());
            return p;
        }
        let p = System.alloc(layout);
        if !p.is_null() {
            mem_add(layout.size());
        }
        p
    }
    unsafe fn alloc_zeroed(&self, layout: Layout) -> *mut u8 {
        if refuse_request(layout.size()) {
            return std::ptr::null_mut();
        }
        if let Some(p) = place::skew_alloc(layout, true) {
            mem_add(layout.size());
            return p;
        }
        let p = System.alloc_zeroed(layout);
        if !p.is_null() {
            mem_add(layout.size());
        }
        p
    }
    unsafe fn dealloc(&self, ptr: *mut u8, layout: Layout) {
        let seen = inspect(ptr, layout.size());
        commit(ptr as usize, seen);
        mem_sub(layout.size());
        if place::skew_dealloc(ptr, layout) {
            return; // a block z_place had handed out at a skewed address
        }
        System.dealloc(ptr, layout)
    }
    unsafe fn realloc(&self, ptr: *mut u8, layout: Layout, new_size: usize) -> *mut u8 {
        if refuse_request(new_size) {
            return std::ptr::null_mut();
        }
        let seen = inspect(ptr, layout.size());
        if place::skew_owns(ptr) {
            // a skewed block cannot be resized by the system allocator: move it to an ordinary block
            let new = System.alloc(Layout::from_size_align_unchecked(new_size, layout.align()));
            if new.is_null() {
                return new;
            }
            std::ptr::copy_nonoverlapping(ptr as *const u8, new, layout.size().min(new_size));
            mem_add(new_size);
            mem_sub(layout.size());
            commit(ptr as usize, seen);
            place::skew_dealloc(ptr, layout);
            return new;
        }
        let new = System.realloc(ptr, layout, new_size);
        if !new.is_null() {
            // while a block grows both sizes can be live inside the system allocator; count the new
            // size first so that the peak is not under-estimated
            mem_add(new_size);
            mem_sub(layout.size());
        }
        if !new.is_null() && new != ptr {
            // the old block was released with whatever it held
            commit(ptr as usize, seen);
        }
        new
    }
}

// placement variety (z_place) and the skewed 32-byte blocks it asks the allocator for
#[path = "zplace.rs"]
mod place;

#[global_allocator]
static GLOBAL: WatchAlloc = WatchAlloc;

fn watch_reset() {
    with_state(|st| {
        st.watch = [(0, 0); MAX_WATCH];
        st.nrec = 0;
        st.overflow = 0;
    })
}
fn watch_add(addr: usize, size: usize) {
    with_state(|st| {
        for w in st.watch.iter_mut() {
            if w.0 == 0 {
                *w = (addr, size);
                return;
            }
        }
        st.overflow += 1;
    })
}
// is the block at addr still watched (i.e. not released since watch_add)?
fn watch_has(addr: usize) -> bool {
    with_state(|st| addr != 0 && st.watch.iter().any(|w| w.0 == addr))
}
fn rec_count() -> usize {
    with_state(|st| st.nrec)
}
fn rec_get(i: usize) -> Rec {
    with_state(|st| st.recs[i])
}
fn overflow() -> usize {
    with_state(|st| st.overflow)
}

fn scan_start(pat: &[u8; 32]) {
    with_state(|st| {
        st.pattern = *pat;
        st.leaks = 0;
        st.blocks = 0;
        st.frees = 0;
        st.scan_on = true;
    })
}
// returns (leaks, blocks scanned, frees seen) and wipes the pattern
fn scan_stop() -> (usize, usize, usize) {
    with_state(|st| {
        st.scan_on = false;
        st.pattern = [0; 32];
        (st.leaks, st.blocks, st.frees)
    })
}

fn unhex(s: &str) -> Vec<u8> {
    if s == "-" {
        return Vec::new();
    }
    let b = s.as_bytes();
    assert!(b.len() % 2 == 0, "odd hex");
    let v = |c: u8| match c {
        b'0'..=b'9' => c - b'0',
        b'a'..=b'f' => c - b'a' + 10,
        b'A'..=b'F' => c - b'A' + 10,
        _ => panic!("bad hex"),
    };
    (0..b.len() / 2).map(|i| v(b[2 * i]) * 16 + v(b[2 * i + 1])).collect()
}
fn hex(b: &[u8]) -> String {
    if b.is_empty() {
        return "-".to_string();
    }
    let mut s = String::with_capacity(b.len() * 2);
    for x in b {
        s.push_str(&format!("{:02x}", x));
    }
    s
}

enum Cont {
    P(PrivateKey),
    K(Box<PayloadKey>),
    V(Vec<u8>), // control: a plain vector, nothing wipes it
}
impl Cont {
    fn block(&self) -> usize {
        match self {
            Cont::P(p) => p.as_bytes().as_ptr() as usize,
            Cont::K(k) => k.as_bytes().as_ptr() as usize,
            Cont::V(v) => v.as_ptr() as usize,
        }
    }
    fn dup(&self) -> Cont {
        match self {
            Cont::P(p) => Cont::P(p.clone()),
            Cont::K(k) => Cont::K(k.clone()),
            Cont::V(v) => Cont::V(v.clone()),
        }
    }
    // Clone::clone_from on the value itself (for the boxed PayloadKey: on the PayloadKey inside the box, so the
    // box and its heap block stay).  Both containers must be of the same kind.
    fn assign_from(&mut self, src: &Cont) {
        match (self, src) {
            (Cont::P(a), Cont::P(b)) => a.clone_from(b),
            (Cont::K(a), Cont::K(b)) => (**a).clone_from(&**b),
            (Cont::V(a), Cont::V(b)) => a.clone_from(b),
            _ => panic!("f<i>:<j>: containers of different kinds"),
        }
    }
}

fn recs_range(from: usize, to: usize) -> String {
    if to <= from {
        return "-".to_string();
    }
    let mut parts: Vec<String> = Vec::new();
    for i in from..to {
        let r = rec_get(i);
        parts.push(hex(&r.bytes[..r.len]));
    }
    parts.join(",")
}

// z_hist <script>
fn z_hist(script: &str) -> String {
    enum Tok {
        NewP(Vec<u8>),
        Gen,
        NewK(Vec<u8>),
        NewV(Vec<u8>),
        Clone(usize),
        Drop(usize),
        CloneFrom(usize, usize),
    }
    // how the containers that are live at the end of the script are released
    #[derive(Clone, Copy, PartialEq)]
    enum End {
        Normal,     // dropped one by one, in list order
        Unwind,     // `x`:  a closure that owns them panics (panic!): they are dropped by unwinding
        LibPanic,   // `xl`: as `x`, but the panic is the library's own (PayloadKey::new on 31 bytes)
    }
    let mut end = End::Normal;
    // parse first, so that the observed part does nothing but the container operations
    let mut toks: Vec<Tok> = Vec::new();
    if script != "-" {
        for t in script.split(',') {
            assert!(end == End::Normal, "x / xl must be the last token");
            let tok = if let Some(h) = t.strip_prefix("np:") {
                Tok::NewP(unhex(h))
            } else if t == "ng" {
                Tok::Gen
            } else if let Some(h) = t.strip_prefix("nk:") {
                Tok::NewK(unhex(h))
            } else if let Some(h) = t.strip_prefix("nv:") {
                Tok::NewV(unhex(h))
            } else if t == "x" || t == "xl" {
                assert!(end == End::Normal, "x / xl must be the last token");
                end = if t == "x" { End::Unwind } else { End::LibPanic };
                continue;
            } else if let Some(ij) = t.strip_prefix('f') {
                let (i, j) = ij.split_once(':').expect("f<i>:<j>");
                Tok::CloneFrom(i.parse().expect("bad index"), j.parse().expect("bad index"))
            } else if let Some(i) = t.strip_prefix('c') {
                Tok::Clone(i.parse().expect("bad index"))
            } else if let Some(i) = t.strip_prefix('d') {
                Tok::Drop(i.parse().expect("bad index"))
            } else {
                panic!("bad z_hist token")
            };
            toks.push(tok);
        }
    }
    let ngen = toks.iter().filter(|t| matches!(t, Tok::Gen)).count();
    if let Some(msg) = crate::rand_short(32 * ngen) {
        return msg;
    }
    watch_reset();
    let mut live: Vec<Cont> = Vec::with_capacity(toks.len());
    for tok in &toks {
        match tok {
            Tok::NewP(b) => {
                let c = Cont::P(PrivateKey::try_from(b.as_slice()).expect("np: needs 32 bytes"));
                watch_add(c.block(), 32);
                live.push(c);
            }
            Tok::Gen => {
                let c = Cont::P(PrivateKey::generate());
                watch_add(c.block(), 32);
                live.push(c);
            }
            Tok::NewK(b) => {
                let c = Cont::K(Box::new(PayloadKey::new(b)));
                watch_add(c.block(), 32);
                live.push(c);
            }
            Tok::NewV(b) => {
                assert!(b.len() == 32, "nv: needs 32 bytes");
                let c = Cont::V(b.clone());
                watch_add(c.block(), 32);
                live.push(c);
            }
            Tok::Clone(i) => {
                let c = live[*i].dup();
                watch_add(c.block(), 32);
                live.push(c);
            }
            Tok::Drop(i) => {
                let c = live.remove(*i);
                drop(c);
            }
            Tok::CloneFrom(i, j) => {
                assert!(i != j, "f<i>:<j> needs two different containers");
                assert!(*i < live.len() && *j < live.len(), "bad index");
                let before = live[*i].block();
                // two disjoint borrows of the list
                let (dst, src): (&mut Cont, &Cont) = if i < j {
                    let (a, b) = live.split_at_mut(*j);
                    (&mut a[*i], &b[0])
                } else {
                    let (a, b) = live.split_at_mut(*i);
                    (&mut b[0], &a[*j])
                };
                dst.assign_from(src);
                // the replaced value's block, if it was given up, has been recorded by dealloc (it was still
                // watched); the container's block is now a different one: watch it
                let after = live[*i].block();
                if after != before {
                    watch_add(after, 32);
                }
            }
        }
    }
    let nlive = live.len();
    let mid = rec_count();
    // containers still live are released too, in list order
    match end {
        End::Normal => {
            for c in live.drain(..) {
                drop(c);
            }
        }
        End::Unwind | End::LibPanic => {
            // the closure owns the containers; its panic unwinds through their destructors
            // (std::thread::panicking() is true while they run)
            let owned = std::mem::take(&mut live);
            let r = std::panic::catch_unwind(std::panic::AssertUnwindSafe(move || {
                let held = owned;
                if end == End::LibPanic {
                    let _k = PayloadKey::new(&[0u8; 31]); // "Keys must be 32 bytes"
                } else {
                    panic!("z_hist x: unwinding with live key containers");
                }
                drop(held); // not reached
            }));
            assert!(r.is_err(), "the closure was expected to panic");
        }
    }
    let first = recs_range(0, mid);
    let ovf = overflow();
    let mut s = format!("outcome=ok freed={}", first);
    if nlive > 0 {
        s.push('|');
        s.push_str(&recs_range(mid, rec_count()));
    }
    s.push_str(&format!(" live={}", nlive));
    if ovf > 0 {
        s.push_str(&format!(" overflow={}", ovf));
    }
    watch_reset();
    s
}

// fixed peer key pair used by z_api (RFC 7748 section 6.1, Bob)
const PEER_SK: [u8; 32] = [
    0x5d, 0xab, 0x08, 0x7e, 0x62, 0x4a, 0x8a, 0x4b, 0x79, 0xe1, 0x7f, 0x8b, 0x83, 0x80, 0x0e, 0xe6,
    0x6f, 0x3b, 0xb1, 0x29, 0x26, 0x18, 0xb6, 0xfd, 0x1c, 0x2f, 0x8b, 0x27, 0xff, 0x88, 0xe0, 0xeb,
];
const FIXED_EPH: [u8; 32] = [0x11; 32];
const FIXED_PAYLOAD: [u8; 32] = [0x22; 32];

// z_api <which> <sk hex32> [<pattern hex32>]
//   which = noise_enc | key_enc | key_dec | control | control0
// The given private key is the sender (noise_enc, key_enc) or the recipient (key_dec).  While
// the API call runs, every released block of >= 32 bytes is searched for the pattern (default:
// the private key itself).  Ephemeral key and payload key are fixed (0x11.., 0x22..), the peer
// is a fixed key pair, so nothing is drawn from the random source.
fn z_api(a: &[&str]) -> String {
    let which = a[1];
    let mut skb = unhex(a[2]);
    let mut pat = [0u8; 32];
    if a.len() > 3 {
        let mut p = unhex(a[3]);
        pat.copy_from_slice(&p);
        p.iter_mut().for_each(|b| *b = 0);
    } else {
        pat.copy_from_slice(&skb);
    }
    let sk = PrivateKey::try_from(skb.as_slice()).expect("z_api: key must be 32 bytes");
    skb.iter_mut().for_each(|b| *b = 0); // the harness' own copy must not be found later
    drop(skb);
    let pk: PublicKey = sk.to_public().expect("to_public");
    let peer_sk = PrivateKey::try_from(&PEER_SK[..]).unwrap();
    let peer_pk = peer_sk.to_public().unwrap();
    let eph = PrivateKey::try_from(&FIXED_EPH[..]).unwrap();
    let eph_pk = eph.to_public().unwrap();
    let payload = PayloadKey::new(&FIXED_PAYLOAD);
    let plaintext = b"zeroize observation plaintext".to_vec();

    let (status, counts) = match which {
        "noise_enc" => {
            scan_start(&pat);
            let r = kc::noise_encrypt(&sk, &pk, &peer_pk, Some(&eph), Some(&eph_pk), b"prologue", &payload);
            let c = scan_stop();
            (if r.is_ok() { "ok" } else { "err" }, c)
        }
        "key_enc" => {
            let mut rd = Cursor::new(plaintext.clone());
            let mut out: Vec<u8> = Vec::with_capacity(4096);
            scan_start(&pat);
            let r = kc::encrypt::key_encrypt(
                &mut rd, &mut out, &sk, &pk, &peer_pk, Some(&eph), Some(&eph_pk), Some(&payload), AsymFileFormat::V1,
            );
            let c = scan_stop();
            (if r.is_ok() { "ok" } else { "err" }, c)
        }
        "key_dec" => {
            // ciphertext from the fixed peer to the given key, produced with observation off
            let mut rd = Cursor::new(plaintext.clone());
            let mut ct: Vec<u8> = Vec::new();
            kc::encrypt::key_encrypt(
                &mut rd, &mut ct, &peer_sk, &peer_pk, &pk, Some(&eph), Some(&eph_pk), Some(&payload), AsymFileFormat::V1,
            )
            .expect("z_api: preparing ciphertext failed");
            let mut rd = Cursor::new(ct);
            let mut out: Vec<u8> = Vec::with_capacity(4096);
            scan_start(&pat);
            let r = kc::decrypt::key_decrypt(&mut rd, &mut out, &sk, &pk, AsymFileFormat::V1);
            let c = scan_stop();
            let ok = r.is_ok() && out == plaintext;
            (if ok { "ok" } else { "err" }, c)
        }
        // positive control: the harness itself releases one un-wiped copy -> leaks=1
        "control" => {
            let copy: Vec<u8> = pat.to_vec();
            scan_start(&pat);
            drop(copy);
            let c = scan_stop();
            ("ok", c)
        }
        // negative control: a copy that is wiped before release -> leaks=0
        "control0" => {
            let mut copy: Vec<u8> = pat.to_vec();
            scan_start(&pat);
            for b in copy.iter_mut() {
                unsafe { std::ptr::write_volatile(b, 0) };
            }
            drop(copy);
            let c = scan_stop();
            ("ok", c)
        }
        _ => return "outcome=badop".into(),
    };
    pat = [0; 32];
    let _ = pat;
    format!("outcome={} leaks={} blocks={} frees={}", status, counts.0, counts.1, counts.2)
}

pub fn run(a: &[&str]) -> String {
    // a panicking case may leave scan mode on: always start clean
    let _ = scan_stop();
    match a[0] {
        "z_hist" => z_hist(a[1]),
        "z_api" => z_api(a),
        "z_place" => place::z_place(a),
        _ => "outcome=badop".into(),
    }
}
